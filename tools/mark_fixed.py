#!/usr/bin/env python3
"""mark findings as fixed: tools/mark_fixed.py <commit> <key> [<key>...]  (edits findings.d/*.json, then merge)"""
import glob, json, sys, subprocess, os
root = os.path.dirname(os.path.dirname(os.path.abspath(__file__)))
commit, keys = sys.argv[1], set(sys.argv[2:])
hit = set()
for f in glob.glob(os.path.join(root, "findings.d", "*.json")):
    L = json.load(open(f)); ch = False
    for x in L:
        if x["key"] in keys and x["status"] != "fixed":
            what = x["what"]
            x["status"] = "fixed"; x["commit"] = commit
            x["what"] = f"fixed: property={x['property']} {commit} " + what
            hit.add(x["key"]); ch = True
    if ch:
        json.dump(L, open(f, "w"), indent=1)
print("marked", sorted(hit), "not found", sorted(keys - hit))
subprocess.run(["/venv/bin/python", os.path.join(root, "tools", "merge_findings.py")])
