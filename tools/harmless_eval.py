#!/venv/bin/python
"""Run checks against a behaviour-PRESERVING rewrite (harmless/<id>/patch.diff): every check must stay
silent (exit 0).  usage: tools/harmless_eval.py <dir> --checks C13,C14 [--seed n]; writes <dir>/verification.json"""
import argparse, json, os, shutil, subprocess, time
ap = argparse.ArgumentParser(); ap.add_argument("dir"); ap.add_argument("--checks", required=True); ap.add_argument("--seed", default="0")
a = ap.parse_args()
d = os.path.abspath(a.dir)
meta = json.load(open(os.path.join(d, "meta.json")))
BASE = os.environ.get("SEED_BASE", "HEAD")
wt = f"/tmp/harm_eval_{os.path.basename(d)}_{os.getpid()}"
sh = lambda c, **k: subprocess.run(c, shell=True, capture_output=True, text=True, **k)
res = {"dir": d, "time": time.strftime("%F %T"), "base_commit": BASE, "checks": {}}
sh(f"git -C /repo worktree add --detach {wt} {BASE}")
try:
    ap_ = sh(f"git -C {wt} apply {d}/patch.diff")
    res["patch_applies"] = ap_.returncode == 0
    if ap_.returncode == 0:
        for pid in a.checks.split(","):
            t = time.time()
            c = sh(f"./check {pid} --tier quick", cwd="/verif", env=dict(os.environ, OPACUS_REPO=wt, VERIF_SEED=a.seed, OMP_NUM_THREADS="4"))
            lines = [l for l in c.stdout.splitlines() if l.startswith("VIOLATION") or l.startswith("INFRA")]
            res["checks"][pid] = {"exit": c.returncode, "lines": lines[:6], "wall_s": round(time.time() - t, 1)}
    else:
        res["patch_error"] = ap_.stderr[-400:]
finally:
    sh(f"git -C /repo worktree remove --force {wt}"); shutil.rmtree(wt, ignore_errors=True); sh("git -C /repo worktree prune")
json.dump(res, open(os.path.join(d, "verification.json"), "w"), indent=1)
print(json.dumps({"dir": os.path.basename(d), "silent": {p: v["exit"] == 0 for p, v in res["checks"].items()}, "applies": res.get("patch_applies")}))
