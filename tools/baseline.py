#!/venv/bin/python
"""Run /repo's pinned baseline suite (guard OFF) and compare with /root/.vp/BASELINE.json stable_pass.
usage: tools/baseline.py [repo_dir]   exit 0 iff every stable_pass test passed."""
import json, os, subprocess, sys, tempfile, xml.etree.ElementTree as ET
repo = sys.argv[1] if len(sys.argv) > 1 else "/repo"
base = json.load(open("/root/.vp/BASELINE.json"))
env = dict(os.environ); env.pop("OPACUS_VERIF", None)
if os.environ.get("BASELINE_N"):
    env.setdefault("OMP_NUM_THREADS", "1")   # xdist workers x torch intra-op threads oversubscribe the machine otherwise
with tempfile.TemporaryDirectory() as d:
    xml = os.path.join(d, "r.xml")
    cmd = ["/venv/bin/python", "-m", "pytest", "-ra", "-q", "-p", "no:cacheprovider", "--timeout=900",
           "--continue-on-collection-errors", f"--junitxml={xml}"] + (["-n", os.environ["BASELINE_N"]] if os.environ.get("BASELINE_N") else []) + sys.argv[2:]
    p = subprocess.run(cmd, cwd=repo, env=env, capture_output=True, text=True)
    passed = set()
    for tc in ET.parse(xml).getroot().iter("testcase"):
        if not any(ch.tag in ("failure", "error", "skipped") for ch in tc):
            passed.add(tc.get("classname") + "::" + tc.get("name"))
want = set(base["stable_pass"])
missing = sorted(want - passed)


def nodeid(t):
    cls, name = t.split("::", 1)
    parts = cls.split(".")
    for k in range(len(parts), 0, -1):
        f = os.path.join(repo, *parts[:k]) + ".py"
        if os.path.exists(f):
            return "::".join([os.path.join(*parts[:k]) + ".py"] + parts[k:] + [name])
    return None


# load-sensitive tests (benchmark timings, 900 s time-outs under a busy machine): re-run what did not
# pass once more, alone and without xdist, before calling it a failure
for attempt in range(3):   # some tests draw unseeded random data and fail now and then on the unchanged tree too
    if not (missing and len(missing) <= 40 and os.environ.get("BASELINE_RETRY", "1") == "1"):
        break
    ids = [n for n in map(nodeid, missing) if n]
    with tempfile.TemporaryDirectory() as d:
        xml = os.path.join(d, "r2.xml")
        subprocess.run(["/venv/bin/python", "-m", "pytest", "-q", "-p", "no:cacheprovider", "--timeout=1800", f"--junitxml={xml}"] + ids,
                       cwd=repo, env=env, capture_output=True, text=True)
        if os.path.exists(xml):
            for tc in ET.parse(xml).getroot().iter("testcase"):
                if not any(ch.tag in ("failure", "error", "skipped") for ch in tc):
                    passed.add(tc.get("classname") + "::" + tc.get("name"))
    missing = sorted(want - passed)
print(f"stable_pass={len(want)} passed_now={len(passed)} missing={len(missing)}")
for m in missing[:40]: print("  NOT PASSING:", m)
print(p.stdout[-400:])
sys.exit(1 if missing else 0)
