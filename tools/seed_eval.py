#!/venv/bin/python
"""Evaluate one seeded defect directory (patch.diff, demo.py, meta.json) in a scratch worktree:
demo passes on the clean tree, fails with the patch; the property's check (and optionally others)
run against the patched tree via OPACUS_REPO; optionally the pinned baseline suite.
usage: tools/seed_eval.py <dir> [--checks C11,C05] [--baseline] [--tier quick]
Writes <dir>/verification.json.  Never touches /repo's working tree (uses a detached worktree)."""
import argparse, json, os, shutil, subprocess, sys, time

ap = argparse.ArgumentParser()
ap.add_argument("dir")
ap.add_argument("--checks", default="")
ap.add_argument("--baseline", action="store_true")
ap.add_argument("--tier", default="quick")
ap.add_argument("--seed", default="0")
a = ap.parse_args()
d = os.path.abspath(a.dir)
meta = json.load(open(os.path.join(d, "meta.json")))
pids = [p for p in (a.checks.split(",") if a.checks else [meta["property"]]) if p]
name = os.path.basename(os.path.dirname(d)) + "_" + os.path.basename(d) if os.path.basename(d).isdigit() else os.path.basename(d)
wt = f"/tmp/seed_eval_{name}_{os.getpid()}"
env = dict(os.environ, OMP_NUM_THREADS="4", PYTHONDONTWRITEBYTECODE="1")


def sh(cmd, **kw):
    return subprocess.run(cmd, shell=True, capture_output=True, text=True, **kw)


# seeded patches are diffs against meta["base_commit"] (default 223586f); they are evaluated on /repo's HEAD
# (which contains later `fix:` commits): `patch_head.diff` is the same change rebased by hand where the
# original no longer applies.  SEED_BASE=<commit> forces another base.
BASE = os.environ.get("SEED_BASE", "HEAD")
PATCH = "patch_head.diff" if (BASE == "HEAD" and os.path.exists(os.path.join(d, "patch_head.diff"))) else "patch.diff"
res = {"dir": d, "time": time.strftime("%F %T"), "repo_head": sh("git -C /repo rev-parse --short HEAD").stdout.strip(), "base_commit": BASE, "patch_file": PATCH}
sh(f"git -C /repo worktree add --detach {wt} {BASE}")
try:
    e2 = dict(env, PYTHONPATH=wt)
    r = sh(f"/venv/bin/python {d}/demo.py", env=e2, cwd=wt)
    res["demo_clean_exit"] = r.returncode
    ap_ = sh(f"git -C {wt} apply {d}/{PATCH}")
    res["patch_applies"] = ap_.returncode == 0
    if ap_.returncode != 0:
        res["patch_error"] = ap_.stderr[-500:]
    else:
        r = sh(f"/venv/bin/python {d}/demo.py", env=e2, cwd=wt)
        res["demo_patched_exit"] = r.returncode
        res["demo_patched_tail"] = (r.stdout + r.stderr)[-600:]
        imp = sh("/venv/bin/python -c 'import opacus, opacus.optimizers, opacus.accountants, opacus.layers, opacus.validators, opacus.utils.batch_memory_manager'", env=e2, cwd=wt)
        res["imports_ok"] = imp.returncode == 0
        res["checks"] = {}
        for pid in pids:
            t = time.time()
            c = sh(f"./check {pid} --tier {a.tier}", cwd="/verif", env=dict(env, OPACUS_REPO=wt, VERIF_SEED=a.seed))
            lines = [l for l in c.stdout.splitlines() if l.startswith("VIOLATION") or l.startswith("INFRA")]
            lines.sort(key=lambda l: l.endswith("no-failing-input-found"))   # failing inputs first: only the first 8 lines are kept
            res["checks"][pid] = {"exit": c.returncode, "lines": lines[:8], "wall_s": round(time.time() - t, 1)}
        if a.baseline:
            b = sh(f"/verif/tools/baseline.py {wt}", env=env)
            res["baseline_exit"] = b.returncode
            res["baseline_head"] = b.stdout[:600]
finally:
    sh(f"git -C /repo worktree remove --force {wt}")
    shutil.rmtree(wt, ignore_errors=True)
    sh("git -C /repo worktree prune")
prev = {}
vf = os.path.join(d, "verification.json")
if os.path.exists(vf):
    prev = json.load(open(vf))
    # keep earlier baseline result if this run did not redo it (same patch)
    for k in ("baseline_exit", "baseline_head"):
        if k in prev and k not in res:
            res[k] = prev[k]
json.dump(res, open(vf, "w"), indent=1)
caught = {p: (v["exit"] == 1) for p, v in res.get("checks", {}).items()}
print(json.dumps({"dir": d, "demo_clean": res.get("demo_clean_exit"), "demo_patched": res.get("demo_patched_exit"), "caught": caught, "baseline": res.get("baseline_exit")}))
