#!/venv/bin/python
"""seed robustness of the catch: run the OWN check of every seeded change with further seeds.
usage: tools/seed_robust.py [--seeds 1,2] [ids...]; writes seeded/<id>/robustness.json"""
import argparse, glob, json, os, shutil, subprocess, sys, time
ap = argparse.ArgumentParser(); ap.add_argument("ids", nargs="*"); ap.add_argument("--seeds", default="1,2")
a = ap.parse_args()
sh = lambda c, **k: subprocess.run(c, shell=True, capture_output=True, text=True, **k)
ids = a.ids or sorted(os.path.basename(d.rstrip("/")) for d in glob.glob("/verif/seeded/*/"))
for sid in ids:
    d = f"/verif/seeded/{sid}"; own = sid[:3]
    patch = "patch_head.diff" if os.path.exists(f"{d}/patch_head.diff") else "patch.diff"
    wt = f"/tmp/seed_rob_{sid}_{os.getpid()}"
    sh(f"git -C /repo worktree add --detach {wt} HEAD")
    res = {"time": time.strftime("%F %T"), "repo_head": sh("git -C /repo rev-parse --short HEAD").stdout.strip(), "own_check": own, "seeds": {}}
    try:
        if sh(f"git -C {wt} apply {d}/{patch}").returncode != 0:
            res["error"] = "patch does not apply"
        else:
            for s in a.seeds.split(","):
                c = sh(f"flock /verif/.work/eval.lock ./check {own} --tier quick", cwd="/verif", env=dict(os.environ, OPACUS_REPO=wt, VERIF_SEED=s, OMP_NUM_THREADS="4"))
                res["seeds"][s] = {"exit": c.returncode, "violations": sum(l.startswith("VIOLATION") for l in c.stdout.splitlines())}
    finally:
        sh(f"git -C /repo worktree remove --force {wt}"); shutil.rmtree(wt, ignore_errors=True)
    try:   # keep the verdicts of seeds evaluated earlier
        old = json.load(open(f"{d}/robustness.json")).get("seeds", {})
        res["seeds"] = dict(old, **res["seeds"])
    except Exception:
        pass
    json.dump(res, open(f"{d}/robustness.json", "w"), indent=1)
    print(sid, {s: v["exit"] for s, v in res["seeds"].items()}, res.get("error", ""), flush=True)
