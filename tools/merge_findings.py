#!/venv/bin/python
"""KNOWN_FINDINGS.json is the single committed known-findings file read by the checks; it is the
concatenation of findings.d/*.json (one file per property so that parallel work does not collide).
Run after editing findings.d/.  Never run by a check."""
import json, glob, os
root = os.path.dirname(os.path.dirname(os.path.abspath(__file__)))
out = []
for f in sorted(glob.glob(os.path.join(root, "findings.d", "*.json"))):
    out += json.load(open(f))
keys = [(x["property"], x["key"]) for x in out]
assert len(keys) == len(set(keys)), "duplicate finding keys"
tmp = os.path.join(root, "KNOWN_FINDINGS.json.tmp")
json.dump({"comment": "generated from findings.d/*.json by tools/merge_findings.py; status known = printed as KNOWN-FINDING and tolerated; status fixed = repaired by the named fix: commit, suppresses nothing",
           "findings": out}, open(tmp, "w"), indent=1)
os.replace(tmp, os.path.join(root, "KNOWN_FINDINGS.json"))
print(len(out), "findings")
