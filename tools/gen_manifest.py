#!/venv/bin/python
"""Regenerate MANIFEST.json from the property modules under vharness/props/ (each declares its own
level text / technique); properties without a module are listed under not_applicable with the reason
in tools/not_applicable.json (or 'check not built yet')."""
import importlib, json, os, sys
root = os.path.dirname(os.path.dirname(os.path.abspath(__file__)))
sys.path.insert(0, root)
props = [json.loads(l) for l in open(os.path.join(root, "properties.jsonl"))]
na_file = os.path.join(root, "tools", "not_applicable.json")
na_reasons = json.load(open(na_file)) if os.path.exists(na_file) else {}
checks, na = [], []
for p in props:
    pid = p["id"]
    path = os.path.join(root, "vharness", "props", pid.lower() + ".py")
    if not os.path.exists(path) or pid in na_reasons:
        na.append({"property_id": pid, "reason": na_reasons.get(pid, "check not built yet (work in progress; see DESIGN.md §5 for the plan)")})
        continue
    # read declarations without importing torch-heavy modules: exec only top-level string/list constants
    src = open(path).read()
    import ast
    decl = {}
    for node in ast.parse(src).body:
        if isinstance(node, ast.Assign) and len(node.targets) == 1 and isinstance(node.targets[0], ast.Name):
            try:
                decl[node.targets[0].id] = ast.literal_eval(node.value)
            except Exception:
                pass
    checks.append({
        "property_id": pid,
        "quick_cmd": f"./check {pid} --tier quick",
        "thorough_cmd": f"./check {pid} --tier thorough",
        "evidence_file": f"evidence/{pid}.json",
        "replay_cmd_template": f"./check {pid} --replay {{path}}",
        "engine": "lean4-proof+correspondence",
        "level_claimed": {
            "category": "proof",
            "text": decl.get("LEVEL_TEXT") or ("Lean 4 theorems (" + ", ".join(t.split(".")[-1] for t in decl.get("THEOREMS", [])) + ") about an executable model; the same definitions are run against the real Opacus objects by a behavioural correspondence check on every run"),
            "design_ref": f"DESIGN.md §5 {pid}",
        },
        "level_note": "; ".join(decl.get("TRUSTED", []) + ["PARTIAL: " + x for x in decl.get("PARTIAL", [])]) or "see DESIGN.md §4",
        "technique": decl.get("TECHNIQUE", "machine-checked proof in Lean 4 (model + theorems) tied to the code by differential correspondence"),
    })
man = {
    "version": 1,
    "setup_cmd": "./check --setup",
    "hooks": {
        "guard": "OPACUS_VERIF",
        "enable": "no source hooks: the harness observes the real objects from outside (wraps torch.normal / torch.rand / hook methods in its own process); OPACUS_VERIF=1 is exported by ./check but nothing in /repo reads it",
        "baseline_off_cmd": "cd /repo && /venv/bin/python -m pytest -ra -q -p no:cacheprovider --timeout=900 --continue-on-collection-errors",
        "source_commits": [],
        "add_only": True,
    },
    "engines": [{
        "name": "lean4-proof+correspondence",
        "path": "lean/ (lake project OpacusLean) + vharness/ (Python harness) + check",
        "serves_properties": [c["property_id"] for c in checks],
        "kind_free_text": "Lean 4.33 + Mathlib theorems about hand-written executable models; models executed via `lake env lean --run lean/Drivers/*.lean` over a line protocol and compared with the real Opacus objects on seeded inputs; property oracles on the real code produce the replays",
    }],
    "checks": checks,
    "not_applicable": na,
    "notes": "All checks: exit 0 = held; exit 1 + `VIOLATION property=<id> replay=<path>` = violation (suffix no-failing-input-found when only a proof obligation / correspondence broke); exit 2 = infrastructure error. Known findings: KNOWN_FINDINGS.json.",
}
json.dump(man, open(os.path.join(root, "MANIFEST.json"), "w"), indent=1)
try:
    import jsonschema
    jsonschema.validate(man, json.load(open("/root/.vp/MANIFEST.schema.json")))
    print("MANIFEST valid;", len(checks), "checks,", len(na), "not_applicable")
except ImportError:
    print("jsonschema not available; wrote MANIFEST with", len(checks), "checks")
