#!/usr/bin/env python3
"""validate MANIFEST.json and evidence/*.json against the schemas (run with python3-vt)"""
import json, glob, sys, jsonschema
ok = True
jsonschema.validate(json.load(open("MANIFEST.json")), json.load(open("/root/.vp/MANIFEST.schema.json")))
print("MANIFEST ok")
sch = json.load(open("/root/.vp/EVIDENCE.schema.json"))
for f in sorted(glob.glob("evidence/*.json")):
    try:
        jsonschema.validate(json.load(open(f)), sch); print(f, "ok")
    except Exception as e:
        ok = False; print(f, "INVALID", str(e)[:300])
sys.exit(0 if ok else 1)
