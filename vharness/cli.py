"""./check <Cxx> [--tier quick|thorough] [--replay path] [--seed n]   |   ./check --setup"""
from __future__ import annotations
import argparse, importlib, json, os, sys, traceback
from . import core


def setup():
    """MANIFEST.setup_cmd: build the whole Lean library from files on disk (offline)."""
    with core.lake_lock():
        rc, out, err = core.run_cmd(["lake", "build"], cwd=core.LEAN, timeout=10800)
    print((out + err)[-4000:])
    return rc


def main(argv=None):
    ap = argparse.ArgumentParser()
    ap.add_argument("pid", nargs="?")
    ap.add_argument("--tier", default=os.environ.get("VERIF_TIER", "quick"), choices=["quick", "thorough"])
    ap.add_argument("--seed", type=int, default=int(os.environ.get("VERIF_SEED", "0") or 0))
    ap.add_argument("--replay")
    ap.add_argument("--setup", action="store_true")
    a = ap.parse_args(argv)
    if a.setup:
        return setup()
    pid = a.pid.upper()
    try:
        mod = importlib.import_module(f"vharness.props.{pid.lower()}")
    except ModuleNotFoundError as e:
        print(f"no check for {pid}: {e}")
        return 2
    ctx = core.Ctx(pid, a.tier, a.seed, mod)
    try:
        if a.replay:
            rp = json.load(open(a.replay))
            if not hasattr(mod, "replay"):
                print("replay not supported for", pid)
                return 2
            mod.replay(ctx, rp)
            return 1 if ctx.violations else 0
        ctx.prove()
        mod.run(ctx)
        return ctx.finish()
    except core.InfraError as e:
        print(f"INFRA-ERROR {pid}: {e}")
        return 2
    except Exception:
        traceback.print_exc()
        print(f"INFRA-ERROR {pid}: harness crashed")
        return 2


if __name__ == "__main__":
    sys.exit(main())
