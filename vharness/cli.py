"""./check <Cxx> [--tier quick|thorough] [--replay path] [--seed n]   |   ./check --setup"""
from __future__ import annotations
import argparse, importlib, json, os, sys, traceback
from . import core


def setup():
    """MANIFEST.setup_cmd: build the whole Lean library from files on disk (offline)."""
    with core.lake_lock():
        rc, out, err = core.run_cmd(["lake", "build"], cwd=core.LEAN, timeout=10800)
    print((out + err)[-4000:])
    return rc


def main(argv=None):
    ap = argparse.ArgumentParser()
    ap.add_argument("pid", nargs="?")
    ap.add_argument("--tier", default=os.environ.get("VERIF_TIER", "quick"), choices=["quick", "thorough"])
    ap.add_argument("--seed", type=int, default=int(os.environ.get("VERIF_SEED", "0") or 0))
    ap.add_argument("--replay")
    ap.add_argument("--setup", action="store_true")
    a = ap.parse_args(argv)
    if a.setup:
        return setup()
    pid = a.pid.upper()
    try:
        mod = importlib.import_module(f"vharness.props.{pid.lower()}")
    except ModuleNotFoundError as e:
        print(f"no check for {pid}: {e}")
        return 2
    ctx = core.Ctx(pid, a.tier, a.seed, mod)
    try:
        if a.replay:
            rp = json.load(open(a.replay))
            if not hasattr(mod, "replay"):
                print("replay not supported for", pid)
                return 2
            mod.replay(ctx, rp)
            return 1 if ctx.violations else 0
        ctx.prove()
        mod.run(ctx)
        return ctx.finish()
    except core.InfraError as e:
        print(f"INFRA-ERROR {pid}: {e}")
        return 2
    except Exception as e:
        traceback.print_exc()
        # An exception that comes out of the code under test (a frame inside the checked-out
        # repository, or a missing opacus name the harness drives) means the correspondence can no
        # longer be run against this tree: by DESIGN §3 that is a broken correspondence, i.e. the
        # property is no longer shown to hold (exit 1, no-failing-input-found).  Tool-chain trouble
        # (time-outs, lake, drivers) stays an infrastructure error (exit 2).
        import subprocess
        tb = traceback.extract_tb(e.__traceback__)
        repo = str(core.REPO.resolve())
        in_repo = [f for f in tb if os.path.realpath(f.filename).startswith(repo + os.sep)]
        names = isinstance(e, (ImportError, AttributeError)) and "opacus" in (str(e) + " ".join(f.line or "" for f in tb[-2:]))
        if (in_repo or names) and not isinstance(e, (subprocess.TimeoutExpired, MemoryError)):
            where = f"{in_repo[-1].filename}:{in_repo[-1].lineno} in {in_repo[-1].name}" if in_repo else "harness (opacus name no longer resolves)"
            ctx.violation(
                "impl-exception",
                {
                    "kind": "correspondence-break",
                    "component": "harness-could-not-drive-implementation",
                    "exception": f"{type(e).__name__}: {e}"[:600],
                    "raised_at": where,
                    "trace": traceback.format_exc()[-2500:],
                    "unchecked": f"the correspondence of {pid} could not be run: the implementation raised where the unchanged tree does not",
                },
                no_failing_input=True,
            )
            try:
                ctx.finish()
            except Exception:
                pass
            return 1
        if ctx.violations:
            # a VIOLATION with its replay has already been reported; the later crash of the harness
            # does not take it back
            print(f"[{pid}] harness crashed after reporting {len(ctx.violations)} violation(s); verdict stands")
            try:
                ctx.finish()
            except Exception:
                pass
            return 1
        print(f"INFRA-ERROR {pid}: harness crashed")
        return 2


if __name__ == "__main__":
    sys.exit(main())
