"""Shared machinery of the Opacus verification harness.

A property check (vharness/props/cXX.py) is a module with

    PID        = "C17"
    MODULES    = ["OpacusLean.Props.C17"]          # lake targets that carry the obligations
    THEOREMS   = ["Opacus.C17.exp_closed_form", …]  # fully-qualified Lean names = proof obligations
    TRUSTED    = [...]                              # per-property additions to the trusted base
    def run(ctx): ...                               # correspondence + witness replay + search

`run` talks to the rest of the world only through `Ctx` (below).  The verdict
protocol of DESIGN.md §3 lives here, so that every property reports in the same way:

  * `ctx.prove()`                      build the Lean modules, audit axioms → obligations/discharged
  * `ctx.lean_driver(name, lines)`     run a Mathlib-free model driver over a line protocol
  * `ctx.case(key, nontrivial, sample)`  count one explored case (distribution goes to evidence)
  * `ctx.mismatch(component, case, impl, model, oracle=...)`
                                       a correspondence break: evaluates the property oracle on
                                       the real code at that case; VIOLATION with or without
                                       failing input
  * `ctx.property_failure(key, what, replay)`
                                       the property itself fails on the implementation at a
                                       concrete input: KNOWN-FINDING if KNOWN_FINDINGS.json lists
                                       the key as known, VIOLATION otherwise
  * `ctx.finish()`                     writes evidence/<id>.json and returns the exit status
"""
from __future__ import annotations

import fcntl
import hashlib
import json
import os
import random
import re
import struct
import subprocess
import sys
import time
import traceback
from collections import Counter
from pathlib import Path

ROOT = Path(__file__).resolve().parent.parent          # /verif
LEAN = ROOT / "lean"
WORK = ROOT / ".work"
EVID = ROOT / "evidence"
REPLAYS = ROOT / "replays"
CORPUS = ROOT / "corpus"
REPO = Path(os.environ.get("OPACUS_REPO", "/repo"))
ALLOWED_AXIOMS = {"propext", "Classical.choice", "Quot.sound"}
FORBIDDEN = re.compile(
    r"\bsorry\b|\badmit\b|^\s*axiom\s|native_decide|bv_decide|implemented_by|\bunsafe\s|maxHeartbeats\s+0\b",
    re.M,
)

GLOBAL_TRUSTED = [
    "Lean 4.33 kernel + Mathlib v4.33; axioms allowed: propext, Classical.choice, Quot.sound (audited by #print axioms on every run)",
    "hand-written Lean model tied to /repo by the behavioural correspondence check run here (generator quality bounds what it sees) and, for C02 / C03 / C04 / C05 / C06 / C07 / C08 / C09 / C11 / C12 / C13 / C15 / C17 / C20, additionally by tables / definitions re-generated from the source on every run and proved equal to the model (the translators are trusted, see the property's own entries)",
    "Float-vs-real: theorems over exact rings/reals; implementation rounding not modelled except at int() truncations",
    "PyTorch (autograd, torch.normal/rand as ideal samplers, nn reference layers, DDP collectives), NumPy, SciPy special functions",
]


# --------------------------------------------------------------------------- helpers
def f2h(x: float) -> str:
    """binary64 -> 16 hex digits (the `f:` channel of the line protocol)"""
    return "%016x" % struct.unpack(">Q", struct.pack(">d", float(x)))[0]


def h2f(s: str) -> float:
    return struct.unpack(">d", struct.pack(">Q", int(s, 16)))[0]


def close(a: float, b: float, rel: float = 1e-9, abs_: float = 1e-12) -> bool:
    if a != a or b != b:
        return (a != a) and (b != b)
    if a in (float("inf"), float("-inf")) or b in (float("inf"), float("-inf")):
        return a == b
    return abs(a - b) <= max(abs_, rel * max(abs(a), abs(b)))


def strip_lean_comments(src: str) -> str:
    out, i, depth, n = [], 0, 0, len(src)
    while i < n:
        if src.startswith("/-", i):
            depth += 1
            i += 2
        elif depth and src.startswith("-/", i):
            depth -= 1
            i += 2
        elif depth:
            i += 1
        elif src.startswith("--", i):
            while i < n and src[i] != "\n":
                i += 1
        elif src[i] == '"':
            j = i + 1
            while j < n and src[j] != '"':
                j += 2 if src[j] == "\\" else 1
            i = j + 1
        else:
            out.append(src[i])
            i += 1
    return "".join(out)


class InfraError(Exception):
    """harness / tool-chain trouble: exit status 2, never a VIOLATION"""


class lake_lock:
    def __enter__(self):
        WORK.mkdir(exist_ok=True)
        self.f = open(WORK / "lake.lock", "w")
        fcntl.flock(self.f, fcntl.LOCK_EX)
        return self

    def __exit__(self, *a):
        fcntl.flock(self.f, fcntl.LOCK_UN)
        self.f.close()


def run_cmd(cmd, cwd=None, inp=None, timeout=3600, env=None):
    e = dict(os.environ)
    if env:
        e.update(env)
    p = subprocess.run(cmd, cwd=cwd, input=inp, capture_output=True, text=True, timeout=timeout, env=e)
    return p.returncode, p.stdout, p.stderr


def module_path(mod: str) -> Path:
    return LEAN / (mod.replace(".", "/") + ".lean")


def transitive_local_imports(mods):
    seen, todo = [], list(mods)
    while todo:
        m = todo.pop()
        if m in seen:
            continue
        p = module_path(m)
        if not p.exists():
            continue
        seen.append(m)
        for line in p.read_text().splitlines():
            mm = re.match(r"\s*(?:public\s+)?import\s+(OpacusLean\.[\w.]+)", line)
            if mm:
                todo.append(mm.group(1))
    return seen


# --------------------------------------------------------------------------- findings
def load_findings():
    p = ROOT / "KNOWN_FINDINGS.json"
    if not p.exists():
        return []
    return json.loads(p.read_text()).get("findings", [])


# --------------------------------------------------------------------------- context
class Ctx:
    def __init__(self, pid: str, tier: str, seed: int, mod):
        self.pid, self.tier, self.seed, self.mod = pid, tier, seed, mod
        self.rng = random.Random((seed * 1000003) ^ int(hashlib.sha1(pid.encode()).hexdigest()[:8], 16))
        self.t0 = time.time()
        self.obligations = []          # dicts: name, status, axioms
        self.lean_ok = None
        self.lean_log = ""
        self.evaluations = 0
        self.nontrivial = set()
        self.samples = []
        self.hist = Counter()
        self.traces_validated = 0
        self.violations = []           # (replay_path, tail)
        self.known_printed = []
        self.notes = []
        self.extra = {}
        self.variant = {}
        self.findings = [f for f in load_findings() if f.get("property") == pid or pid in f.get("properties", [])]
        for d in (WORK, EVID, REPLAYS):
            d.mkdir(exist_ok=True)

    # ------------------------------------------------------------- sizes
    def n(self, quick: int, thorough: int) -> int:
        return thorough if self.tier == "thorough" else quick

    @property
    def thorough(self):
        return self.tier == "thorough"

    def log(self, *a):
        print(f"[{self.pid}]", *a, flush=True)

    # ------------------------------------------------------------- Lean side
    def prove(self, modules=None, theorems=None, clean=False):
        """Build the property's Lean modules and audit every obligation.  A failed build or a
        failed audit is *not yet* a violation (DESIGN §3): it is recorded and reported by
        `finish()` as `no-failing-input-found` unless a property failure on the real code is
        found by the rest of the run."""
        modules = modules or self.mod.MODULES
        theorems = theorems or self.mod.THEOREMS
        t = time.time()
        with lake_lock():
            if clean or (self.thorough and os.environ.get("VERIF_NO_CLEAN") != "1"):
                for m in transitive_local_imports(modules):
                    for ext in ("olean", "ilean", "trace", "olean.hash", "ilean.hash", "olean.server", "olean.private"):
                        q = LEAN / ".lake/build/lib/lean" / (m.replace(".", "/") + "." + ext)
                        if q.exists():
                            q.unlink()
            rc, out, err = run_cmd(["lake", "build", *modules], cwd=LEAN, timeout=5400)
        self.lean_log = (out + err)[-6000:]
        self.lean_ok = rc == 0
        # source audit (comments and strings discarded)
        bad = []
        for m in transitive_local_imports(modules):
            src = strip_lean_comments(module_path(m).read_text())
            for hit in FORBIDDEN.finditer(src):
                bad.append(f"{m}: {hit.group(0).strip()}")
        # axiom audit
        axioms = {}
        if self.lean_ok:
            aud = WORK / f"audit_{self.pid}.lean"
            aud.write_text(
                "".join(f"import {m}\n" for m in modules)
                + "".join(f"#print axioms {t_}\n" for t_ in theorems)
            )
            with lake_lock():
                rc2, out2, err2 = run_cmd(["lake", "env", "lean", str(aud)], cwd=LEAN, timeout=1800)
            txt = out2 + err2
            for t_ in theorems:
                m = re.search(r"'" + re.escape(t_) + r"' depends on axioms: \[([^\]]*)\]", txt)
                if m:
                    axioms[t_] = [a.strip() for a in m.group(1).replace("\n", " ").split(",") if a.strip()]
                elif re.search(r"'" + re.escape(t_) + r"' does not depend on any axioms", txt):
                    axioms[t_] = []
                else:
                    axioms[t_] = None
            if rc2 != 0 and not any(v is not None for v in axioms.values()):
                self.lean_log += "\nAUDIT: " + txt[-3000:]
        for t_ in theorems:
            ax = axioms.get(t_)
            if not self.lean_ok:
                st = "build-failed"
            elif ax is None:
                st = "missing"
            elif set(ax) - ALLOWED_AXIOMS:
                st = "bad-axioms"
            elif bad:
                st = "forbidden-construct"
            else:
                st = "ok"
            self.obligations.append({"name": t_, "status": st, "axioms": ax})
        self.extra["forbidden_hits"] = bad
        self.extra["lean_build_s"] = round(time.time() - t, 1)
        nd = sum(o["status"] == "ok" for o in self.obligations)
        self.log(f"lean: build={'ok' if self.lean_ok else 'FAILED'} obligations={len(self.obligations)} discharged={nd} ({self.extra['lean_build_s']}s)")
        if self.thorough and self.lean_ok and os.environ.get("VERIF_NO_LEANCHECKER") != "1":
            with lake_lock():
                rc3, out3, err3 = run_cmd(["lake", "env", "leanchecker", *modules], cwd=LEAN, timeout=5400)
            self.extra["leanchecker"] = "ok" if rc3 == 0 else ("failed: " + (out3 + err3)[-500:])
            self.log("leanchecker:", self.extra["leanchecker"][:80])
            if rc3 != 0:
                for o in self.obligations:
                    if o["status"] == "ok":
                        o["status"] = "leanchecker-failed"
        return self.lean_ok

    def broken_obligations(self):
        return [o for o in self.obligations if o["status"] != "ok"]

    def lean_driver(self, driver: str, lines, build=None, timeout=1800):
        """Run lean/Drivers/<driver>.lean over `lines`; returns the reply lines (same count)."""
        lines = list(lines)
        if not lines:
            return []
        drv = LEAN / "Drivers" / f"{driver}.lean"
        deps = []
        for line in drv.read_text().splitlines():
            mm = re.match(r"\s*import\s+(OpacusLean\.[\w.]+)", line)
            if mm:
                deps.append(mm.group(1))
        key = "driver_built_" + driver
        if key not in self.extra:
            with lake_lock():
                rc, out, err = run_cmd(["lake", "build", *deps], cwd=LEAN, timeout=3600)
            if rc != 0:
                raise InfraError(f"driver {driver}: model modules do not build:\n{(out+err)[-3000:]}")
            self.extra[key] = True
        rc, out, err = run_cmd(["lake", "env", "lean", "--run", str(drv)], cwd=LEAN, inp="\n".join(lines) + "\n", timeout=timeout)
        if rc != 0:
            raise InfraError(f"driver {driver} failed rc={rc}: {(out+err)[-2000:]}")
        res = out.split("\n")
        if res and res[-1] == "":
            res.pop()
        if len(res) != len(lines):
            raise InfraError(f"driver {driver}: {len(lines)} requests, {len(res)} replies; stderr={err[-1000:]}")
        return res

    # ------------------------------------------------------------- bookkeeping
    def case(self, key, nontrivial: bool = True, sample=None, kind: str | None = None):
        self.evaluations += 1
        if nontrivial:
            self.nontrivial.add(key if isinstance(key, (str, int, tuple)) else json.dumps(key, sort_keys=True, default=str))
        if kind:
            self.hist[kind] += 1
        if sample is not None and len(self.samples) < 6:
            self.samples.append(sample)

    def count(self, kind: str, k: int = 1):
        self.hist[kind] += k

    def validated(self, k: int = 1):
        self.traces_validated += k

    # ------------------------------------------------------------- verdicts
    def _write_replay(self, tag: str, obj: dict) -> str:
        h = hashlib.sha1(json.dumps(obj, sort_keys=True, default=str).encode()).hexdigest()[:10]
        p = REPLAYS / f"{self.pid}-{tag}-{h}.json"
        obj = dict(obj)
        obj.update(property=self.pid, seed=self.seed, tier=self.tier)
        p.write_text(json.dumps(obj, indent=1, default=str))
        return str(p.relative_to(ROOT))

    def violation(self, tag: str, replay: dict, no_failing_input: bool = False):
        path = self._write_replay(tag, replay)
        tail = " no-failing-input-found" if no_failing_input else ""
        line = f"VIOLATION property={self.pid} replay={path}{tail}"
        # a violation with a failing input is always printed (they are one per distinct failure key); lines that only say
        # "this correspondence case no longer agrees" are capped
        if not no_failing_input or sum(v.endswith("no-failing-input-found") for v in self.violations) < 20:
            print(line, flush=True)
        self.violations.append(line)

    def property_failure(self, key: str, what: str, replay: dict):
        """The property fails on the real implementation at a concrete input."""
        for f in self.findings:
            if f.get("status") == "known" and f.get("key") == key:
                if key not in self.known_printed:
                    print(f"KNOWN-FINDING: property={self.pid} {f.get('what', what)} [{key}]", flush=True)
                    self.known_printed.append(key)
                return "known"
        if key in self.extra.setdefault("violation_keys", {}):
            self.extra["violation_keys"][key] += 1   # one VIOLATION line per distinct failure key
            return "violation"
        self.extra["violation_keys"][key] = 1
        rp = dict(replay)
        rp.update(kind="property-failure", key=key, what=what)
        self.violation(re.sub(r"[^A-Za-z0-9_.=-]+", "_", key)[:60], rp)
        return "violation"

    def mismatch(self, component: str, case, impl, model, oracle=None, note: str = ""):
        """Model and implementation disagree on `case`.  `oracle(case)` evaluates the property
        itself on the real code and returns None (holds) or (key, what, replay-dict)."""
        self.hist["mismatch:" + component] += 1
        res = None
        if oracle is not None:
            try:
                res = oracle(case)
            except Exception as e:  # the oracle crashing on the implementation is itself information
                res = (f"{self.pid}:oracle-crash:{component}", f"oracle raised {type(e).__name__}: {e}", {"trace": traceback.format_exc()[-1500:]})
        base = {"kind": "correspondence-break", "component": component, "case": case, "implementation": impl, "model": model, "note": note}
        if res is not None:
            key, what, rp = res
            base["failing_input"] = case
            base.update(rp or {})
            return self.property_failure(key, what, base)
        base["unchecked"] = f"correspondence {component} (model vs /repo) no longer agrees; property oracle found no failing input at or around this case"
        self.violation("corr-" + component, base, no_failing_input=True)
        return "violation"

    def expect_known(self, key: str):
        """A finding listed as known that the run did not reproduce (e.g. the defect was repaired
        in the tree): report as a note, never as an alarm."""
        self.notes.append(f"known finding {key} not reproduced on this tree")

    # ------------------------------------------------------------- finish
    def finish(self):
        broken = self.broken_obligations()
        if broken and not self.violations:
            self.violation(
                "obligation",
                {
                    "kind": "proof-obligation-broken",
                    "unchecked": [o["name"] + ": " + o["status"] for o in broken],
                    "lean_log": self.lean_log[-3000:],
                    "forbidden_hits": self.extra.get("forbidden_hits"),
                },
                no_failing_input=True,
            )
        for f in self.findings:
            if f.get("status") == "known" and f.get("key") not in self.known_printed and f.get("primary", self.pid) == self.pid:
                self.expect_known(f["key"])
        nd = sum(o["status"] == "ok" for o in self.obligations)
        cov = {
            "obligations": len(self.obligations),
            "discharged": nd,
            "checker_cmd": f"cd lean && lake build {' '.join(self.mod.MODULES)} && lake env lean <audit: #print axioms of every obligation>"
            + (" && lake env leanchecker …" if self.thorough else ""),
            "trusted_base": GLOBAL_TRUSTED + list(getattr(self.mod, "TRUSTED", [])),
            "theorems": [{"name": o["name"], "status": o["status"], "axioms": o["axioms"]} for o in self.obligations],
            "evaluations": self.evaluations,
            "distinct_nontrivial": len(self.nontrivial),
            "rule": getattr(self.mod, "RULE", "see module docstring"),
            "samples": self.samples[:6] or ["(no generated cases in this run)"],
            "traces_validated_against_impl": self.traces_validated,
            "input_distribution": dict(self.hist),
            "known_findings_printed": self.known_printed,
            "variant": self.variant,
            "notes": self.notes,
        }
        cov.update({k: v for k, v in self.extra.items() if not k.startswith("driver_built_")})
        ev = {
            "property_id": self.pid,
            "tier": self.tier,
            "seed": self.seed,
            "level": "proof",
            "coverage": cov,
            "assumptions": GLOBAL_TRUSTED + list(getattr(self.mod, "TRUSTED", [])) + list(getattr(self.mod, "PARTIAL", [])),
            "wall_s": round(time.time() - self.t0, 2),
            "violations": len(self.violations),
        }
        (EVID / f"{self.pid}.json").write_text(json.dumps(ev, indent=1, default=str))
        self.log(
            f"done tier={self.tier} seed={self.seed} obligations={len(self.obligations)} discharged={nd} "
            f"evaluations={self.evaluations} nontrivial={len(self.nontrivial)} validated={self.traces_validated} "
            f"known={len(self.known_printed)} violations={len(self.violations)} wall={ev['wall_s']}s"
        )
        return 1 if self.violations else 0
