"""A small Python-`ast` → Lean 4 translator for straight-line real arithmetic.

Used to re-generate, on every run, Lean definitions over ℝ from pure numeric functions of the code under
test (accountants/analysis/gdp.py, optimizers/adaclipoptimizer.py); the property files then prove the
generated definitions equal to the hand-written model the theorems are about (`generated_*_eq_model`).

Supported subset (anything else raises Untranslatable and the run reports a broken tie):
  statements   name = e | self.attr = e | self.attr op= e | if c: … elif c: … else: … (assignments only) | return e
               | assert … (skipped) | docstrings
  expressions  names / self.attr (mapped through `env`), int / float literals, + - * / unary -, e ** k for a
               literal exponent k in {2, -2, 0.5, -0.5, -1} (also written -1/2, 1/2), calls listed in CALLS,
               comparisons < <= > >= in conditions; with ty="ℕ": + * // % on non-negative ints
The emitted definition is a chain of `let`s ending in the returned expression (or, for a method that
updates `self.<result>`, in that attribute's final value).
"""
from __future__ import annotations

import ast


class Untranslatable(Exception):
    pass


# python callee (dotted) -> lean function; `phi` is a parameter of the generated definition
CALLS = {
    "np.sqrt": "Real.sqrt", "math.sqrt": "Real.sqrt", "torch.sqrt": "Real.sqrt",
    "np.exp": "Real.exp", "math.exp": "Real.exp", "torch.exp": "Real.exp",
    "np.log": "Real.log", "math.log": "Real.log", "torch.log": "Real.log",
    "norm.cdf": "phi",
}


def dotted(n):
    out = []
    while isinstance(n, ast.Attribute):
        out.append(n.attr)
        n = n.value
    if isinstance(n, ast.Name):
        out.append(n.id)
        return ".".join(reversed(out))
    raise Untranslatable("callee/attribute: " + ast.dump(n)[:80])


def const_value(n):
    """literal numeric value of an exponent such as -2, 0.5, (-1 / 2)"""
    try:
        v = eval(compile(ast.Expression(n), "<exp>", "eval"), {"__builtins__": {}}, {})  # literals and arithmetic only
    except Exception as e:  # noqa: BLE001
        raise Untranslatable("non-literal exponent: " + ast.dump(n)[:80]) from e
    if not isinstance(v, (int, float)):
        raise Untranslatable("non-numeric exponent")
    return float(v)


class Fn:
    def __init__(self, env, calls=None, user_fns=None, ty="ℝ"):
        self.ty = ty                    # "ℝ" (real arithmetic) or "ℕ" (non-negative Python ints: // and % allowed, no - or /)
        self.env = dict(env)            # python name / "self.attr" -> lean identifier
        self.calls = dict(CALLS, **(calls or {}))
        self.user = dict(user_fns or {})   # python function name -> (lean name, [keyword order])

    def name(self, n):
        key = dotted(n)
        if key in self.env:
            return self.env[key]
        raise Untranslatable("unknown name " + key)

    def expr(self, n):
        if isinstance(n, ast.Constant) and isinstance(n.value, (int, float)) and not isinstance(n.value, bool):
            v = n.value
            if isinstance(v, int):
                if self.ty in ("ℕ", "Nat") and v < 0:
                    raise Untranslatable("negative literal in natural-number arithmetic")
                return f"({v} : {self.ty})"
            if self.ty != "ℝ":
                raise Untranslatable("float literal in integer arithmetic")
            r = repr(v)
            if "e" in r or "inf" in r or "nan" in r:
                raise Untranslatable("float literal " + r)
            return f"({r} : ℝ)"
        if isinstance(n, (ast.Name, ast.Attribute)):
            return self.name(n)
        if isinstance(n, ast.UnaryOp) and isinstance(n.op, ast.USub):
            return f"(-{self.expr(n.operand)})"
        if isinstance(n, ast.BinOp):
            if isinstance(n.op, ast.Pow):
                k = const_value(n.right)
                b = self.expr(n.left)
                table = {2.0: f"({b} ^ 2)", -2.0: f"(({b} ^ 2)⁻¹)", 0.5: f"(Real.sqrt {b})", -0.5: f"((Real.sqrt {b})⁻¹)", -1.0: f"(({b})⁻¹)"}
                if k not in table:
                    raise Untranslatable(f"exponent {k}")
                return table[k]
            ops = {ast.Add: "+", ast.Sub: "-", ast.Mult: "*", ast.Div: "/"} if self.ty == "ℝ" else {ast.Add: "+", ast.Mult: "*", ast.FloorDiv: "/", ast.Mod: "%"}
            for t, s in ops.items():
                if isinstance(n.op, t):
                    return f"({self.expr(n.left)} {s} {self.expr(n.right)})"
            raise Untranslatable("operator " + type(n.op).__name__)
        if isinstance(n, ast.Call):
            callee = dotted(n.func)
            if callee in self.calls and len(n.args) == 1 and not n.keywords:
                return f"({self.calls[callee]} {self.expr(n.args[0])})"
            if callee in self.user and not n.args:
                lean, order = self.user[callee]
                kw = {k.arg: k.value for k in n.keywords}
                if set(kw) != set(order):
                    raise Untranslatable(f"call {callee} with keywords {sorted(kw)}")
                return "(" + lean + " " + " ".join(self.expr(kw[k]) for k in order) + ")"
            raise Untranslatable("call " + callee)
        raise Untranslatable("expression " + ast.dump(n)[:100])

    def cond(self, n):
        if isinstance(n, ast.Compare) and len(n.ops) == 1:
            ops = {ast.Lt: "<", ast.LtE: "≤", ast.Gt: ">", ast.GtE: "≥"}
            for t, s in ops.items():
                if isinstance(n.ops[0], t):
                    return f"{self.expr(n.left)} {s} {self.expr(n.comparators[0])}"
        raise Untranslatable("condition " + ast.dump(n)[:100])

    # ------------------------------------------------------------------ statements
    def target(self, t):
        key = dotted(t)
        if key not in self.env:
            if isinstance(t, ast.Name):
                self.env[key] = key.rstrip("_") + "_v"       # a new local
            else:
                raise Untranslatable("assignment to " + key)
        return self.env[key]

    def block(self, stmts, result):
        """returns a Lean expression computing `result` (a lean identifier, or None = the returned value)"""
        stmts = [s for s in stmts if not (isinstance(s, ast.Expr) and isinstance(s.value, ast.Constant)) and not isinstance(s, (ast.Assert, ast.Pass))]
        if not stmts:
            if result is None:
                raise Untranslatable("function falls off its end")
            return result
        s, rest = stmts[0], stmts[1:]
        if isinstance(s, ast.Return):
            if result is not None:
                raise Untranslatable("return in a state-updating method")
            return self.expr(s.value)
        if isinstance(s, ast.Assign) and len(s.targets) == 1:
            e = self.expr(s.value)
            v = self.target(s.targets[0])
            return f"let {v} := {e}\n  {self.block(rest, result)}"
        if isinstance(s, ast.AugAssign):
            v = self.target(s.target)
            op = {ast.Mult: "*", ast.Add: "+", ast.Sub: "-", ast.Div: "/"}.get(type(s.op))
            if op is None:
                raise Untranslatable("augmented operator")
            return f"let {v} := {v} {op} {self.expr(s.value)}\n  {self.block(rest, result)}"
        if isinstance(s, ast.If):
            # each branch continues with the rest of the function (assignments inside branches stay local to them)
            then = self.block(list(s.body) + rest, result)
            els = self.block(list(s.orelse) + rest, result)
            return f"if {self.cond(s.test)} then\n  ({then})\n  else\n  ({els})"
        raise Untranslatable("statement " + ast.dump(s)[:120])


def _writes(stmt):
    out = set()
    for n in ast.walk(stmt):
        if isinstance(n, ast.Assign):
            out |= {ast.unparse(t) for t in n.targets}
        elif isinstance(n, ast.AugAssign):
            out.add(ast.unparse(n.target))
    return out


def _reads(stmt):
    out = set()
    for n in ast.walk(stmt):
        if isinstance(n, ast.Name):
            out.add(n.id)
        elif isinstance(n, ast.Attribute):
            try:
                out.add(dotted(n))
            except Untranslatable:
                pass
    return out


def backward_slice(stmts, target, inputs=()):
    """the top-level statements of a function body that (transitively) feed the last assignment to `target`
    (source text, e.g. "self.num_samples"), in source order – so that a value built in a local and assigned once
    translates like a value built in place"""
    idx = [i for i, s in enumerate(stmts) if target in _writes(s)]
    if not idx:
        raise Untranslatable(f"no assignment to {target}")
    keep, need = set(), {target}
    for i in range(idx[-1], -1, -1):
        if _writes(stmts[i]) & need:
            keep.add(i)
            need |= _reads(stmts[i]) - set(inputs) - {"self"}     # `inputs` are parameters of the generated definition
    return [stmts[i] for i in sorted(keep)]


def find_function(tree, name, cls=None):
    body = tree.body
    if cls is not None:
        cs = [c for c in body if isinstance(c, ast.ClassDef) and c.name == cls]
        if not cs:
            raise Untranslatable(f"class {cls} not found")
        body = cs[0].body
    fs = [f for f in body if isinstance(f, ast.FunctionDef) and f.name == name]
    if not fs:
        raise Untranslatable(f"function {name} not found")
    return fs[0]


def emit(lean_name, params, fn_ast, env, result=None, user_fns=None, with_phi=False, doc="", ty="ℝ", stmts=None):
    f = Fn(env, user_fns=user_fns, ty=ty)
    body = f.block(fn_ast.body if stmts is None else stmts, result)
    ps = (["(phi : ℝ → ℝ)"] if with_phi else []) + [f"({p} : {ty})" for p in params]
    return (f"/-- {doc} -/\n" if doc else "") + ("noncomputable " if ty == "ℝ" else "") + f"def {lean_name} " + " ".join(ps) + f" : {ty} :=\n  " + body + "\n"
