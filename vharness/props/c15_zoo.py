"""C15 helpers: the layer zoo, random module trees, introspection of real `nn.Module` trees into the
driver's tree syntax, an interpreter that runs any zoo tree on a (B, C, L) batch, and the
sample-independence probe (perturb one row, look at the others and at the buffers)."""
from __future__ import annotations

import copy

import torch
import torch.nn as nn

KNOWN = {
    "BatchNorm1d", "BatchNorm2d", "BatchNorm3d", "SyncBatchNorm", "InstanceNorm1d", "InstanceNorm2d",
    "InstanceNorm3d", "LSTM", "MultiheadAttention", "GroupNorm", "LayerNorm", "Linear",
    "NonDynamicallyQuantizableLinear", "Conv1d", "Conv2d", "Conv3d", "Sequential", "ModuleList",
    "ModuleDict", "Box", "DPLSTM", "DPLSTMCell", "RNNLinear", "DPMultiheadAttention", "SequenceBias", "Dropout",
}
BN = ("BatchNorm1d", "BatchNorm2d", "BatchNorm3d", "SyncBatchNorm")
IN = ("InstanceNorm1d", "InstanceNorm2d", "InstanceNorm3d")
CONTAINERS = ("Sequential", "ModuleList", "ModuleDict", "Box")


class Box(nn.Module):
    """user container that owns a parameter of its own (so it is a *trainable module* with children)"""

    def __init__(self, children, trainable=True):
        super().__init__()
        self.p = nn.Parameter(torch.zeros(1), requires_grad=trainable)
        for i, c in enumerate(children):
            self.add_module(f"c{i}", c)


def tname(m) -> str:
    n = type(m).__name__
    return n if n in KNOWN else "Other"


# --------------------------------------------------------------------------- introspection
def own_params(m):
    return [(k, p) for k, p in m._parameters.items() if p is not None]


def own_buffers(m):
    return [(k, b) for k, b in m._buffers.items() if b is not None]


def kids(m):
    return [(k, c) for k, c in m._modules.items() if c is not None]


def attrs(m):
    nf = getattr(m, "num_features", None)
    if nf is None:
        nf = getattr(m, "num_channels", 0)
    is_lstm = isinstance(m, nn.LSTM)
    return {
        "nf": int(nf or 0),
        "affine": int(bool(getattr(m, "affine", False))),
        "trs": int(bool(getattr(m, "track_running_stats", False))),
        "nl": int(m.num_layers) if is_lstm else 1,
        "bidir": int(bool(m.bidirectional)) if is_lstm else 0,
        "bias": int(bool(m.bias)) if is_lstm else 1,
        "dropout": int(m.dropout > 0) if is_lstm else 0,
        "ng": int(getattr(m, "num_groups", 0) or 0),
    }


class Numbered:
    """pre-order numbering of the objects of a module tree: module, its parameters, its buffers,
    then its children (the driver's parser numbers in the same order)"""

    def __init__(self, root):
        self.root = root
        self.num = {}          # id(object) -> number
        self.obj = {}          # number -> object
        self.nodes = []        # (path, module)
        self.tokens = []
        self._walk(root, "_", "")
        self.values = {k: o.detach().clone() for k, o in self.obj.items() if isinstance(o, torch.Tensor)}

    def _add(self, o):
        k = len(self.obj)
        self.obj[k] = o
        self.num.setdefault(id(o), k)
        return k

    def _walk(self, m, name, path):
        self._add(m)
        self.nodes.append((path, m))
        a = attrs(m)
        t = self.tokens
        t += ["N", name, tname(m), str(int(m.training)), str(a["nf"]), str(a["affine"]), str(a["trs"]), str(a["nl"]),
              str(a["bidir"]), str(a["bias"]), str(a["dropout"]), str(a["ng"])]
        ps = own_params(m)
        t.append(str(len(ps)))
        for k, p in ps:
            self._add(p)
            t += [k, str(int(p.requires_grad))]
        bs = own_buffers(m)
        t.append(str(len(bs)))
        for k, b in bs:
            self._add(b)
            t.append(k)
        cs = kids(m)
        t.append(str(len(cs)))
        for k, c in cs:
            self._walk(c, k, (path + "." + k) if path else k)

    def line(self):
        return " ".join(self.tokens)

    def param_numbers(self):
        return [k for k, o in self.obj.items() if isinstance(o, nn.Parameter)]


def snapshot(m):
    """everything observable about a tree: types, modes, flags, names, identities and values"""
    out = []
    for path, mod in m.named_modules():
        out.append((path, type(mod).__name__, mod.training, id(mod), tuple(sorted(attrs(mod).items())),
                    tuple((k, id(p), p.requires_grad, p.detach().clone()) for k, p in own_params(mod)),
                    tuple((k, id(b), b.detach().clone()) for k, b in own_buffers(mod))))
    return out


def snapshot_equal(a, b):
    if len(a) != len(b):
        return False
    for x, y in zip(a, b):
        if x[:5] != y[:5] or len(x[5]) != len(y[5]) or len(x[6]) != len(y[6]):
            return False
        for p, q in zip(x[5], y[5]):
            if p[:3] != q[:3] or not torch.equal(p[3], q[3]):
                return False
        for p, q in zip(x[6], y[6]):
            if p[:2] != q[:2] or not torch.equal(p[2], q[2]):
                return False
    return True


# --------------------------------------------------------------------------- generation
def _randomize(m, gen):
    with torch.no_grad():
        for p in m.parameters():
            p.copy_(torch.randn(p.shape, generator=gen, dtype=p.dtype) * 0.5)
        for k, b in m.named_buffers():
            if b.dtype.is_floating_point:
                v = torch.randn(b.shape, generator=gen, dtype=b.dtype) * 0.5
                b.copy_(v.abs() + 0.5 if k.endswith("running_var") else v)
            else:
                b.fill_(int(torch.randint(1, 50, (1,), generator=gen)))


def leaf_spec(rng, kind, C, L):
    """spec of one zoo layer acting on (B, C, L) batches (2-d / 3-d variants get trailing unit axes)"""
    if kind in BN + IN:
        a = {"num_features": C, "affine": rng.random() < 0.6, "track_running_stats": rng.random() < (0.7 if kind in BN else 0.5)}
    elif kind == "GroupNorm":
        a = {"num_groups": rng.choice([d for d in range(1, C + 1) if C % d == 0]), "num_channels": C, "affine": rng.random() < 0.7}
    elif kind == "LayerNorm":
        a = {"normalized_shape": L, "elementwise_affine": rng.random() < 0.7}
    elif kind == "Linear":
        a = {"in_features": L, "out_features": L, "bias": rng.random() < 0.7}
    elif kind in ("Conv1d", "Conv2d", "Conv3d"):
        d = int(kind[4])
        k = rng.choice([1, 3])
        ks = [k] + [1] * (d - 1)
        a = {"in_channels": C, "out_channels": C, "kernel_size": ks, "padding": [x // 2 for x in ks], "bias": rng.random() < 0.7}
    elif kind == "LSTM":
        bid = rng.random() < 0.4
        nl = rng.choice([1, 1, 2])
        a = {"input_size": L, "hidden_size": L // 2 if bid else L, "num_layers": nl, "bias": rng.random() < 0.75,
             "batch_first": rng.random() < 0.6, "dropout": 0.5 if (nl > 1 and rng.random() < 0.3) else 0.0, "bidirectional": bid}
    elif kind == "MultiheadAttention":
        same = rng.random() < 0.6
        a = {"embed_dim": L, "num_heads": rng.choice([h for h in (1, 2, 3) if L % h == 0]), "bias": rng.random() < 0.7,
             "add_bias_kv": rng.random() < 0.3, "add_zero_attn": rng.random() < 0.2, "kdim": None if same else L - 1,
             "vdim": None if same else L - 2, "batch_first": rng.random() < 0.6}
    else:
        raise ValueError(kind)
    return {"k": kind, "a": a}


LEAF_KINDS = list(BN) + list(IN) + ["GroupNorm", "LayerNorm", "Linear", "Conv1d", "Conv2d", "Conv3d", "LSTM", "MultiheadAttention"]
LEAF_WEIGHTS = [3, 2, 1, 1, 3, 2, 1, 2, 1, 4, 2, 1, 1, 3, 3]
DICT_NAMES = ["a", "b", "enc", "dec", "norm", "body", "head", "x1"]


def tree_spec(rng, C, L, depth, force_container=False):
    if depth == 0 or (not force_container and rng.random() < 0.45):
        return leaf_spec(rng, rng.choices(LEAF_KINDS, LEAF_WEIGHTS)[0], C, L)
    n = rng.choice([0, 1, 2, 2, 3, 3, 4])
    ch = [tree_spec(rng, C, L, depth - 1) for _ in range(n)]
    kind = rng.choice(["Sequential", "Sequential", "ModuleList", "ModuleDict", "Box"])
    sp = {"k": kind, "ch": ch}
    if kind == "ModuleDict":
        sp["names"] = rng.sample(DICT_NAMES, len(ch))
    if kind == "Box":
        sp["a"] = {"trainable": rng.random() < 0.7}
    return sp


def _decorate(rng, sp, is_root, flips):
    """frozen parameters, eval-mode children, flags flipped after construction"""
    r = rng.random()
    if r < 0.22:
        sp["frozen"] = "all"
    elif r < 0.32:
        sp["frozen"] = rng.randrange(4)
    if not is_root and rng.random() < 0.04:
        sp["eval"] = True
    if flips and sp["k"] in BN + IN and sp["a"]["track_running_stats"] and rng.random() < 0.08:
        sp["flip"] = True
    for c in sp.get("ch", []):
        _decorate(rng, c, False, flips)


def gen_spec(rng, root_leaf_p=0.15, depth=3, flips=True):
    """spec of a random zoo tree: layers, containers, frozen parts, modes, seed of the values"""
    C = rng.choice([2, 3, 4, 6, 8])
    L = rng.choice([4, 6])
    if rng.random() < root_leaf_p:
        root = leaf_spec(rng, rng.choice(["LSTM", "MultiheadAttention", "BatchNorm1d", "BatchNorm2d", "SyncBatchNorm",
                                          "InstanceNorm1d", "InstanceNorm3d", "Linear", "GroupNorm"]), C, L)
    else:
        root = tree_spec(rng, C, L, rng.choice([1, 2, 2, depth]), force_container=True)
    _decorate(rng, root, True, flips)
    return {"C": C, "L": L, "root": root, "root_eval": rng.random() < 0.08, "values": rng.randrange(1 << 30)}


def _build(sp):
    k = sp["k"]
    if k in CONTAINERS:
        ch = [_build(c) for c in sp["ch"]]
        if k == "Sequential":
            m = nn.Sequential(*ch)
        elif k == "ModuleList":
            m = nn.ModuleList(ch)
        elif k == "ModuleDict":
            m = nn.ModuleDict(dict(zip(sp["names"], ch)))
        else:
            m = Box(ch, trainable=sp["a"]["trainable"])
    else:
        a = dict(sp["a"])
        for key in ("kernel_size", "padding"):
            if key in a:
                a[key] = tuple(a[key])
        m = getattr(nn, k)(**a)
    m._c15_spec = sp
    return m


def build(spec):
    """the real module tree of a spec (deterministic)"""
    m = _build(spec["root"])
    _randomize(m, torch.Generator().manual_seed(spec["values"]))
    m.train()
    if spec.get("root_eval"):
        m.eval()
    for mod in list(m.modules()):
        sp = mod.__dict__.pop("_c15_spec", {})
        ps = [p for _, p in own_params(mod)]
        fz = sp.get("frozen")
        if fz == "all":
            for p in ps:
                p.requires_grad_(False)
        elif fz is not None and len(ps) > 1:
            ps[fz % len(ps)].requires_grad_(False)
        if sp.get("eval"):
            mod.eval()
        if sp.get("flip"):
            mod.track_running_stats = False
    return m


def gen_model(rng, **kw):
    spec = gen_spec(rng, **kw)
    return build(spec), spec


# --------------------------------------------------------------------------- running a tree
def _seq_call(m, x, rnn):
    bf = m.batch_first
    xi = x if bf else x.transpose(0, 1)
    if rnn:
        out = m(xi)[0]
    else:
        kd, vd = m.kdim, m.vdim
        out = m(xi, xi[..., :kd], xi[..., :vd])[0]
    return out if bf else out.transpose(0, 1)


def run_tree(m, x):
    """run any zoo tree on a (B, C, L) batch (containers = composition of their children in order)"""
    n = type(m).__name__
    if n in ("Sequential", "ModuleList"):
        for c in m:
            x = run_tree(c, x)
        return x
    if n == "ModuleDict":
        for c in m.values():
            x = run_tree(c, x)
        return x
    if n == "Box":
        x = x * (1.0 + m.p)
        for _, c in kids(m):
            x = run_tree(c, x)
        return x
    if n in ("BatchNorm2d", "InstanceNorm2d", "Conv2d"):
        return m(x.unsqueeze(-1)).squeeze(-1)
    if n in ("BatchNorm3d", "InstanceNorm3d", "Conv3d"):
        return m(x.unsqueeze(-1).unsqueeze(-1)).squeeze(-1).squeeze(-1)
    if n in ("LSTM", "DPLSTM"):
        return _seq_call(m, x, True)
    if n in ("MultiheadAttention", "DPMultiheadAttention"):
        return _seq_call(m, x, False)
    return m(x)


def _buffers_of(m):
    return {k: b.detach().clone() for k, b in m.named_buffers()}


def independence_probe(m, C, L, seed, B=4, runner=run_tree):
    """(couples, updates, detail): forward on a batch and on the same batch with row 0 replaced, in
    the modes the tree is in.  couples = some other row's output moved; updates = a buffer changed."""
    g = torch.Generator().manual_seed(seed)
    x = torch.randn(B, C, L, generator=g, dtype=torch.get_default_dtype())
    x2 = x.clone()
    x2[0] = torch.randn(C, L, generator=g, dtype=x.dtype) * 3 + 1
    a, b = copy.deepcopy(m), copy.deepcopy(m)
    before = _buffers_of(a)
    with torch.no_grad():
        torch.manual_seed(seed)
        ya = runner(a, x)
        torch.manual_seed(seed)
        yb = runner(b, x2)
    after = _buffers_of(a)
    moved = float((ya[1:] - yb[1:]).abs().max()) if ya.numel() else 0.0
    changed = [k for k in before if not torch.equal(before[k], after[k])]
    return moved > 1e-9, bool(changed), {"other_rows_moved_by": moved, "buffers_changed": changed}


def leaf_shape(m):
    """(C, L) on which a single zoo layer can be probed"""
    n = type(m).__name__
    if n in BN + IN:
        return m.num_features, 4
    if n == "GroupNorm":
        return m.num_channels, 4
    if n == "LayerNorm":
        return 3, m.normalized_shape[0]
    if n in ("Linear", "NonDynamicallyQuantizableLinear", "RNNLinear"):
        return 3, m.in_features
    if n in ("Conv1d", "Conv2d", "Conv3d"):
        return m.in_channels, 4
    if n in ("LSTM", "DPLSTM"):
        return 3, m.input_size
    if n in ("MultiheadAttention", "DPMultiheadAttention"):
        return 3, m.embed_dim
    return None
