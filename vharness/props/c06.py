"""C06 — the RDP accountant never under-reports: RDP >= true Renyi divergence, epsilon valid.

Obligations (Lean, unbounded, over the real-number instance of the SAME definitions the driver
executes at Float): the integer-order log-moment loop returns log of the true order-alpha moment
of the canonical pair (binomial theorem + Gaussian MGF), the q = 1 branch is the Gaussian
mechanism's RDP, histories add, the coded RDP -> (eps, delta) conversion is sound for every
measurable set (Balle et al. Thm 21, proved from Bernoulli's inequality) and so is the arg-min over
orders, plus the counterexample for the fractional-order series (finding below).

Correspondence: `Float` instance (driver C06) vs `privacy_analysis._log_add/_log_sub`,
`_compute_log_a_for_int_alpha`, `_compute_rdp` (all four special cases), `compute_rdp` on every
default alpha, `get_privacy_spent` (incl. inf / nan columns), `RDPAccountant.get_privacy_spent` on
heterogeneous histories, `compute_dp_sgd_privacy`, and `RDPAccountant.step` (exact).  Fractional
orders: the series is transcribed too; `scipy.special.log_ndtr` is evaluated by the harness at the
points the MODEL asks for (two-pass protocol).

Search (real code only): `_compute_rdp` vs adaptive quadrature of the true moment (integer and
fractional alpha); reported epsilon vs an independent privacy-loss-distribution lower bound.
"""
from __future__ import annotations

import math

import numpy as np

from .. import core
from ..core import f2h, h2f
from . import c06_lib as L

PID = "C06"
MODULES = ["OpacusLean.Props.C06"]
THEOREMS = [
    "Opacus.C06.sgm_moment_int",
    "Opacus.C06.ratio_is_density",
    "Opacus.C06.log_a_int_correct",
    "Opacus.C06.compute_rdp_eq_renyi",
    "Opacus.C06.rdp_q_one",
    "Opacus.C06.rdp_compose_add",
    "Opacus.C06.rdp_to_dp_sound",
    "Opacus.C06.min_over_orders_sound",
    "Opacus.C06.eps_valid_for_history",
    "Opacus.C06.frac_series_early_stop_counterexample",
    # the tie to the source: Generated/RdpIntLoop.lean is re-translated from accountants/analysis/rdp.py on every run
    "Opacus.C06.generated_int_loop_eq_model",
    "Opacus.C06.log_a_int_correct_generated",
]
RULE = (
    "case kinds: (q, sigma, alpha) triples with q log-uniform in [1e-5,1), sigma log-uniform in [0.3,20], alpha from DEFAULT_ALPHAS or "
    "user-supplied (integers to 256, fractional in (1,64)); special-case triples (q in {0,1}, sigma=0, alpha=inf); log-space add/sub pairs; "
    "get_privacy_spent vectors with inf/nan entries; heterogeneous histories (1-5 runs) x order lists; CLI argument tuples; step() sequences. "
    "Tolerances: exact for history RLE and step counts; rel 1e-9 elsewhere; fractional orders |Δ log A| <= 1e-9|log A| + 1e-11 "
    "(the series accumulates O(1) log-space values, so log A near 0 is only absolutely accurate in the code itself). "
    "non-trivial iff the general branch 0<q<1, sigma>0, finite alpha is exercised with log A > 1e-6 (triples), the vector has >= 2 finite "
    "components (conversion), the history has >= 2 distinct runs (accountant); distinct by the rounded parameter tuple"
)
TRUSTED = [
    "the translator vharness/props/c06_trans.py (Python `ast` -> the model's scalar interface; the loop `for i in range(alpha + 1)` becomes a fold; anything outside its subset is reported as a broken tie) is trusted to render the loop of _compute_log_a_for_int_alpha faithfully; _log_add and everything else in rdp.py is tied by the behavioural correspondence only",
    "scipy.special.binom / log_ndtr, math.log1p / expm1 compute the real functions they name (the Float driver uses Kahan's log1p/expm1)",
    "Mironov-Talwar-Zhang 2019: the RDP of the Poisson-subsampled Gaussian mechanism over all neighbouring datasets is attained on the canonical pair N(0,s^2) vs (1-q)N(0,s^2)+qN(1,s^2) and A_alpha >= B_alpha (cited, not proved)",
    "composition: proved for the NON-adaptive product of the canonical pairs of the recorded steps (product measure, Fubini: eps_valid_for_history); adaptive composition of RDP guarantees (Mironov 2017 Prop. 1) and the add-direction D_alpha(Q||P) <= D_alpha(P||Q) are cited",
    "quadrature oracle: scipy.integrate.quad (cross-checked with mpmath at 40 digits in the thorough tier); PLD lower-bound oracle: own lattice + numpy FFT",
]
PARTIAL = [
    "fractional orders (99 of the 151 default alphas): the two-sided erfc series is transcribed and checked by correspondence (log_ndtr supplied by the harness as an oracle column) and by quadrature search only; it is NOT proved to converge to A_alpha, and on the unchanged tree it does not (finding C06:frac-series-stops-at-first-term, Lean counterexample over the reals)",
    "float rounding, the OverflowError branch of _log_sub and the -30 truncation of the series are not modelled",
    "orders <= 1 are outside the model's domain (the code raises ZeroDivisionError at alpha = 1)",
]
LEVEL_TEXT = (
    "theorem: integer-order RDP of the transcribed loop equals the true Renyi divergence of the canonical pair; conversion and arg-min sound for "
    "all measurable sets; correspondence: Float instance of the same definitions vs the real functions; partial: fractional orders (correspondence + quadrature only)"
)

FRAC_WITNESS = {"q": 0.5, "sigma": 20.0, "alpha": 50.5}
K_FRAC = "C06:frac-series-stops-at-first-term"


# --------------------------------------------------------------------------- generators
def gen_q(rng):
    return min(10 ** rng.uniform(-5, 0), 0.999)


def gen_sigma(rng):
    return 10 ** rng.uniform(-0.5, 1.3)


def near_int_order(rng):
    """orders a few ulps / 1e-12 away from an integer (running sums like 0.1*50, linspace grids):
    `float.is_integer()` is false for them, so they must take the fractional-order path"""
    k = float(rng.randint(3, 64))
    r = rng.random()
    if r < 0.45:
        return math.nextafter(k, 0.0)
    if r < 0.6:
        return k - rng.choice([1e-15, 1e-13, 1e-12, 1e-10]) * k
    if r < 0.8:
        return math.nextafter(k, math.inf)
    return k + rng.choice([1e-13, 1e-12, 1e-10]) * k


def gen_alpha(rng, alphas):
    r = rng.random()
    if r < 0.07:
        return near_int_order(rng)
    if r < 0.6:
        return float(rng.choice(alphas))
    if r < 0.75:
        return float(rng.choice([2, 3, 5, 8, 64, 65, 100, 128, 200, 256]))
    if r < 0.9:
        return round(rng.uniform(1.01, 64), rng.choice([1, 2, 3]))
    return rng.uniform(1.05, 12)


def rnd(x, k=6):
    return float(f"{x:.{k}g}")


def gen_triple(rng, alphas):
    r = rng.random()
    if r < 0.12:  # special branches
        q = rng.choice([0.0, 1.0, 1.0, gen_q(rng)])
        s = rng.choice([0.0, gen_sigma(rng), gen_sigma(rng)])
        a = rng.choice([math.inf, float(rng.choice(alphas)), 2.5, 7.0])
        return (q, rnd(s), a)
    return (rnd(gen_q(rng)), rnd(gen_sigma(rng)), gen_alpha(rng, alphas))


def gen_orders(rng, alphas, small=True):
    if not small:
        return list(alphas)
    k = rng.randint(2, 14)
    out = []
    for _ in range(k):
        r = rng.random()
        if r < 0.08:
            out.append(near_int_order(rng))
        elif r < 0.55:
            out.append(float(rng.randint(2, 80)))
        elif r < 0.9:
            out.append(float(rng.choice(alphas[:99])) if rng.random() < 0.7 else round(rng.uniform(1.2, 40), 2))
        else:
            out.append(math.inf)
    if all(math.isinf(a) for a in out):
        out.append(8.0)
    return out


def gen_history(rng, maxq=1.0, runs=None):
    k = runs or rng.randint(1, 5)
    h = []
    for _ in range(k):
        q = min(rnd(gen_q(rng), 4), maxq)
        if rng.random() < 0.08:
            q = 1.0 if maxq >= 1 else maxq
        if h and rng.random() < 0.3:
            # a setting that RECURS later in the history (A, B, A: cyclic schedules, fine-tuning and back);
            # step() only merges adjacent runs, so the recurrence is a separate history entry
            s0, q0, _ = rng.choice(h)
            h.append((s0, q0, rng.randint(1, 2000)))
        else:
            h.append((rnd(gen_sigma(rng), 4), q, rng.randint(1, 2000)))
    return h


# --------------------------------------------------------------------------- comparisons
def ev_close(impl, model, alpha=None, steps=1):
    """impl: python float (may be inf/nan); model: float or err string"""
    if isinstance(model, str):
        return False
    if impl != impl or model != model:
        return (impl != impl) and (model != model)
    if math.isinf(impl) or math.isinf(model):
        return impl == model
    if alpha is not None and not L.is_int_order(alpha) and not math.isinf(alpha):
        # fractional order: compare on the log A scale with the absolute slack of the series
        sc = (alpha - 1) / max(steps, 1)
        return abs(impl - model) * sc <= 1e-9 * abs(impl) * sc + 1e-11
    # integer orders: log A is obtained by cancellation from intermediates of size ~alpha*q + (k^2-k)/(2 sigma^2);
    # for tiny q the RDP itself is ~1e-12 and inherits their absolute rounding noise (not a semantic difference)
    return core.close(impl, model, 1e-9, 1e-15 * max(steps, 1))


def frac_triples(history_or_pairs, orders):
    out = []
    for s, q in history_or_pairs:
        for a in orders:
            if not math.isinf(a) and not L.is_int_order(a) and a > 1:
                out.append((float(q), float(s), float(a)))
    return out


# --------------------------------------------------------------------------- property oracles (real code only)
def frac_series_without_early_stop(q, sigma, alpha, max_terms=4000):
    """the two-sided series of `_compute_log_a_for_frac_alpha`, term by term with the implementation's own
    `_log_add / _log_sub / _log_erfc`, but testing `max(log_s0, log_s1) < -30` only once i > alpha.
    Used ONLY to classify an under-report as the known early-stop defect."""
    from scipy import special

    from opacus.accountants.analysis import rdp as R

    try:
        a0 = a1 = -math.inf
        z0 = sigma ** 2 * math.log(1 / q - 1) + 0.5
        for i in range(max_terms):
            coef = special.binom(alpha, i)
            lc = math.log(abs(coef))
            j = alpha - i
            t0 = lc + i * math.log(q) + j * math.log(1 - q)
            t1 = lc + j * math.log(q) + i * math.log(1 - q)
            e0 = math.log(0.5) + R._log_erfc((i - z0) / (math.sqrt(2) * sigma))
            e1 = math.log(0.5) + R._log_erfc((z0 - j) / (math.sqrt(2) * sigma))
            s0 = t0 + (i * i - i) / (2 * sigma ** 2) + e0
            s1 = t1 + (j * j - j) / (2 * sigma ** 2) + e1
            if coef > 0:
                a0, a1 = R._log_add(a0, s0), R._log_add(a1, s1)
            else:
                a0, a1 = R._log_sub(a0, s0), R._log_sub(a1, s1)
            if i + 1 > alpha and max(s0, s1) < -30:
                return R._log_add(a0, a1)
    except Exception:
        return None
    return None


def triple_oracle(case):
    q, s, a = case["q"], case["sigma"], case["alpha"]
    res = L.quad_oracle(q, s, a)
    if res and res[0].startswith("C06:rdp-below-true:frac") and 1 <= L.impl_frac_terms(q, s, a) <= a:
        # Signature of the known defect, exactly: the loop's `max(log_s0, log_s1) < -30` test fired while the
        # binomial weights were still rising (they peak in the interior, i ≈ q·alpha, for large q·sigma) – i.e. the
        # SAME series, continued until the last positive coefficient i = floor(alpha) has been passed, gives the
        # true value.  Anything else that is below the true divergence is a different failure.
        cont = frac_series_without_early_stop(q, s, a)
        la, _ = L.true_log_a(q, s, a)
        if cont is not None and abs(cont - la) <= 1e-6 * abs(la) + 1e-10:
            return (K_FRAC, res[1] + f" — the series loop stopped after {L.impl_frac_terms(q, s, a)} term(s), before the binomial weights' peak", res[2])
    return res


def history_oracle(case):
    """eps validity of the real accountant on the case's history, then RDP correctness of every
    (run, order) pair in it"""
    h, d, al = case["history"], case["delta"], case.get("alphas")
    orders = al if al is not None else L.default_alphas()
    for s, q, _ in h:
        for a in orders:
            r = triple_oracle({"q": q, "sigma": s, "alpha": a})
            if r:
                return r
    return L.eps_oracle(h, d, alphas=al)


def conversion_oracle(case=None, deltas=(1e-8, 1e-5, 1e-3, 0.1), sigmas=(0.5, 1.0, 3.0, 10.0)):
    """`get_privacy_spent` fed the exactly known RDP curve alpha/(2 s^2) of the Gaussian mechanism
    must not return less than that mechanism's exact epsilon(delta)."""
    from opacus.accountants.analysis import rdp as R
    from scipy.optimize import brentq
    from scipy.stats import norm

    orders = np.array(L.default_alphas() + [80.0, 128.0, 256.0, 512.0])
    # the order grid is the caller's: ascending (the default), descending, and integer orders followed by fractional ones
    grids = [orders, orders[::-1].copy(), np.array([o for o in orders if float(o).is_integer()] + [o for o in orders if not float(o).is_integer()])]
    for orders in grids:
      for s in sigmas:
        for d in deltas:
              mu = 1.0 / s
              f = lambda e: norm.cdf(-e / mu + mu / 2) - math.exp(e + norm.logcdf(-e / mu - mu / 2)) - d  # noqa
              true = brentq(f, -40, 2000)   # epsilon may be negative for large delta
              try:
                  eps, _ = R.get_privacy_spent(orders=orders, rdp=orders / (2 * s * s), delta=d)
              except Exception as e:
                  return ("C06:get-privacy-spent-raises", f"get_privacy_spent raises {type(e).__name__}: {e}", {"sigma": s, "delta": d})
              if not (eps >= true - 1e-9):
                  return ("C06:conversion-below-true",
                          f"get_privacy_spent on the exact Gaussian RDP curve (sigma={s}, delta={d}) returns {eps}, below the exact epsilon {true}",
                          {"sigma": s, "delta": d, "observed": float(eps), "true": true})
    return None


# --------------------------------------------------------------------------- correspondence components
def corr_logspace(ctx):
    from opacus.accountants.analysis import rdp as R

    rng = ctx.rng
    b = L.Batch(ctx)
    cases = []
    for _ in range(ctx.n(60, 600)):
        x = rng.choice([-math.inf, rng.uniform(-50, 50), rng.uniform(-1e-3, 1e-3), rng.uniform(-800, -600)])
        y = rng.choice([-math.inf, x, x + rng.uniform(-1e-6, 1e-6), rng.uniform(-50, 50), x - rng.uniform(0, 40)])
        op = rng.choice(["logadd", "logsub"])
        cases.append((op, x, y, b.add(f"{op} {L.lstok(x)} {L.lstok(y)}")))
    rep = b.run()
    for op, x, y, i in cases:
        impl = L.call(R._log_add if op == "logadd" else R._log_sub, x, y)
        model = L.lsval(rep[i])
        ctx.case((op, x, y), nontrivial=(x != -math.inf and y != -math.inf and x != y), kind="logspace:" + op)
        if isinstance(impl, L.Exc):
            ok = isinstance(model, str) and model == "err:log-sub-negative" and impl.type == "ValueError"
        else:
            ok = (not isinstance(model, str)) and (impl == model or core.close(impl, model, 1e-9, 1e-15))
        if ok:
            ctx.validated()
        else:
            ctx.mismatch("log-space-arithmetic", {"op": op, "x": x, "y": y}, impl, rep[i], oracle=lambda c: sweep_oracle(ctx))


def sweep_oracle(ctx, n=40):
    """property oracle used when a low-level component disagrees: random triples + conversion"""
    alphas = L.default_alphas()
    rng = ctx.rng
    for _ in range(n):
        q, s, a = gen_triple(rng, alphas)
        r = triple_oracle({"q": q, "sigma": s, "alpha": a})
        if r and not (r[0] == K_FRAC):
            r[2]["failing_input"] = {"q": q, "sigma": s, "alpha": a}
            return r
    return conversion_oracle()


def corr_triples(ctx, variant):
    from opacus.accountants.analysis import rdp as R

    alphas = L.default_alphas()
    rng = ctx.rng
    b = L.Batch(ctx, max_terms=ctx.n(2500, 20000))
    b.add(f"variant {variant}")
    cases = []
    for _ in range(ctx.n(400, 8000)):
        q, s, a = gen_triple(rng, alphas)
        i = b.add(f"rdp1 {f2h(q)} {f2h(s)} {L.otok(a)}", frac_triples([(s, q)], [a]))
        cases.append((q, s, a, i))
        if L.is_int_order(a) and 0 < q < 1 and s > 0 and rng.random() < 0.25:
            j = b.add(f"logaint {f2h(q)} {f2h(s)} {int(a)}")
            cases.append((q, s, ("logaint", int(a)), j))
    rep = b.run()
    for q, s, a, i in cases:
        if i in b.skipped:
            ctx.count("skipped:series-longer-than-table")
            continue
        if isinstance(a, tuple):
            impl = L.call(R._compute_log_a_for_int_alpha, q, s, a[1])
            model = L.lsval(rep[i])
            # log A is obtained by cancellation from intermediates of size ~1: absolute rounding noise 1e-16, as in ev_close
            ok = not isinstance(impl, L.Exc) and not isinstance(model, str) and core.close(impl, model, 1e-9, 1e-15)
            ctx.case(("logaint", q, s, a[1]), nontrivial=True, kind="log_a_int")
            case = {"q": q, "sigma": s, "alpha": float(a[1])}
        else:
            impl = L.call(R._compute_rdp, q, s, a)
            model = L.evval(rep[i])
            if isinstance(impl, L.Exc):
                ok = isinstance(model, str) and model.startswith("err:") and model != "err:oracle-exhausted"
            else:
                ok = ev_close(float(impl), model, a)
            general = 0 < q < 1 and s > 0 and not math.isinf(a)
            nontriv = general and not isinstance(impl, L.Exc) and float(impl) * (a - 1) > 1e-6
            kind = "special-branch" if not general else ("int-order" if L.is_int_order(a) else "frac-order")
            ctx.case(("rdp1", q, s, a), nontrivial=nontriv, kind="rdp1:" + kind, sample={"q": q, "sigma": s, "alpha": a})
            case = {"q": q, "sigma": s, "alpha": a}
        if ok:
            ctx.validated()
        else:
            ctx.mismatch("compute-rdp", case, impl, rep[i], oracle=triple_oracle)


def corr_public_compute_rdp(ctx, variant):
    """the public `compute_rdp(q=, noise_multiplier=, steps=, orders=)`: a list of orders AND a bare scalar order
    (which the docstring allows) must both be `_compute_rdp * steps` (driver `rdp` = `computeRdp`)"""
    from opacus.accountants.analysis import rdp as R

    alphas = L.default_alphas()
    rng = ctx.rng
    b = L.Batch(ctx, max_terms=ctx.n(2500, 20000))
    b.add(f"variant {variant}")
    cases = []
    for _ in range(ctx.n(40, 800)):
        q, s = rnd(gen_q(rng)), rnd(gen_sigma(rng))
        steps = rng.choice([1, 2, rng.randint(3, 5000)])
        scalar = rng.random() < 0.5
        orders = [gen_alpha(rng, alphas)] if scalar else [gen_alpha(rng, alphas) for _ in range(rng.randint(1, 5))]
        orders = [a for a in orders if not math.isinf(a)] or [2.0]
        container = "list"
        if not scalar and rng.random() < 0.5:
            # the grid of orders in the containers users pass: tuple, float ndarray, and – for integer grids – an integer
            # ndarray / range (np.arange(2, 64) is the textbook grid): the value per order must not depend on the container
            container = rng.choice(["tuple", "ndarray", "int-ndarray", "range"])
            if container in ("int-ndarray", "range"):
                lo = rng.randint(2, 6)
                orders = [float(a) for a in range(lo, lo + rng.randint(2, 6))]
        i = b.add(f"rdp {f2h(q)} {f2h(s)} {steps} {len(orders)} " + " ".join(L.otok(a) for a in orders), frac_triples([(s, q)], orders))
        cases.append((q, s, steps, orders, scalar, i, container))
    rep = b.run()
    for q, s, steps, orders, scalar, i, container in cases:
        if i in b.skipped:
            ctx.count("skipped:series-longer-than-table")
            continue
        impl = L.call(R.compute_rdp, q=q, noise_multiplier=s, steps=steps, orders=float(orders[0]) if scalar else in_container(orders, container))
        toks = rep[i].split()
        if isinstance(impl, L.Exc):
            ok = rep[i].startswith("err:") and rep[i] != "err:oracle-exhausted"
        else:
            vals = [float(impl)] if scalar else [float(x) for x in impl]
            model = [L.evval(t) for t in toks]
            ok = len(vals) == len(model) and all(ev_close(v, m, a, steps) for v, m, a in zip(vals, model, orders))
        ctx.case(("compute_rdp", q, s, steps, tuple(orders), scalar, container), nontrivial=steps > 1 and 0 < q < 1, kind="compute_rdp:" + ("scalar-order" if scalar else "order-" + container))
        if ok:
            ctx.validated()
        else:
            ctx.mismatch("public-compute-rdp", {"q": q, "sigma": s, "steps": steps, "orders": orders, "scalar": scalar, "container": container}, str(impl)[:300], rep[i][:300],
                         oracle=lambda c: public_rdp_oracle(c))


def in_container(orders, container):
    if container == "tuple":
        return tuple(orders)
    if container == "ndarray":
        return np.array(orders, dtype=float)
    if container == "int-ndarray":
        return np.array([int(a) for a in orders], dtype=np.int64)
    if container == "range":
        return range(int(orders[0]), int(orders[-1]) + 1)
    return list(orders)


def public_rdp_oracle(c):
    """PROPERTY on the real code: steps compose by addition – compute_rdp(steps=n) = n * compute_rdp(steps=1), per order,
    and each per-step value is the true divergence (quadrature)"""
    from opacus.accountants.analysis import rdp as R

    o = float(c["orders"][0]) if c["scalar"] else in_container(c["orders"], c.get("container", "list"))
    try:
        # the value per order is a function of the order alone: the same whatever container the grid comes in
        if not c["scalar"]:
            vals = np.atleast_1d(R.compute_rdp(q=c["q"], noise_multiplier=c["sigma"], steps=c["steps"], orders=o)).astype(float)
            for a, v in zip(c["orders"], vals):
                w = float(R._compute_rdp(c["q"], c["sigma"], float(a))) * c["steps"]
                if math.isfinite(w) and not core.close(float(v), w, 1e-9, 1e-300):
                    return ("C06:public-compute-rdp:container-dependent", f"compute_rdp(q={c['q']}, sigma={c['sigma']}, steps={c['steps']}, orders=<{c.get('container', 'list')}> {c['orders']}) "
                            f"gives {float(v)} at order {a}; steps x _compute_rdp at that order = {w}", {"failing_input": dict(c)})
    except Exception:
        pass
    try:
        one = np.atleast_1d(R.compute_rdp(q=c["q"], noise_multiplier=c["sigma"], steps=1, orders=o)).astype(float)
        many = np.atleast_1d(R.compute_rdp(q=c["q"], noise_multiplier=c["sigma"], steps=c["steps"], orders=o)).astype(float)
    except Exception:
        one = many = []          # which order makes it raise is settled per order below
    for a, x, y in zip(c["orders"], one, many):
        if math.isfinite(x) and not core.close(y, x * c["steps"], 1e-9, 1e-300):
            return ("C06:compose-by-addition", f"compute_rdp(q={c['q']}, sigma={c['sigma']}, steps={c['steps']}, orders={'scalar ' if c['scalar'] else ''}{a}) = {y}, "
                    f"but {c['steps']} x the one-step value {x} = {x * c['steps']}", {"failing_input": dict(c)})
    for a in c["orders"]:
        r = triple_oracle({"q": c["q"], "sigma": c["sigma"], "alpha": a})
        if r and r[0] != K_FRAC:
            return r
    return None


def corr_conversion(ctx):
    from opacus.accountants.analysis import rdp as R

    alphas = L.default_alphas()
    rng = ctx.rng
    b = L.Batch(ctx)
    cases = []
    for _ in range(ctx.n(80, 1500)):
        orders = gen_orders(rng, alphas)
        rdp = []
        for a in orders:
            r = rng.random()
            rdp.append(math.inf if r < 0.08 else (math.nan if r < 0.12 else rnd(10 ** rng.uniform(-4, 2))))
        if rng.random() < 0.05:
            rdp = [math.nan] * len(orders)
        d = rnd(10 ** rng.uniform(-10, -0.05))
        i = b.add(f"eps {f2h(d)} {len(orders)} " + " ".join(f"{L.otok(a)} {L.evtok(r)}" for a, r in zip(orders, rdp)))
        cases.append((orders, rdp, d, i))
    rep = b.run()
    for orders, rdp, d, i in cases:
        impl = L.call(R.get_privacy_spent, orders=orders, rdp=rdp, delta=d)
        toks = rep[i].split()
        ctx.case(("eps", tuple(orders), tuple(map(str, rdp)), d), nontrivial=sum(math.isfinite(r) for r, a in zip(rdp, orders) if not math.isinf(a)) >= 2, kind="get_privacy_spent")
        ok = False
        if not isinstance(impl, L.Exc) and len(toks) == 2:
            me, ma = L.evval(toks[0]), L.oval(toks[1])
            ie, ia = float(impl[0]), float(impl[1])
            ok = ev_close(ie, me) and (ia == ma or (ia != ia and ma != ma))
        if ok:
            ctx.validated()
        else:
            ctx.mismatch("get-privacy-spent", {"orders": orders, "rdp": rdp, "delta": d}, impl, rep[i], oracle=lambda c: conversion_oracle())


def corr_accountant(ctx, variant):
    from opacus.accountants import RDPAccountant
    from opacus.scripts.compute_dp_sgd_privacy import compute_dp_sgd_privacy

    alphas = L.default_alphas()
    rng = ctx.rng
    b = L.Batch(ctx, max_terms=ctx.n(2500, 20000))
    b.add(f"variant {variant}")
    cases = []
    n_small, n_full = ctx.n(44, 600), ctx.n(4, 40)
    for k in range(n_small + n_full):
        full = k >= n_small
        h = gen_history(rng, maxq=0.02, runs=rng.randint(1, 2)) if full else gen_history(rng)
        orders = gen_orders(rng, alphas, small=not full)
        d = rnd(10 ** rng.uniform(-9, -2))
        line = (f"acct {f2h(d)} {len(h)} " + " ".join(f"{f2h(s)} {f2h(q)} {n}" for s, q, n in h)
                + f" {len(orders)} " + " ".join(L.otok(a) for a in orders))
        i = b.add(line, frac_triples([(s, q) for s, q, _ in h], orders))
        cases.append(("acct", h, orders, d, full, i))
    for _ in range(ctx.n(30, 400)):
        q, s = rnd(gen_q(rng), 4), rnd(gen_sigma(rng), 4)
        if rng.random() < 0.1:
            q = rng.choice([1.0, 0.5, 0.25, 1.5])
        ep = rng.randint(0, 30)
        orders = gen_orders(rng, alphas)
        d = rnd(10 ** rng.uniform(-9, -2))
        i = b.add(f"script {f2h(q)} {f2h(s)} {ep} {f2h(d)} {len(orders)} " + " ".join(L.otok(a) for a in orders), frac_triples([(s, q)], orders))
        cases.append(("script", (q, s, ep), orders, d, False, i))
    rep = b.run()
    for kind, h, orders, d, full, i in cases:
        if i in b.skipped:
            ctx.count("skipped:series-longer-than-table")
            continue
        toks = rep[i].split()
        if kind == "acct":
            acc = RDPAccountant()
            acc.history = [tuple(x) for x in h]
            impl = L.call(acc.get_privacy_spent, delta=d, alphas=None if full else orders)
            case = {"history": h, "delta": d, "alphas": None if full else orders}
            ctx.case(("acct", tuple(h), tuple(orders), d), nontrivial=len(set((s, q) for s, q, _ in h)) >= 2 or full,
                     kind="accountant:" + ("default-alphas" if full else "custom-alphas"), sample=case if len(h) <= 2 and not full else None)
            orc = history_oracle
        else:
            q, s, ep = h
            impl = L.call(compute_dp_sgd_privacy, sample_rate=q, noise_multiplier=s, epochs=ep, delta=d, alphas=orders, verbose=False)
            case = {"sample_rate": q, "noise_multiplier": s, "epochs": ep, "delta": d, "alphas": orders}
            steps = ep * math.ceil(1 / q) if q > 0 else 0
            ctx.case(("script", q, s, ep, tuple(orders), d), nontrivial=0 < q < 1 and ep > 0, kind="script")
            orc = lambda c: history_oracle({"history": [(c["noise_multiplier"], c["sample_rate"], c["epochs"] * math.ceil(1 / c["sample_rate"]))], "delta": c["delta"], "alphas": c["alphas"]}) if 0 < c["sample_rate"] <= 1 else None  # noqa
            if toks and toks[0].isdigit():
                if not isinstance(impl, L.Exc) and int(toks[0]) != steps:
                    ctx.mismatch("script-steps", case, steps, toks[0], oracle=orc)
                    continue
                toks = toks[1:]
        ok = False
        if isinstance(impl, L.Exc):
            ok = len(toks) == 1 and toks[0].startswith("err:") and toks[0] != "err:oracle-exhausted"
        elif len(toks) == 2:
            me, ma = L.evval(toks[0]), L.oval(toks[1])
            ie, ia = float(impl[0]), float(impl[1])
            # eps is a min over orders of  rdp_total - const(alpha): compare with the loosest per-order slack
            tol_abs = 1e-11 * max(1, sum(n for _, _, n in h) if kind == "acct" else steps) * 10 if any(not L.is_int_order(a) and not math.isinf(a) for a in orders) else 0.0
            ok = (not isinstance(me, str)) and ((ie == me) or (ie != ie and me != me) or (math.isfinite(ie) and math.isfinite(me) and abs(ie - me) <= 1e-9 * abs(ie) + tol_abs))
            if ok and not (ia == ma or (ia != ia and ma != ma)):
                # a different arg-min is only tolerated on a numerical tie
                ok = False
        if ok:
            ctx.validated()
        else:
            ctx.mismatch("accountant" if kind == "acct" else "script", case, impl, rep[i], oracle=orc)


def corr_history(ctx):
    from opacus.accountants import RDPAccountant

    rng = ctx.rng
    b = L.Batch(ctx)
    cases = []
    for _ in range(ctx.n(40, 800)):
        pool = [(rng.choice([0.5, 1.0, 1.1, 2.0]), rng.choice([0.01, 0.02, 0.5, 1.0])) for _ in range(rng.randint(1, 3))]
        seq = []
        for _ in range(rng.randint(1, 30)):
            if not seq or rng.random() < 0.35:
                seq.append(rng.choice(pool))
            else:
                seq.append(seq[-1])
        i = b.add(f"hist {len(seq)} " + " ".join(f"{f2h(s)} {f2h(q)}" for s, q in seq))
        cases.append((seq, i))
    rep = b.run()
    for seq, i in cases:
        acc = RDPAccountant()
        for s, q in seq:
            acc.step(noise_multiplier=s, sample_rate=q)
        impl = [(float(s), float(q), int(n)) for s, q, n in acc.history]
        t = rep[i].split()
        model = [(h2f(t[1 + 3 * k]), h2f(t[2 + 3 * k]), int(t[3 + 3 * k])) for k in range(int(t[0]))] if t and t[0].isdigit() else rep[i]
        ctx.case(tuple(seq), nontrivial=len(impl) >= 2 and any(n > 1 for _, _, n in impl), kind="history-rle")
        if impl == model:
            ctx.validated()
        else:
            def orc(c):
                a, e = RDPAccountant(), RDPAccountant()
                for s, q in c["steps"]:
                    a.step(noise_multiplier=s, sample_rate=q)
                    e.history.append((s, q, 1))
                x, y = a.get_epsilon(1e-5, alphas=[2.0, 4.0, 8.0, 16.0, 32.0]), e.get_epsilon(1e-5, alphas=[2.0, 4.0, 8.0, 16.0, 32.0])
                if x < y * (1 - 1e-9):
                    return ("C06:history-loses-steps", f"after step() calls {c['steps']} the accountant reports eps={x}, the un-encoded list of the same steps gives {y}", {"observed": x, "expected": y})
                return None
            ctx.mismatch("history-rle", {"steps": seq}, impl, model, oracle=orc)


# --------------------------------------------------------------------------- run
def detect_variant(ctx):
    from opacus.accountants.analysis import rdp as R

    w = FRAC_WITNESS
    try:
        v = float(R._compute_rdp(w["q"], w["sigma"], w["alpha"]))
    except Exception:
        v = math.nan
    return ("asCoded" if (v != v or v < 0) else "repaired"), v


def regenerate(ctx):
    from .. import regen
    from . import c06_trans as T
    regen.regenerate(ctx, T, "Opacus.Generated.Rdp", "accountants/analysis/rdp.py:_compute_log_a_for_int_alpha")


def run(ctx):
    regenerate(ctx)
    variant, val = detect_variant(ctx)
    ctx.variant["frac-series-stop-rule"] = variant
    ctx.log("fractional-series variant implemented by this tree:", variant, f"(_compute_rdp at the Lean witness = {val})")
    corr_logspace(ctx)
    corr_history(ctx)
    corr_conversion(ctx)
    corr_triples(ctx, variant)
    corr_public_compute_rdp(ctx, variant)
    corr_accountant(ctx, variant)
    # replay of the Lean counterexample witness on the real code
    if variant == "asCoded":
        res = triple_oracle(FRAC_WITNESS)
        if res:
            ctx.property_failure(res[0], res[1], dict(res[2], failing_input=dict(FRAC_WITNESS)))
    # failing-input search on the real code
    search(ctx)
    for _ in range(ctx.n(12, 150)):
        ctx.count("search:reused-accountant")
        res = L.reused_accountant_oracle(ctx.rng, "rdp", delta=10 ** ctx.rng.uniform(-7, -4))
        if res:
            ctx.property_failure(res[0], res[1], res[2])


def search(ctx):
    alphas = L.default_alphas()
    rng = ctx.rng
    r = conversion_oracle()
    ctx.count("search:conversion-gaussian", 16)
    if r:
        ctx.property_failure(r[0], r[1], dict(r[2], failing_input={"kind": "conversion"}))
    if ctx.thorough:  # every default alpha on a (q, sigma) grid
        grid = [(q, s) for q in (1e-4, 1e-3, 0.01, 0.05, 0.2, 0.5, 0.9) for s in (0.4, 0.7, 1.0, 2.0, 6.0)]
        triples = [(q, s, float(a)) for q, s in grid for a in alphas]
    else:
        triples = []
    for _ in range(ctx.n(250, 4000)):
        q, s = gen_q(rng), gen_sigma(rng)
        if rng.random() < 0.2:   # the region of the known finding and around it
            q, s = rng.uniform(0.2, 0.8), 10 ** rng.uniform(0.5, 2)
        a = gen_alpha(rng, alphas) if rng.random() < 0.8 else rng.uniform(30, 120)
        triples.append((q, s, a))
    for q, s, a in triples:
        case = {"q": q, "sigma": s, "alpha": a}
        r = triple_oracle(case)
        ctx.count("search:quadrature:" + ("int" if L.is_int_order(a) else "frac"))
        if r:
            ctx.property_failure(r[0], r[1], dict(r[2], failing_input=case))
    for _ in range(ctx.n(25, 300)):
        h = gen_history(rng, runs=rng.randint(1, 3))
        h = [(s, q, min(n, 400)) for s, q, n in h]
        d = 10 ** rng.uniform(-8, -2)
        r = L.eps_oracle(h, d)
        ctx.count("search:eps-lower-bound")
        if r:
            ctx.property_failure(r[0], r[1], dict(r[2], failing_input={"history": h, "delta": d}))
    if ctx.thorough:
        worst = 0.0
        for q, s, a in [(0.01, 1.0, 2.5), (1e-3, 0.6, 10.9), (0.3, 2.0, 1.5), (0.05, 1.3, 33.0), (0.5, 20.0, 50.5)]:
            la, _ = L.true_log_a(q, s, a)
            mp = L.true_log_a_mp(q, s, a)
            worst = max(worst, abs(la - mp) / abs(mp))
        ctx.extra["quadrature_vs_mpmath_max_rel"] = worst
        if worst > 1e-9:
            raise core.InfraError(f"quadrature oracle disagrees with mpmath ({worst})")


def replay_reused(fi):
    """the recorded pair of ledgers again, with every way of replacing the ledger"""
    from opacus.accountants import create_accountant
    kw = {"eps_error": 0.01} if fi["mech"] == "prv" else {}
    for how in ("assign", "load_state_dict", "inplace"):
        acc = create_accountant(mechanism=fi["mech"])
        acc.history = [tuple(x) for x in fi["h1"]]
        acc.get_epsilon(fi["delta"], **kw)
        if how == "assign":
            acc.history = [tuple(x) for x in fi["h2"]]
        elif how == "load_state_dict":
            o = create_accountant(mechanism=fi["mech"]); o.history = [tuple(x) for x in fi["h2"]]; acc.load_state_dict(o.state_dict())
        else:
            acc.history[:] = [tuple(x) for x in fi["h2"]]
        got = float(acc.get_epsilon(fi["delta"], **kw))
        f = create_accountant(mechanism=fi["mech"]); f.history = [tuple(x) for x in fi["h2"]]
        want = float(f.get_epsilon(fi["delta"], **kw))
        if got != want:
            return (("C06" if fi["mech"] == "rdp" else "C05") + f":stale-ledger:{fi['mech']}", f"ledger replaced ({how}): reports {got}, fresh accountant {want}", {})
    return None


def replay(ctx, rp):
    fi = rp.get("failing_input") or rp.get("case") or {}
    res = None
    if "history" in fi:
        res = history_oracle({"history": [tuple(x) for x in fi["history"]], "delta": fi["delta"], "alphas": fi.get("alphas", rp.get("alphas"))})
    elif fi.get("oracle") == "reused-accountant":
        res = replay_reused(fi)
    elif "q" in fi and "orders" in fi and "steps" in fi:
        res = public_rdp_oracle(fi)
    elif "q" in fi and "alpha" in fi:
        res = triple_oracle({"q": fi["q"], "sigma": fi["sigma"], "alpha": float(fi["alpha"])})
    elif "sample_rate" in fi:
        q = fi["sample_rate"]
        res = history_oracle({"history": [(fi["noise_multiplier"], q, fi["epochs"] * math.ceil(1 / q))], "delta": fi["delta"], "alphas": fi["alphas"]})
    else:
        res = conversion_oracle()
    known = {f["key"] for f in ctx.findings if f.get("status") == "known"}
    if res and res[0] in known:
        print("KNOWN-FINDING (reproduced):", res[0], res[1])
    elif res:
        print("REPRODUCED:", res[0], res[1])
        ctx.violations.append(res[0])
    else:
        print("not reproduced on this tree")
