"""C12 — accountants are monotone and invariant to history order / run splitting; closed-form
special cases; the CLI script agrees with the RDP accountant.

Obligations (Lean, unbounded, real-number instance of the transcribed RDP accountant): epsilon is
non-decreasing under `step()`, non-increasing in any run's noise multiplier and in delta,
invariant under permutations of the history, under splitting / merging runs and under recording n
steps one at a time vs one run of n (the run-length encoding is faithful); per-step RDP is
non-negative; sample rate 1 is the Gaussian mechanism; the CLI script equals the accountant on the
one-run history `(sigma, q, epochs*ceil(1/q))`; GDP mu formula and its monotonicity; plus the
counterexample for the empty history.

Correspondence (driver C12 = Float instance of the same definitions): `step()` of all three
accountants (exact), `compute_dp_sgd_privacy`, GDP `compute_mu_poisson/uniform`, `delta_eps_mu`
(norm.cdf supplied by the harness at the points the MODEL asks for), `eps_from_mu` against its
specification (root of delta_eps_mu(.,mu) = delta), `GaussianAccountant.get_epsilon`.

Search (real code only): metamorphic pairs on RDP / PRV / GDP accountants — permute, split, merge,
n x 1 vs 1 x n, +steps, +q, +sigma, +delta — with each accountant's stated numerical slack; closed
forms (q = 1, GDP mu, GDP dual inversion, script vs accountant).
PRV: no theorem here (composition commutativity is C07's); covered by the metamorphic search only.
"""
from __future__ import annotations

import math
import warnings

import numpy as np
from scipy.stats import norm

from .. import core
from ..core import f2h, h2f
from . import c06_lib as L

warnings.filterwarnings("ignore")

PID = "C12"
MODULES = ["OpacusLean.Props.C12", "OpacusLean.Props.C07"]
THEOREMS = [
    "Opacus.C12.eps_mono_q",
    "Opacus.Rdp.binE_mono_q",
    "Opacus.Rdp.sgmSum_mono_q",
    "Opacus.C12.rdp_nonneg",
    "Opacus.C12.eps_mono_steps",
    "Opacus.C12.eps_antitone_sigma",
    "Opacus.C12.eps_antitone_delta",
    "Opacus.C12.eps_perm_invariant",
    "Opacus.C12.eps_run_split_invariant",
    "Opacus.C12.rle_expand",
    "Opacus.C12.step_one_at_a_time_eq_run",
    "Opacus.C12.q_one_is_gaussian",
    "Opacus.C12.script_eq_accountant",
    "Opacus.C12.eps_decreases_from_empty_counterexample",
    "Opacus.C12.mu_formula",
    "Opacus.C12.mu_mono",
    "Opacus.C12.gdp_eps_unique",
    "Opacus.C12.gdp_eps_antitone_delta",
    "Opacus.C12.gdp_eps_mono",
    "Opacus.GdpMono.strictAnti_eps",
    "Opacus.GdpMono.strictMonoOn_mu",
    "Opacus.GdpMono.gaussLike_Phi",
    "Opacus.C07.compose_heterogeneous_perm_invariant",
    # the tie to the source: Generated/GdpAnalysis.lean is re-translated from accountants/analysis/gdp.py on every run
    "Opacus.C12.generated_gdp_eq_model",
    # … and Generated/AcctStep.lean from the three accountants' step()
    "Opacus.C12.generated_acct_step_eq_model",
]
RULE = (
    "correspondence cases: step() sequences over a small pool of (sigma, q) pairs (exact); CLI tuples (q, sigma, epochs, delta, orders); "
    "GDP (steps, sigma, q, eps, delta) tuples. metamorphic pair = (accountant in {rdp, prv, gdp}, relation in {perm, split, merge, one-at-a-time, "
    "+steps, +q, +sigma, +delta}, base history of 1-4 runs with sigma in [0.5,6], q in [3e-4,0.2] (rdp also q=1), steps 1-300, delta in [1e-8,1e-3]); "
    "slack: rdp rel 1e-9; gdp rel 1e-8; prv: invariances 1e-6 + round-off, monotonicity 2*eps_error (=0.02, the accountant's stated error). "
    "non-trivial iff the two histories differ as lists (or the parameter really changed) and both evaluations succeed; distinct by (accountant, relation, history, delta)"
)
TRUSTED = [
    "the translator vharness/props/c05_trans.py (the accountants' step() -> pure functions on the history list; subset in its docstring) is trusted to render RDPAccountant / PRVAccountant / GaussianAccountant.step faithfully (float == as equality); the same methods are run against the model by the behavioural correspondence",
    "the translator vharness/pytrans.py + props/c12_trans.py (Python `ast` -> Lean real arithmetic; subset in its docstring, anything else is reported as a broken tie) is trusted to render compute_mu_poisson / compute_mu_uniform / delta_eps_mu faithfully; the same functions are also run against the model by the behavioural correspondence",
    "scipy.stats.norm.cdf, scipy.optimize.root_scalar(brentq) compute what they name; Dong-Roth-Su 2019 (GDP central limit theorem) is cited: the check is about the formula, not about GDP being a valid bound",
    "monotonicity / invariance theorems are over the reals for integer orders >= 2 (any non-empty list), sample rates in [0,1], sigma > 0; float summation order is not modelled (the search uses rel 1e-9)",
]
PARTIAL = [
    "GDP: uniqueness of the root of delta_eps_mu(., mu) = delta and its monotonicity in delta, steps, sample rate and sigma are proved over the reals with the true standard normal CDF (gdp_eps_unique, gdp_eps_antitone_delta, gdp_eps_mono); that brentq FINDS that root (bracket [0, 500], float tolerance) is checked by residual on the real code, not proved; monotonicity / invariance of the PRV accountant are searched on the real code; PRV composition algebra belongs to C07, whose compose_heterogeneous_perm_invariant gives the order invariance of the composed PRV pmf under the no-aliasing hypotheses (monotonicity of the RDP epsilon in the sample rate IS proved for integer orders: eps_mono_q, by stochastic dominance of the binomial weights)",
    "fractional orders: theorems cover integer orders only (script_eq_accountant and q_one_is_gaussian cover all orders)",
    "from the EMPTY history epsilon can decrease when a step is recorded (finding C12:rdp:eps-decreases-from-empty-history, Lean counterexample); eps_mono_steps is stated for non-empty histories",
]
LEVEL_TEXT = (
    "theorem: RDP accountant model monotone in steps/sigma/delta, invariant under permutation, run splitting and one-at-a-time recording, CLI = accountant, GDP mu formula; "
    "correspondence: Float instance vs real step()/script/GDP functions; search only: PRV and GDP epsilon relations, monotonicity in q"
)

K_EMPTY = "C12:rdp:eps-decreases-from-empty-history"
EMPTY_WITNESS = {"delta": 0.5, "sigma": 5.0, "q": 0.01, "alphas": [2]}


# --------------------------------------------------------------------------- real accountants
def acc_cls(name):
    from opacus.accountants import GaussianAccountant, PRVAccountant, RDPAccountant

    return {"rdp": RDPAccountant, "prv": PRVAccountant, "gdp": GaussianAccountant}[name]


def eps_of(name, hist, delta):
    a = acc_cls(name)()
    a.history = [tuple(x) for x in hist]
    return L.call(a.get_epsilon, delta)


def eps_by_steps(name, seq, delta):
    a = acc_cls(name)()
    for s, q in seq:
        a.step(noise_multiplier=s, sample_rate=q)
    return L.call(a.get_epsilon, delta), [tuple(x) for x in a.history]


# --------------------------------------------------------------------------- generators
def rnd(x, k=4):
    return float(f"{x:.{k}g}")


def gen_run(rng, name):
    q = rnd(10 ** rng.uniform(-3.5, -0.7))
    if name == "rdp" and rng.random() < 0.08:
        q = 1.0
    return (rnd(10 ** rng.uniform(-0.3, 0.8)), q, rng.randint(1, 300))


def gen_hist(rng, name):
    if name == "gdp":
        s, q, n = gen_run(rng, name)
        return [(s, max(q, 0.003), n + 20)]   # keep mu large enough for brentq's bracket [0, 500]
    r = rng.random()
    if name == "prv" and rng.random() < 0.3:
        # a schedule with many stages (the composition tree has odd levels at several depths: 7, 11, 13, 14, 15 runs)
        k = rng.choice([7, 11, 13, 14, 15, 9])
        q = rng.choice([0.01, 0.02, 0.05])
        return [(rnd(0.9 + 0.07 * i + rng.uniform(0, 0.03)), q, rng.randint(20, 200)) for i in range(k)]
    if r < 0.2:
        # a long phase followed by a brief change of sigma (either order): the composed epsilon is far above
        # what the short run alone would give (domain sizing of the PRV accountant must use the whole history)
        q = rng.choice([0.01, 0.02, 0.03])
        h = [(rnd(rng.uniform(0.9, 1.2)), q, rng.randint(1500, 3000)), (rnd(rng.uniform(1.25, 1.6)), q, rng.randint(5, 30))]
        return h if rng.random() < 0.5 else h[::-1]
    h = [gen_run(rng, name) for _ in range(rng.randint(1, 4))]
    if len(h) >= 2 and r < 0.45:
        # a setting that recurs non-adjacently (A, B, A)
        s0, q0, _ = h[0]
        h.append((s0, q0, rng.randint(1, 300)))
    return h


RELATIONS = ["perm", "split", "merge", "one-at-a-time", "+steps", "+q", "+sigma", "+delta"]


def make_pair(rng, name, rel, h, d):
    """returns (h2, d2, expected) with expected in {'eq', 'ge', 'le'} for eps(h2,d2) vs eps(h,d);
    None if the relation does not apply"""
    h = list(h)
    if rel == "perm":
        if len(h) < 2:
            return None
        h2 = h[:]
        rng.shuffle(h2)
        if h2 == h:
            h2 = h[1:] + h[:1]
        return h2, d, "eq"
    i = rng.randrange(len(h))
    s, q, n = h[i]
    if rel == "split":
        if n < 2 or name == "gdp":
            return None
        k = rng.randint(1, n - 1)
        return h[:i] + [(s, q, k), (s, q, n - k)] + h[i + 1:], d, "eq"
    if rel == "merge":
        if name == "gdp":
            return None
        # base has two adjacent identical runs; merged variant has one
        hh = h[:i] + [(s, q, n), (s, q, n + 3)] + h[i + 1:]
        return ("rebase", hh, h[:i] + [(s, q, 2 * n + 3)] + h[i + 1:]), d, "eq"
    if rel == "one-at-a-time":
        return "steps", d, "eq"
    if rel == "+steps":
        return h[:i] + [(s, q, n + rng.randint(1, 50))] + h[i + 1:], d, "ge"
    if rel == "+q":
        if q >= 1:
            return None
        return h[:i] + [(s, min(1.0 if name == "rdp" else 0.5, rnd(q * rng.uniform(1.05, 3.0))), n)] + h[i + 1:], d, "ge"
    if rel == "+sigma":
        return h[:i] + [(rnd(s * rng.uniform(1.05, 2.0)), q, n)] + h[i + 1:], d, "le"
    if rel == "+delta":
        return h, d * rng.uniform(1.5, 100.0), "le"
    raise ValueError(rel)


def gdp_root_in_bracket(hist, delta):
    """independent of opacus: does delta_eps_mu(., mu) = delta have its root inside brentq's bracket
    [0, 500]?  (outside it the GDP accountant raises ValueError: no epsilon is reported at all)"""
    s, q, n = hist[-1]
    mu = q * math.sqrt(n * math.expm1(1 / (s * s)))
    f = lambda e: norm.cdf(-e / mu + mu / 2) - math.exp(e + norm.logcdf(-e / mu - mu / 2)) - delta  # noqa
    return f(0.0) > 0 and f(500.0) < 0


def slack(name, exp, a, b):
    if name == "prv":
        return (1e-6 + 1e-6 * abs(a)) if exp == "eq" else 0.02
    rel = 1e-9 if name == "rdp" else 1e-8
    return rel * max(abs(a), abs(b)) + 1e-12


def check_pair(name, rel, h, d, pair):
    """PROPERTY on the real code; returns (status, finding|None, detail)"""
    h2, d2, exp = pair
    if isinstance(h2, tuple) and h2[0] == "rebase":
        _, h, h2 = h2
    if h2 == "steps":
        seq = [(s, q) for s, q, n in h for _ in range(min(n, 40))]
        hb = [(s, q, min(n, 40)) for s, q, n in h]
        # merge adjacent equal runs exactly as step() would
        e1 = eps_of(name, hb, d) if name != "gdp" else eps_of(name, hb[-1:], d)
        if name == "gdp":
            seq = [(hb[-1][0], hb[-1][1])] * hb[-1][2]
        e2, hist2 = eps_by_steps(name, seq, d)
        h, h2 = hb, hist2
    else:
        e1, e2 = eps_of(name, h, d), eps_of(name, h2, d2)
    if isinstance(e1, L.Exc) or isinstance(e2, L.Exc):
        if isinstance(e1, L.Exc) and isinstance(e2, L.Exc):
            return "both-raise", None, None
        if name == "gdp" and h2 != "steps":
            hx, dx = (h, d) if isinstance(e1, L.Exc) else (h2, d2)
            if not gdp_root_in_bracket(hx, dx):
                return "gdp-root-outside-bracket", None, None
        return "one-raises", (f"C12:{name}:{rel}:one-side-raises", f"{name} accountant, relation {rel}: get_epsilon({d}) on {h} gives {e1!r} but on {h2} (delta {d2}) gives {e2!r}",
                              {"accountant": name, "relation": rel, "history": h, "history2": h2, "delta": d, "delta2": d2}), None
    e1, e2 = float(e1), float(e2)
    sl = slack(name, exp, e1, e2)
    bad = (exp == "eq" and abs(e1 - e2) > sl) or (exp == "ge" and e2 < e1 - sl) or (exp == "le" and e2 > e1 + sl)
    if bad:
        return "fail", (f"C12:{name}:{rel}", f"{name} accountant: relation '{rel}' violated: eps{h, d} = {e1}, eps{h2, d2} = {e2} (expected {exp}, slack {sl:.3g})",
                        {"accountant": name, "relation": rel, "history": h, "history2": h2, "delta": d, "delta2": d2, "observed": [e1, e2]}), None
    return "ok", None, (e1, e2)


# --------------------------------------------------------------------------- closed forms on the real code
def q_one_eps_check(s1, n1, d1):
    """full epsilon at q = 1: the exact (Balle-Wang) epsilon of n-fold Gaussian composition, mu = sqrt(n)/sigma.
    RDP's conversion is an upper bound of it; PRV brackets it within its stated eps_error."""
    from opacus.accountants import PRVAccountant, RDPAccountant
    from scipy.optimize import brentq
    mu1 = math.sqrt(n1) / s1
    if mu1 >= 6:
        return None
    gd = lambda e: norm.cdf(-e / mu1 + mu1 / 2) - math.exp(e + norm.logcdf(-e / mu1 - mu1 / 2)) - d1  # noqa: E731
    exact = brentq(gd, 0.0, 2000.0, xtol=1e-12) if gd(0.0) > 0 else 0.0
    for nm, cls in (("rdp", RDPAccountant), ("prv", PRVAccountant)):
        acc1 = cls()
        acc1.history = [(s1, 1.0, n1)]
        e1 = L.call(acc1.get_epsilon, d1)
        if isinstance(e1, L.Exc):
            continue
        if e1 < exact - 1e-6 or (nm == "prv" and e1 > exact + 0.03):
            return (f"C12:closed-form:q-one-epsilon:{nm}", f"{cls.__name__} on [({s1}, 1.0, {n1})], delta={d1}: epsilon {e1}; the Gaussian mechanism composed {n1} times has exactly {exact}",
                    {"failing_input": {"kind": "q-one-eps", "sigma": s1, "steps": n1, "delta": d1}})
    return None


def closed_form_oracle(case=None, rng=None, n=30):
    """PROPERTY on the real code: q = 1 gives the Gaussian mechanism (RDP alpha/(2 s^2)); GDP mu equals
    q*sqrt(T(e^{1/s^2}-1)) and get_epsilon inverts delta_eps_mu; the CLI agrees with the accountant."""
    import random

    from opacus.accountants import GaussianAccountant, RDPAccountant
    from opacus.accountants.analysis import gdp as G
    from opacus.accountants.analysis import rdp as R
    from opacus.scripts.compute_dp_sgd_privacy import compute_dp_sgd_privacy

    rng = rng or random.Random(12)
    for _ in range(n):
        s = rnd(10 ** rng.uniform(-0.3, 1.0))
        a = rng.choice([1.5, 2.0, 2.5, 7.0, 32.0, 63.0])
        got = R._compute_rdp(1.0, s, a)
        if not core.close(got, a / (2 * s * s), 1e-12):
            return ("C12:closed-form:q-one", f"_compute_rdp(q=1, sigma={s}, alpha={a}) = {got}, Gaussian mechanism has {a / (2 * s * s)}", {"sigma": s, "alpha": a, "failing_input": {"kind": "q-one", "sigma": s, "alpha": a}})
        r1 = q_one_eps_check(max(s, 0.7), rng.randint(1, 20), 10 ** rng.uniform(-7, -4))
        if r1:
            return r1
        q, T = rnd(10 ** rng.uniform(-3, -0.5)), rng.randint(1, 5000)
        mu = G.compute_mu_poisson(steps=T, noise_multiplier=s, sample_rate=q)
        want = q * math.sqrt(T * math.expm1(1 / (s * s)))
        if not core.close(float(mu), want, 1e-9):
            return ("C12:closed-form:gdp-mu", f"compute_mu_poisson(steps={T}, sigma={s}, q={q}) = {mu}, central-limit formula gives {want}", {"failing_input": {"kind": "gdp-mu", "steps": T, "sigma": s, "q": q}})
        # delta_eps_mu itself against the Gaussian dual written out independently (Dong-Roth-Su eq. 6)
        e0, m0 = rng.uniform(0.0, 8.0), 10 ** rng.uniform(-1.0, 0.8)
        dd = float(G.delta_eps_mu(eps=e0, mu=m0))
        wd = norm.cdf(-e0 / m0 + m0 / 2) - math.exp(e0) * norm.cdf(-e0 / m0 - m0 / 2)
        if not core.close(dd, wd, 1e-9, 1e-15):
            return ("C12:closed-form:gdp-dual", f"delta_eps_mu(eps={e0}, mu={m0}) = {dd}, the Gaussian dual Phi(-eps/mu + mu/2) - e^eps Phi(-eps/mu - mu/2) = {wd}",
                    {"failing_input": {"kind": "gdp-dual-direct", "eps": e0, "mu": m0}})
        d = 10 ** rng.uniform(-8, -3)
        g = GaussianAccountant()
        g.history = [(s, q, T)]
        e = L.call(g.get_epsilon, d)
        if not isinstance(e, L.Exc):
            back = norm.cdf(-e / want + want / 2) - math.exp(e + norm.logcdf(-e / want - want / 2))
            if not core.close(back, d, 1e-6, 1e-15):
                return ("C12:closed-form:gdp-dual", f"GaussianAccountant.get_epsilon(delta={d}) = {e} on {(s, q, T)}; the Gaussian dual at that epsilon and mu={want} gives delta = {back}", {"failing_input": {"kind": "gdp-dual", "steps": T, "sigma": s, "q": q, "delta": d}})
        ep = rng.randint(1, 20)
        al = [float(x) for x in rng.sample(range(2, 64), 6)]
        acc = RDPAccountant()
        acc.history = [(s, q, ep * math.ceil(1 / q))]
        x = compute_dp_sgd_privacy(sample_rate=q, noise_multiplier=s, epochs=ep, delta=d, alphas=al, verbose=False)
        y = acc.get_privacy_spent(delta=d, alphas=al)
        if not (core.close(float(x[0]), float(y[0]), 1e-12) and float(x[1]) == float(y[1])):
            return ("C12:closed-form:script-vs-accountant", f"compute_dp_sgd_privacy(q={q}, sigma={s}, epochs={ep}, delta={d}, alphas={al}) = {x}, RDPAccountant on [({s},{q},{ep}*ceil(1/q))] = {y}", {"failing_input": {"kind": "script", "q": q, "sigma": s, "epochs": ep, "delta": d, "alphas": al}})
    return None


def empty_history_oracle(w=EMPTY_WITNESS):
    from opacus.accountants import RDPAccountant

    a = RDPAccountant()
    e0 = a.get_epsilon(w["delta"], alphas=w["alphas"])
    a.step(noise_multiplier=w["sigma"], sample_rate=w["q"])
    e1 = a.get_epsilon(w["delta"], alphas=w["alphas"])
    if e1 < e0 - 1e-12:
        return (K_EMPTY, f"RDPAccountant: eps(empty history) = {e0} but after one step(sigma={w['sigma']}, q={w['q']}) get_epsilon(delta={w['delta']}, alphas={w['alphas']}) = {e1} < {e0}", {"observed": [e0, e1]})
    return None


# --------------------------------------------------------------------------- correspondence
def corr_history(ctx):
    rng = ctx.rng
    b = L.Batch(ctx, driver="C12")
    cases = []
    for k in range(ctx.n(60, 1200)):
        name = ["rdp", "prv", "gdp"][k % 3]
        pool = [(rng.choice([0.5, 1.0, 1.1, 2.0]), rng.choice([0.01, 0.02, 0.5, 1.0])) for _ in range(rng.randint(1, 3))]
        seq = []
        for _ in range(rng.randint(1, 25)):
            if not seq or rng.random() < (0.08 if name == "gdp" else 0.35):
                seq.append(rng.choice(pool))
            else:
                seq.append(seq[-1])
        op = "ghist" if name == "gdp" else "hist"
        cases.append((name, seq, b.add(f"{op} {len(seq)} " + " ".join(f"{f2h(s)} {f2h(q)}" for s, q in seq))))
    rep = b.run()
    for name, seq, i in cases:
        a = acc_cls(name)()
        impl = None
        try:
            for s, q in seq:
                a.step(noise_multiplier=s, sample_rate=q)
            impl = [(float(s), float(q), int(n)) for s, q, n in a.history]
        except ValueError:
            impl = "err:gdp-heterogeneous"
        t = rep[i].split()
        model = [(h2f(t[1 + 3 * k]), h2f(t[2 + 3 * k]), int(t[3 + 3 * k])) for k in range(int(t[0]))] if t and t[0].isdigit() else rep[i]
        ctx.case((name,) + tuple(seq), nontrivial=isinstance(impl, list) and any(n > 1 for _, _, n in impl) or impl == "err:gdp-heterogeneous", kind="step:" + name,
                 sample={"accountant": name, "steps": seq[:6]} if len(seq) < 8 else None)
        if impl == model:
            ctx.validated()
        else:
            def orc(c, name=name):
                res = check_pair(name, "one-at-a-time", [(s, q, 1) for s, q in c["steps"]][:1], 1e-5, ("steps", 1e-5, "eq"))
                return res[1]
            ctx.mismatch("history-step:" + name, {"accountant": name, "steps": seq}, impl, model, oracle=orc)


def corr_script(ctx):
    from opacus.scripts.compute_dp_sgd_privacy import compute_dp_sgd_privacy

    rng = ctx.rng
    b = L.Batch(ctx, driver="C12")
    cases = []
    for _ in range(ctx.n(40, 600)):
        q = rnd(10 ** rng.uniform(-4, 0))
        if rng.random() < 0.15:
            q = rng.choice([1.0, 0.5, 1 / 3, 0.1, 1.25, 0.3])
        s = rnd(10 ** rng.uniform(-0.3, 1.0))
        ep = rng.randint(0, 40)
        d = rnd(10 ** rng.uniform(-9, -2))
        orders = [float(x) for x in rng.sample(range(2, 100), rng.randint(1, 12))]
        if rng.random() < 0.3:
            orders.append(math.inf)
        cases.append((q, s, ep, d, orders, b.add(f"script {f2h(q)} {f2h(s)} {ep} {f2h(d)} {len(orders)} " + " ".join(L.otok(a) for a in orders))))
    rep = b.run()
    for q, s, ep, d, orders, i in cases:
        impl = L.call(compute_dp_sgd_privacy, sample_rate=q, noise_multiplier=s, epochs=ep, delta=d, alphas=orders, verbose=False)
        toks = rep[i].split()
        case = {"q": q, "sigma": s, "epochs": ep, "delta": d, "alphas": orders}
        ctx.case(("script", q, s, ep, d, tuple(orders)), nontrivial=0 < q < 1 and ep > 0, kind="script")
        ok = False
        if isinstance(impl, L.Exc):
            ok = toks[-1] in ("err:rate-above-one", "err:math-domain")
        elif len(toks) == 3:
            steps = ep * math.ceil(1 / q)
            me, ma = L.evval(toks[1]), L.oval(toks[2])
            ie, ia = float(impl[0]), float(impl[1])
            ok = int(toks[0]) == steps and not isinstance(me, str) and (ie == me or core.close(ie, me, 1e-9, 1e-300)) and (ia == ma or (ia != ia and ma != ma))
        if ok:
            ctx.validated()
        else:
            ctx.mismatch("script", case, repr(impl), rep[i], oracle=lambda c: closed_form_oracle(rng=ctx.rng))


def corr_gdp(ctx):
    from opacus.accountants import GaussianAccountant
    from opacus.accountants.analysis import gdp as G

    rng = ctx.rng
    cases = []
    for _ in range(ctx.n(60, 1500)):
        T = rng.randint(1, 20000)
        s = rnd(10 ** rng.uniform(-0.3, 1.0))
        q = rnd(10 ** rng.uniform(-3.5, -0.5))
        d = rnd(10 ** rng.uniform(-9, -3))
        cases.append((T, s, q, d))
    # pass 1: mu (no oracle), the real epsilon, and the points where the model wants norm.cdf
    l1 = [f"mu {T} {f2h(s)} {f2h(q)}" for T, s, q, d in cases]
    r1 = ctx.lean_driver("C12", l1)
    impl_eps, l2 = [], []
    for (T, s, q, d), r in zip(cases, r1):
        mu_m = h2f(r)
        g = GaussianAccountant()
        g.history = [(s, q, T)]
        e = L.call(g.get_epsilon, d)
        impl_eps.append(e)
        l2.append(f"dargs {f2h(0.0 if isinstance(e, L.Exc) else float(e))} {f2h(mu_m)}")
    r2 = ctx.lean_driver("C12", l2)
    pts = set()
    for r in r2:
        pts.update(h2f(t) for t in r.split())
    for T, s, q, d in cases:
        pts.update([1.5 / s, -0.5 / s])
    pts = sorted(p for p in pts if p == p)
    lines = [f"phi {len(pts)} " + " ".join(f2h(x) + " " + f2h(float(norm.cdf(x))) for x in pts)]
    for (T, s, q, d), e, r in zip(cases, impl_eps, r1):
        lines.append(f"muu {T} {f2h(s)} {f2h(q)}")
        lines.append(f"dem {f2h(0.0 if isinstance(e, L.Exc) else float(e))} {r}")
    r3 = ctx.lean_driver("C12", lines)[1:]
    for k, ((T, s, q, d), e) in enumerate(zip(cases, impl_eps)):
        case = {"steps": T, "sigma": s, "q": q, "delta": d}
        mu_m, muu_m, dem_m = h2f(r1[k]), h2f(r3[2 * k]), h2f(r3[2 * k + 1])
        mu_i = float(G.compute_mu_poisson(steps=T, noise_multiplier=s, sample_rate=q))
        muu_i = float(G.compute_mu_uniform(steps=T, noise_multiplier=s, sample_rate=q))
        ctx.case(("gdp", T, s, q, d), nontrivial=not isinstance(e, L.Exc), kind="gdp", sample=case)
        ok = core.close(mu_i, mu_m, 1e-9) and core.close(muu_i, muu_m, 1e-7, 1e-12)
        if isinstance(e, L.Exc):
            ctx.count("gdp:get_epsilon-raises")
            ok = ok and not gdp_root_in_bracket([(s, q, T)], d)   # raising is only expected outside the bracket
        if ok and not isinstance(e, L.Exc):
            dem_i = float(G.delta_eps_mu(eps=float(e), mu=mu_i))
            # delta_eps_mu itself, and eps_from_mu against its specification: residual ~ 0
            ok = core.close(dem_i, dem_m, 1e-7, 1e-15) and abs(dem_m - d) <= 1e-6 * d + 1e-14
            # the accountant uses history[-1] and the poisson formula
            ok = ok and core.close(float(e), float(G.compute_eps_poisson(steps=T, noise_multiplier=s, sample_rate=q, delta=d)), 1e-12)
        if ok:
            ctx.validated()
        else:
            ctx.mismatch("gdp", case, {"mu": mu_i, "mu_uniform": muu_i, "eps": repr(e)}, {"mu": mu_m, "mu_uniform": muu_m, "delta_at_eps": dem_m},
                         oracle=lambda c: closed_form_oracle(rng=ctx.rng))


# --------------------------------------------------------------------------- run
def metamorphic(ctx):
    rng = ctx.rng
    budget = {"rdp": ctx.n(120, 2500), "gdp": ctx.n(60, 1200), "prv": ctx.n(14, 300)}
    for name, n in budget.items():
        for k in range(n):
            h = gen_hist(rng, name)
            d = 10 ** rng.uniform(-8, -3)
            rel = RELATIONS[k % len(RELATIONS)]
            pair = make_pair(rng, name, rel, h, d)
            if pair is None:
                ctx.count(f"meta:{name}:{rel}:n/a")
                continue
            st, finding, _ = check_pair(name, rel, h, d, pair)
            ctx.case((name, rel, tuple(h), d), nontrivial=st == "ok", kind=f"meta:{name}:{rel}")
            ctx.count(f"meta-status:{name}:{st}")
            if finding:
                ctx.property_failure(finding[0], finding[1], dict(finding[2], failing_input={"accountant": name, "relation": rel, "history": h, "delta": d, "pair": pair if not isinstance(pair[0], tuple) else None}))


def regenerate(ctx):
    from .. import regen
    from . import c12_trans as T
    regen.regenerate(ctx, T, "Opacus.Generated.Gdp", "accountants/analysis/gdp.py")
    from . import c05_trans as T5
    regen.regenerate(ctx, T5, "Opacus.Generated.Acct", "accountants/{rdp,prv,gdp}.py:step")


def run(ctx):
    regenerate(ctx)
    corr_history(ctx)
    corr_script(ctx)
    corr_gdp(ctx)
    # Lean counterexample witness replayed on the real code
    res = empty_history_oracle()
    ctx.variant["empty-history-eps"] = "asCoded" if res else "repaired"
    if res:
        ctx.property_failure(res[0], res[1], dict(res[2], failing_input=dict(EMPTY_WITNESS)))
    r = closed_form_oracle(rng=ctx.rng, n=ctx.n(30, 500))
    ctx.count("search:closed-forms", ctx.n(30, 500))
    if r:
        ctx.property_failure(r[0], r[1], r[2])
    metamorphic(ctx)


def replay(ctx, rp):
    fi = rp.get("failing_input") or {}
    res = None
    if rp.get("key") == K_EMPTY or ("alphas" in fi and "history" not in fi and "sigma" in fi and "kind" not in fi):
        res = empty_history_oracle({**EMPTY_WITNESS, **{k: fi[k] for k in ("delta", "sigma", "q", "alphas") if k in fi}})
    elif "relation" in fi or "relation" in rp:
        name, rel = rp.get("accountant", fi.get("accountant")), rp.get("relation", fi.get("relation"))
        h = [tuple(x) for x in rp.get("history", fi.get("history"))]
        h2 = rp.get("history2")
        d, d2 = rp.get("delta", fi.get("delta")), rp.get("delta2", fi.get("delta"))
        exp = {"perm": "eq", "split": "eq", "merge": "eq", "one-at-a-time": "eq", "+steps": "ge", "+q": "ge", "+sigma": "le", "+delta": "le"}[rel]
        pair = ("steps", d, "eq") if rel == "one-at-a-time" else ([tuple(x) for x in h2], d2, exp)
        res = check_pair(name, rel, h, d, pair)[1]
    elif fi.get("kind") == "q-one-eps":
        res = q_one_eps_check(fi["sigma"], fi["steps"], fi["delta"])
    else:
        res = closed_form_oracle()
    if res:
        print("REPRODUCED:", res[0], res[1])
        ctx.violations.append(res[0])
    else:
        print("not reproduced on this tree")
