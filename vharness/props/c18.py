"""C18 — distributed DP training equals single-process DP training on the union batch.

Obligations (Lean, unbounded: every world size W ≥ 1 invertible in the field, every sharding incl.
empty and unequal shards, every clip function of the sample alone, both loss reductions, any number
of steps): `ddp_step_eq_union_step` / `ddp_run_eq_union_run` for DistributedDPOptimizer, its ghost
twin and SimpleDistributedPerLayerOptimizer; `noise_once_total`; `broadcast_sync`; for
DistributedPerLayerOptimizer under torch DDP the as-coded characterisation (release scaled by 2/W,
raises on an empty shard), the W = 2 partial theorem, two counterexamples and the theorem for the
repaired hook.

Correspondence: the `Float` instance of the same definitions (driver C18) against the REAL
optimizers running in real gloo process groups on 127.0.0.1 (one process per rank, spawned from
here, see c18_worker.py) in the token setting, and against the real single-process optimizers on
the union batch.  Property oracle on the real code (no model): every rank's gradient and parameters
after every step equal the single-process ones; exactly one noise request per parameter and step
in the whole group; all ranks hold rank 0's parameters after wrapping.
"""
from __future__ import annotations

import json
import math
import os
import socket
import subprocess
import sys
import time
from pathlib import Path

import torch

from .. import core, rig  # noqa: F401  (rig: torch thread settings)
from ..core import f2h, h2f
from . import c18_worker as wk

PID = "C18"
MODULES = ["OpacusLean.Props.C18"]
THEOREMS = [
    "Opacus.C18.ddp_step_eq_union_step",
    "Opacus.C18.ddp_step_release_form",
    "Opacus.C18.ddp_step_workers_agree",
    "Opacus.C18.ddp_step_params",
    "Opacus.C18.ddp_run_eq_union_run",
    "Opacus.C18.ddp_run_eq_union_run_charZero",
    "Opacus.C18.noise_once_total",
    "Opacus.C18.ddp_step_indep_of_other_noise",
    "Opacus.C18.broadcast_sync",
    "Opacus.C18.single_release_form",
    "Opacus.C18.average_gradients_eq",
    "Opacus.C18.hooks_step_asCoded",
    "Opacus.C18.hooks_step_asCoded_ne_union",
    "Opacus.C18.hooks_step_eq_union_step_partial",
    "Opacus.C18.hooks_step_counterexample",
    "Opacus.C18.hooks_empty_shard_counterexample",
    "Opacus.C18.hooks_repaired_step_eq_union_step",
]
RULE = (
    "case = (optimizer variant flat|ghost|perlayer_simple|perlayer_hooks, construction path engine|direct, wrapper DPDDP|torch-DDP, "
    "loss reduction, W, global expected batch size E, clip bound(s), sigma, lr, distinct per-rank initial weights, "
    "3 steps of shardings of integer token rows incl. empty and unequal shards) drawn from VERIF_SEED; "
    "non-trivial iff W >= 2 and some step has >= 2 non-empty shards and (sigma > 0 or a sample is clipped); "
    "distinct by (variant, path, wrap, reduction, W, E, shard-size pattern, clipped?, sigma > 0)"
)
TRUSTED = [
    "gloo all_reduce(SUM)/broadcast and torch DistributedDataParallel's reducer (divide by world size, all-reduce) are modelled as pure functions; autograd's AccumulateGrad adding a tensor hook's return value to an already-set p.grad is modelled as X+X (observed, see notes)",
    "theorems are over a field in which W is invertible; binary64 rounding of the distributed vs single-process evaluation order is not modelled (compared to 1e-9, exactly when every quantity is an integer)",
]
PARTIAL = [
    "torch-DDP gradient averaging under DistributedPerLayerOptimizer is a modelled parameter validated by the correspondence only",
    "grad_sample_mode='ew' rejects empty batches inside torch's ExpandedWeights (outside the anchors, identical in single-process mode): empty shards for SimpleDistributedPerLayerOptimizer are exercised through direct construction over the hooks GradSampleModule",
    "virtual steps on the workers (signal_skip_step, 2-3 physical batches per logical step) are exercised for the flat, ghost and simple per-layer optimizers under the DPDDP wrapper; the model treats a logical step as one unit (the protocol itself is C10/C11's); gradient accumulation without skip signals (accumulated_iterations > 1) is not generated",
]

WORKER = Path(wk.__file__).resolve()
SCRATCH = core.WORK / "C18"
KEY_SCALE = "C18:hooks-perlayer:release-scaled-by-2-over-W"
KEY_EMPTY = "C18:hooks-perlayer:empty-shard-raises"
EMPTY_MSG = "cannot reshape tensor of 0 elements"


# ----------------------------------------------------------------------------- generation
def make_rows(rng, n, d):
    rows = []
    for i in range(n):
        r = [rng.randint(-4, 4) for _ in range(d)]
        r[i % d] += (i + 1) * (1 if i % 2 else -1) * 3
        rows.append([float(v) for v in r])
    return rows


def shard_sizes(rng, W, allow_empty, total_max=7):
    while True:
        sizes = [rng.choice([0, 1, 1, 2, 2, 3, 4]) for _ in range(W)]
        if not allow_empty:
            sizes = [max(1, s) for s in sizes]
        if sum(sizes) <= total_max:
            return sizes


def gen_config(rng, W, variant=None, allow_empty=True, T=3, idx=0, **force):
    variant = variant or rng.choice(["flat", "flat", "ghost", "perlayer_simple", "perlayer_hooks"])
    dims = rng.choice([[2, 3], [1, 2], [3, 1], [2, 4]])
    D = sum(dims)
    rows = make_rows(rng, 9, D)
    red = rng.choice(["mean", "sum"])
    path = rng.choice(["engine", "engine", "direct"])
    if variant == "perlayer_simple" and path == "engine":
        allow_empty = False  # 'ew' mode: torch ExpandedWeights rejects empty batches (see PARTIAL)
    wrap = None
    if variant in ("flat", "perlayer_simple") and rng.random() < 0.3:
        wrap = "ddp"
    exact = rng.random() < 0.4
    per_layer = variant.startswith("perlayer")
    if exact:
        C = [1e9] * 2 if per_layer else 1e9
    else:
        C = [rng.choice([2.0, 5.0, 9.0]), rng.choice([3.0, 6.0, 12.0])] if per_layer else rng.choice([4.0, 8.0, 15.0])
    steps = []
    for _ in range(T):
        sizes = shard_sizes(rng, W, allow_empty)
        pool = list(range(len(rows)))
        rng.shuffle(pool)
        sh, k = [], 0
        for s in sizes:
            sh.append(pool[k : k + s])
            k += s
        steps.append(sh)
    cfg = dict(
        id=f"g{idx}",
        variant=variant,
        reduction=red,
        path=path,
        wrap=wrap,
        W=W,
        dims=dims,
        rows=rows,
        steps=steps,
        E=rng.choice([3, 4, 5, 6, 7]),
        C=C,
        sigma=rng.choice([0.0, 0.5, 1.0, 2.0, 1.0]),
        lr=rng.choice([0.5, 0.25]),
        init=[[[float((r + 1) * (j + 1)) for j in range(dims[0])], [float(-(r + 2) * (j + 1)) for j in range(dims[1])]] for r in range(W)],
        # `optimizer.step(closure)`: the DP optimizer evaluates the closure once, BEFORE clipping/noising, and the
        # wrapped optimizer must not re-evaluate it (it would overwrite the released gradient with the raw one)
        closure=(variant in ("flat", "perlayer_simple") and rng.random() < 0.35),
        # a frozen parameter that differs between the workers before wrapping (1 on rank 0, 1 + rank elsewhere)
        frozen=(rng.random() < 0.35),
    )
    # virtual steps on the workers (BatchMemoryManager style): only where backward does not communicate (DPDDP wrapper)
    cfg["micro"] = rng.choice([2, 3]) if (variant in ("flat", "ghost", "perlayer_simple") and wrap is None and rng.random() < 0.4) else 1
    if cfg["micro"] > 1:
        cfg["closure"] = False
    cfg.update(force)
    return cfg


def gen_until(rng, pred, *a, **kw):
    for _ in range(200):
        cfg = gen_config(rng, *a, **kw)
        if pred(cfg):
            return cfg
    return cfg


def witness_scale(W=3):
    """the Lean witness `hooks_step_counterexample`: three workers, one sample each"""
    return dict(
        id="w-scale", variant="perlayer_hooks", reduction="sum", path="engine", wrap=None, W=W, dims=[1, 2],
        rows=[[3.0, 0.0, 6.0], [6.0, 3.0, 0.0], [0.0, 6.0, 3.0], [3.0, 3.0, 3.0]],
        steps=[[[i] for i in range(W)]] if W <= 4 else None,
        E=3, C=[1e9, 1e9], sigma=0.0, lr=0.5,
        init=[[[float(r + 1)], [float(r), float(-r)]] for r in range(W)],
    )


def witness_empty():
    """the Lean witness `hooks_empty_shard_counterexample`: rank 1 of 2 holds an empty shard"""
    return dict(
        id="w-empty", variant="perlayer_hooks", reduction="sum", path="engine", wrap=None, W=2, dims=[1, 2],
        rows=[[3.0, 0.0, 6.0], [6.0, 9.0, 3.0]],
        steps=[[[0, 1], []]],
        E=2, C=[1e9, 1e9], sigma=0.0, lr=0.5,
        init=[[[1.0], [0.0, 0.0]], [[2.0], [1.0, -1.0]]],
    )


# ----------------------------------------------------------------------------- process groups
def free_port(rng):
    for _ in range(50):
        port = rng.randrange(20000, 60000)
        s = socket.socket()
        try:
            s.bind(("127.0.0.1", port))
            return port
        except OSError:
            continue
        finally:
            s.close()
    raise core.InfraError("no free loopback port found")


_job_no = [0]


def spawn_once(ctx, W, cfgs, timeout):
    """one gloo group of W processes over `cfgs`; returns (per-rank result lists, index of the config
    at which some rank aborted or None)"""
    SCRATCH.mkdir(parents=True, exist_ok=True)
    _job_no[0] += 1
    tag = f"{os.getpid()}_{_job_no[0]}"
    job = SCRATCH / f"job_{tag}.json"
    job.write_text(json.dumps(cfgs))
    port = free_port(ctx.rng)
    outs = [SCRATCH / f"out_{tag}_{r}.json" for r in range(W)]
    env = dict(os.environ, OMP_NUM_THREADS="1", MKL_NUM_THREADS="1", C18_COLL_TIMEOUT=str(int(timeout)))
    procs = []
    errf = open(SCRATCH / f"err_{tag}.log", "w")
    try:
        for r in range(W):
            procs.append(subprocess.Popen([sys.executable, str(WORKER), str(job), str(r), str(W), str(port), str(outs[r])], env=env, stdout=errf, stderr=errf))
        deadline = time.time() + timeout + 4 * len(cfgs)
        abort_deadline = None
        while True:
            alive = [p for p in procs if p.poll() is None]
            if not alive:
                break
            now = time.time()
            if abort_deadline is None:
                for r, p in enumerate(procs):
                    if p.poll() is not None and outs[r].exists():
                        try:
                            o = json.loads(outs[r].read_text())
                        except Exception:
                            continue
                        rs = o.get("results", [])
                        if "infra" in o or (rs and ("error" in rs[-1] or "aborted_at" in rs[-1] or "infra" in rs[-1])):
                            abort_deadline = now + 4.0
            if now > deadline or (abort_deadline is not None and now > abort_deadline):
                for p in alive:
                    p.kill()
                for p in alive:
                    p.wait(10)
                if abort_deadline is None:
                    raise core.InfraError(f"gloo job W={W} timed out after {timeout}s (see {errf.name})")
                break
            time.sleep(0.05)
    finally:
        for p in procs:
            if p.poll() is None:
                p.kill()
        errf.close()
    per_rank, infra = [], []
    for r in range(W):
        if outs[r].exists():
            try:
                o = json.loads(outs[r].read_text())
            except Exception as e:
                o = {"infra": f"unreadable output: {e}"}
        else:
            o = {"results": [], "killed": True}
        if "infra" in o:
            infra.append(f"rank {r}: {o['infra']}")
        per_rank.append(o.get("results", []))
    for f in [job, *outs]:
        try:
            f.unlink()
        except OSError:
            pass
    # where did the first implementation exception happen?
    abort_at = None
    for rs in per_rank:
        for i, x in enumerate(rs):
            if "error" in x or "aborted_at" in x:
                abort_at = i if abort_at is None else min(abort_at, i)
    if abort_at is None:
        if infra or any(p.returncode != 0 for p in procs) or any(len(rs) != len(cfgs) for rs in per_rank):
            raise core.InfraError(f"gloo job W={W} failed: {infra or [p.returncode for p in procs]} (see {errf.name})")
    return per_rank, abort_at


def run_group(ctx, W, cfgs, timeout=60):
    """results[i][rank] for every config (None for a rank that produced nothing); re-spawns after a
    configuration in which the implementation raised"""
    results = [None] * len(cfgs)
    start = 0
    while start < len(cfgs):
        for attempt in range(3):
            try:
                per_rank, abort_at = spawn_once(ctx, W, cfgs[start:], timeout)
                break
            except core.InfraError:
                if attempt == 2:
                    raise
                time.sleep(1.0)
        upto = len(cfgs) - start if abort_at is None else abort_at + 1
        for i in range(upto):
            results[start + i] = [rs[i] if i < len(rs) else None for rs in per_rank]
        ctx.count("gloo-spawns")
        start += upto
    return results


# ----------------------------------------------------------------------------- observation → model
def std_of(cfg):
    if cfg["variant"].startswith("perlayer"):
        return cfg["sigma"] * math.sqrt(sum(c * c for c in cfg["C"]))
    return cfg["sigma"] * cfg["C"]


def noise_values(cfg, res):
    """value the patched torch.normal returned (would return) on each rank for each parameter in
    each step; a rank that did not draw gets a sentinel the model must not use"""
    W, dims = cfg["W"], cfg["dims"]
    out = []
    for t in range(len(cfg["steps"])):
        row = []
        for r in range(W):
            rr = res[r]
            calls = []
            if rr is not None and t < len(rr.get("steps", [])):
                calls = rr["steps"][t].get("noise_calls") or []
            for p in range(2):
                v = [c[3] for c in calls if math.prod(c[1]) == dims[p]]
                row.append(v[0] if v else 7000.0 + 10 * r + p)
        out.append(row)
    return out


def single_noise_values(cfg, single):
    out = []
    for t in range(len(cfg["steps"])):
        calls = single["steps"][t].get("noise_calls") or [] if t < len(single.get("steps", [])) else []
        row = []
        for p in range(2):
            v = [c[3] for c in calls if math.prod(c[1]) == cfg["dims"][p]]
            row.append(v[0] if v else 7900.0 + p)
        out.append(row)
    return out


def driver_line(cfg, res, single, variant):
    W, dims = cfg["W"], cfg["dims"]
    hook = cfg["variant"] == "perlayer_hooks"
    per_layer = cfg["variant"].startswith("perlayer")
    Cs = cfg["C"] if per_layer else [cfg["C"], cfg["C"]]
    toks = ["run", "H" if hook else "A", cfg["reduction"],
            "1" if variant.get("hooks-empty") == "repaired" else "0",
            "1" if variant.get("hooks-scale") == "repaired" else "0",
            str(W), "2", str(dims[0]), str(dims[1]),
            f2h(cfg["E"]), f2h(1.0), f2h(cfg["lr"]), f2h(std_of(cfg)), "1" if cfg["sigma"] != 0 else "0",
            "perlayer" if per_layer else "flat", f2h(Cs[0]), f2h(Cs[1])]
    for r in range(W):
        toks += [f2h(v) for part in cfg["init"][r] for v in part]
    toks.append(str(len(cfg["steps"])))
    nz, nzs = noise_values(cfg, res), single_noise_values(cfg, single)
    for t, shards in enumerate(cfg["steps"]):
        for r in range(W):
            toks.append(str(len(shards[r])))
            for i in shards[r]:
                toks += [f2h(v) for v in cfg["rows"][i]]
        toks += [f2h(v) for v in nz[t]] + [f2h(v) for v in nzs[t]]
    return " ".join(toks)


def parse_reply(cfg, rep):
    if rep.startswith("bad"):
        return None
    head, init, steps, union, draws, ebs = rep.split("|")
    W, D, T = cfg["W"], sum(cfg["dims"]), len(cfg["steps"])
    fl = lambda s: [h2f(x) for x in s.split()]
    init, steps, union = fl(init), fl(steps), fl(union)
    m = {"err": None, "ebs": [h2f(x) for x in ebs.split()]}
    if head != "ok":
        w = head.split()
        m["err"] = (int(w[1]), sorted(int(x) for x in w[2:]))
    m["init"] = [init[r * D : (r + 1) * D] for r in range(W)]
    nst = len(steps) // (2 * D * W) if W else 0
    m["steps"] = [[(steps[(t * W + r) * 2 * D : (t * W + r) * 2 * D + D], steps[(t * W + r) * 2 * D + D : (t * W + r + 1) * 2 * D]) for r in range(W)] for t in range(nst)]
    m["union"] = [(union[t * 2 * D : t * 2 * D + D], union[t * 2 * D + D : (t + 1) * 2 * D]) for t in range(T)]
    dr, toks, k = [], draws.split(), 0
    while k < len(toks):
        n = int(toks[k]); k += 1
        one = []
        for _ in range(n):
            one.append((int(toks[k]), int(toks[k + 1]), h2f(toks[k + 2])))
            k += 3
        dr.append(sorted(one))
    m["draws"] = dr
    return m


def flat2(parts):
    return None if parts is None or any(p is None for p in parts) else [v for p in parts for v in p]


def vec_eq(a, b, exact):
    if a is None or b is None or len(a) != len(b):
        return False
    if exact:
        return all(x == y for x, y in zip(a, b))
    return all(core.close(x, y, 1e-9, 1e-11) for x, y in zip(a, b))


def is_exact(cfg):
    C = cfg["C"] if isinstance(cfg["C"], list) else [cfg["C"]]
    if cfg["variant"] == "perlayer_hooks" and cfg["W"] not in (1, 2, 4):
        return False  # torch DDP divides by W
    return cfg["reduction"] == "sum" and all(c >= 1e9 for c in C) and cfg["sigma"] in (0.0, 0.5, 1.0, 2.0)


def impl_error(res):
    """(step, sorted ranks) of the genuine implementation exception, or None"""
    hit = {}
    for r, rr in enumerate(res):
        if rr is None:
            continue
        if "error" in rr:
            hit.setdefault(-1, []).append((r, rr["error"]))
        for t, st in enumerate(rr.get("steps", [])):
            if "error" in st and "Connection closed by peer" not in st["error"] and "Connection reset" not in st["error"] and "timed out" not in st["error"].lower():
                hit.setdefault(t, []).append((r, st["error"]))
    if not hit:
        return None
    t = min(hit)
    return t, sorted(r for r, _ in hit[t]), hit[t][0][1]


def draws_of(cfg, res, t):
    out = []
    for r, rr in enumerate(res):
        if rr is None or t >= len(rr.get("steps", [])):
            continue
        for c in rr["steps"][t].get("noise_calls") or []:
            p = [q for q in range(2) if math.prod(c[1]) == cfg["dims"][q]]
            out.append((r, p[0] if p else -1, c[0]))
    return sorted(out)


def compare_with_model(cfg, res, single, m):
    """list of differences between implementation (distributed + single) and model"""
    diffs = []
    if m is None:
        return ["driver replied bad-op"]
    exact = is_exact(cfg)
    W = cfg["W"]
    ie = impl_error(res)
    if (m["err"] is None) != (ie is None):
        diffs.append(f"error: impl {ie} model {m['err']}")
    elif ie is not None:
        if (ie[0], ie[1]) != tuple(m["err"]) or EMPTY_MSG not in ie[2]:
            diffs.append(f"error: impl {ie} model {m['err']}")
    want_cls = {"flat": "DistributedDPOptimizer", "ghost": "DistributedDPOptimizerFastGradientClipping",
                "perlayer_simple": "SimpleDistributedPerLayerOptimizer", "perlayer_hooks": "DistributedPerLayerOptimizer"}[cfg["variant"]]
    for r in range(W):
        if res[r] is None or "params_after_wrap" not in res[r]:
            diffs.append(f"rank {r}: no construction result")
            continue
        if res[r].get("optimizer_class") != want_cls:
            diffs.append(f"rank {r}: optimizer class {res[r].get('optimizer_class')} expected {want_cls}")
        if res[r].get("expected_batch_size") != m["ebs"][0]:
            diffs.append(f"rank {r}: optimizer.expected_batch_size impl {res[r].get('expected_batch_size')} model {m['ebs'][0]}")
        if not vec_eq(flat2(res[r]["params_after_wrap"]), m["init"][r], True):
            diffs.append(f"rank {r}: params after wrap impl {res[r]['params_after_wrap']} model {m['init'][r]}")
    nst = len(m["steps"])
    for t in range(nst):
        for r in range(W):
            st = res[r]["steps"][t] if res[r] is not None and t < len(res[r].get("steps", [])) else {}
            g, p = flat2(st.get("grad")), flat2(st.get("params"))
            if not vec_eq(g, m["steps"][t][r][0], exact):
                diffs.append(f"step {t} rank {r}: grad impl {g} model {m['steps'][t][r][0]}")
            if not vec_eq(p, m["steps"][t][r][1], exact):
                diffs.append(f"step {t} rank {r}: params impl {p} model {m['steps'][t][r][1]}")
        di, dm = draws_of(cfg, res, t), m["draws"][t]
        if [(a, b) for a, b, _ in di] != [(a, b) for a, b, _ in dm] or any(not core.close(x[2], y[2], 1e-6) for x, y in zip(di, dm)):
            diffs.append(f"step {t}: noise requests impl {di} model {dm}")
    # single-process engine on the union batch vs the model's union run
    if "error" in single:
        diffs.append(f"single-process construction raised {single['error']}")
    elif single.get("expected_batch_size") != m["ebs"][1]:
        diffs.append(f"single-process optimizer.expected_batch_size impl {single.get('expected_batch_size')} model {m['ebs'][1]}")
    for t in range(len(cfg["steps"])):
        st = single["steps"][t] if t < len(single.get("steps", [])) else {}
        if not vec_eq(flat2(st.get("grad")), m["union"][t][0], exact) or not vec_eq(flat2(st.get("params")), m["union"][t][1], exact):
            diffs.append(f"single step {t}: impl grad {st.get('grad')} params {st.get('params')} err {st.get('error')} model {m['union'][t]}")
    return diffs


# ----------------------------------------------------------------------------- property oracle (real code only)
def property_oracle(cfg, res, single):
    """C18 on the real code: None, or (key, what, replay-extra)"""
    W, v, red = cfg["W"], cfg["variant"], cfg["reduction"]
    base = f"{v}:{red}"
    ie = impl_error(res)
    if ie is not None:
        t, ranks, msg = ie
        empt = t >= 0 and all(len(cfg["steps"][t][r]) == 0 for r in ranks)
        if v == "perlayer_hooks" and empt and EMPTY_MSG in msg:
            return (KEY_EMPTY, f"DistributedPerLayerOptimizer raises on rank(s) {ranks} holding an empty shard at step {t} ({msg[:90]}); single-process run on the union batch is fine", {"observed_error": msg})
        return (f"C18:dist-raises:{base}", f"distributed step raises on rank(s) {ranks} at step {t}: {msg[:120]}", {"observed_error": msg})
    if "error" in single or any("error" in st for st in single.get("steps", [])):
        return None  # the single-process reference itself fails: not a distributed-vs-single statement
    # broadcast
    for r in range(W):
        if res[r] is None:
            return (f"C18:no-result:{base}", f"rank {r} produced no result", {})
        if flat2(res[r]["params_after_wrap"]) != flat2(res[0]["params_before_wrap"]):
            return (f"C18:broadcast:{base}", f"after wrapping rank {r} holds {res[r]['params_after_wrap']}, rank 0 started from {res[0]['params_before_wrap']}", {})
        if res[r].get("frozen_after_wrap") not in (None, 1.0):
            return (f"C18:broadcast:frozen-parameter:{base}", f"after wrapping rank {r} holds the frozen parameter value {res[r]['frozen_after_wrap']}, rank 0's is 1.0: frozen parameters are not synchronised", {})
    # accounting: every worker (and the single-process run) records one step per logical step at the
    # sigma in force and sample rate q·k (k = 1 accumulated batch here; the loader has 3 batches ⇒ q = 1/3)
    T = len(cfg["steps"])
    for who, rr in [(f"rank {r}", res[r]) for r in range(W)] + [("single process", single)]:
        h = rr.get("history")
        if h is None:
            continue
        ok = (len(h) == 1 and h[0][0] == cfg["sigma"] and core.close(h[0][1], 1.0 / 3.0, 1e-12) and h[0][2] == T)
        if not ok:
            return (f"C18:accounting:{base}", f"{who}: accountant history after {T} steps at sigma={cfg['sigma']}, q=1/3 is {h}", {"history": h})
    ratio_hits = 0
    bad = None
    for t in range(len(cfg["steps"])):
        sg, sp = flat2(single["steps"][t]["grad"]), flat2(single["steps"][t]["params"])
        # noise: exactly one request per parameter in the whole group (none if sigma == 0), std = sigma*C
        d = draws_of(cfg, res, t)
        want = [0, 1] if cfg["sigma"] != 0 else []
        if sorted(p for _, p, _ in d) != want or any(not core.close(s, std_of(cfg), 1e-6) for _, _, s in d):
            return (f"C18:noise-count:{base}", f"step {t}: noise requests (rank, param, std) across the group = {d}; expected one per parameter with std {std_of(cfg)}", {"draws": d})
        for r in range(W):
            g, p = flat2(res[r]["steps"][t]["grad"]), flat2(res[r]["steps"][t]["params"])
            if r > 0 and (g != flat2(res[0]["steps"][t]["grad"]) or p != flat2(res[0]["steps"][t]["params"])):
                return (f"C18:ranks-differ:{base}", f"step {t}: rank {r} grad/params {g}/{p} differ from rank 0", {})
            if not vec_eq(g, sg, False) or not vec_eq(p, sp, False):
                if bad is None:
                    bad = (t, r, g, sg, p, sp)
                if v == "perlayer_hooks" and vec_eq(g, [2.0 / W * x for x in sg], False):
                    ratio_hits += 1
    if bad is None:
        return None
    t, r, g, sg, p, sp = bad
    extra = {"step": t, "rank": r, "distributed_grad": g, "single_process_grad": sg, "distributed_params": p, "single_process_params": sp}
    if v == "perlayer_hooks" and ratio_hits == len(cfg["steps"]) * W:
        return (KEY_SCALE, f"DistributedPerLayerOptimizer + torch DDP with W={W}: every rank's gradient is 2/W times the single-process release (step {t}: {g} vs {sg})", extra)
    return (f"C18:dist-ne-single:{base}", f"W={W} step {t} rank {r}: distributed grad {g} / params {p}, single-process on the union batch {sg} / {sp}", extra)


# ----------------------------------------------------------------------------- run
def nontrivial(cfg):
    if cfg["W"] < 2 or not any(sum(1 for s in st if s) >= 2 for st in cfg["steps"]):
        return False
    C = cfg["C"] if isinstance(cfg["C"], list) else [cfg["C"]]
    return cfg["sigma"] > 0 or min(C) < 1e8


def case_key(cfg):
    C = cfg["C"] if isinstance(cfg["C"], list) else [cfg["C"]]
    return (cfg["variant"], cfg["path"], cfg["wrap"] or "-", cfg["reduction"], cfg["W"], cfg["E"],
            tuple(tuple(len(s) for s in st) for st in cfg["steps"]), min(C) < 1e8, cfg["sigma"] > 0)


def check_group_sanity(cfg, res):
    """a rank without a usable result although no rank reported an implementation exception is an
    infrastructure problem (killed worker, broken connection), never a verdict"""
    if impl_error(res) is not None:
        return
    for r, rr in enumerate(res):
        if rr is None or "params_after_wrap" not in rr or len(rr.get("steps", [])) != len(cfg["steps"]) or any("grad" not in st for st in rr["steps"]):
            raise core.InfraError(f"config {cfg['id']} W={cfg['W']}: rank {r} has no complete result and no rank reported an implementation error: {str(rr)[:300]}")


def run_all(ctx, cfgs_by_W):
    """[(cfg, per-rank results, single-process result)] for all configs, one gloo group per W"""
    out = []
    for W in sorted(cfgs_by_W):
        cfgs = cfgs_by_W[W]
        if not cfgs:
            continue
        t0 = time.time()
        results = run_group(ctx, W, cfgs)
        ctx.log(f"gloo W={W}: {len(cfgs)} configurations in {time.time()-t0:.1f}s")
        for cfg, res in zip(cfgs, results):
            check_group_sanity(cfg, res)
            out.append((cfg, res, wk.run_single(cfg)))
    return out


def check_against_model(ctx, todo, variant):
    t0 = time.time()
    avg_cfgs = [(c, r) for c, r, _ in todo if impl_error(r) is None]
    avg_lines = ["avg " + " ".join([str(c["W"]), "2", str(c["dims"][0]), str(c["dims"][1])] + [f2h(v) for rk in range(c["W"]) for part in c["init"][rk] for v in part]) for c, _ in avg_cfgs]
    replies = ctx.lean_driver("C18", [driver_line(c, r, s_, variant) for c, r, s_ in todo] + avg_lines)
    ctx.log(f"lean driver: {len(todo) + len(avg_lines)} requests in {time.time()-t0:.1f}s")
    for (cfg, res), rep in zip(avg_cfgs, replies[len(todo):]):
        D, W = sum(cfg["dims"]), cfg["W"]
        mv = [h2f(x) for x in rep.split()] if not rep.startswith("bad") else []
        ok = len(mv) == W * D and all(vec_eq(flat2(res[r].get("avg_probe")), mv[r * D : (r + 1) * D], False) for r in range(W))
        ctx.count("average_gradients-probe")
        if not ok:
            impl = [res[r].get("avg_probe") or res[r].get("avg_probe_error") for r in range(W)]
            mean = [sum(v) / W for v in zip(*[[x for part in cfg["init"][r] for x in part] for r in range(W)])]
            bad = [r for r in range(W) if not vec_eq(flat2(res[r].get("avg_probe")), mean, False)]
            ctx.mismatch("average_gradients", {"W": W, "dims": cfg["dims"], "init": cfg["init"]}, impl, rep[:300],
                         oracle=lambda c, bad=bad, impl=impl, mean=mean: (f"C18:average_gradients:W={W}", f"average_gradients leaves {impl} on the ranks, the mean over workers is {mean}", {"ranks_off": bad}) if bad else None)
    replies = replies[: len(todo)]
    for (cfg, res, single), rep in zip(todo, replies):
        m = parse_reply(cfg, rep)
        diffs = compare_with_model(cfg, res, single, m)
        ctx.case(case_key(cfg), nontrivial=nontrivial(cfg), sample={k: cfg[k] for k in ("variant", "path", "wrap", "reduction", "W", "E", "C", "sigma", "steps")},
                 kind=f"{cfg['variant']}/{cfg['reduction']}/W={cfg['W']}")
        ctx.count("shards:empty", sum(1 for st in cfg["steps"] for s in st if not s))
        ctx.count("shards:nonempty", sum(1 for st in cfg["steps"] for s in st if s))
        ctx.count("exact" if is_exact(cfg) else "tolerance")
        orc = property_oracle(cfg, res, single)
        if not diffs:
            ctx.validated()
            if orc is not None:  # model and code agree, and the code (as modelled) violates the property
                ctx.property_failure(orc[0], orc[1], dict(orc[2], failing_input=cfg))
        else:
            ctx.log(f"model/implementation mismatch at {cfg['id']} ({cfg['variant']}/{cfg['reduction']}/W={cfg['W']}):", "; ".join(diffs[:3])[:700])
            ctx.mismatch("dist-step", cfg, {"diffs": diffs[:6]}, rep[:400], oracle=lambda c, o=orc: o)


def plan_configs(ctx):
    """configs per world size.  Layout of a group: [Lean witness for that W] + generated configs
    (DistributedPerLayerOptimizer never with an empty shard here: as coded it raises and takes the
    whole process group down) + at the very end the hook-variant configs WITH empty shards."""
    by_W, idx = {}, 0
    if ctx.thorough:
        plan = []
        for W in (1, 2, 3, 4):
            plan += [(W, None)] * {1: 10, 2: 110, 3: 110, 4: 80}[W]
    else:
        plan = [(2, v) for v in ("flat", "ghost", "perlayer_simple", "perlayer_hooks", "flat", "ghost", "perlayer_simple", "perlayer_hooks", None, None)]
        plan += [(3, v) for v in ("flat", "perlayer_hooks", "ghost", "perlayer_simple")]
    by_W[3] = [witness_scale(3)]
    for W, v in plan:
        idx += 1
        cfg = gen_config(ctx.rng, W, variant=v, idx=idx)
        if cfg["variant"] == "perlayer_hooks":
            cfg = gen_config(ctx.rng, W, variant="perlayer_hooks", allow_empty=False, idx=idx)
        by_W.setdefault(W, []).append(cfg)
    # every run has: mean reduction with an empty shard (flat and simple per-layer), and virtual steps under ghost
    # clipping and the flat optimizer with shards of two and more samples
    has_empty = lambda c: any(not sh for st in c["steps"] for sh in st)          # noqa: E731
    big = lambda c: any(len(sh) >= 2 for st in c["steps"] for sh in st[1:])      # noqa: E731
    for W, v, kw, pred in ((3, "flat", {"reduction": "mean", "wrap": None}, has_empty),
                           (2, "perlayer_simple", {"reduction": "mean", "path": "direct", "wrap": None}, has_empty),
                           (2, "ghost", {"micro": 2, "closure": False}, big),
                           (3, "flat", {"micro": 2, "closure": False, "wrap": None}, big)):
        idx += 1
        by_W.setdefault(W, []).append(gen_until(ctx.rng, pred, W, variant=v, idx=idx, **kw))
    tail = {2: [witness_empty()]}
    for W in ((2, 3, 4) if ctx.thorough else (3,)):
        for _ in range(20):
            idx += 1
            cfg = gen_config(ctx.rng, W, variant="perlayer_hooks", allow_empty=True, idx=idx)
            if any(not s for st in cfg["steps"] for s in st):
                tail.setdefault(W, []).append(cfg)
                break
    for W, cs in tail.items():
        by_W.setdefault(W, []).extend(cs)
    return by_W


def run(ctx):
    todo = run_all(ctx, plan_configs(ctx))
    # which behaviour does this tree implement at the two known departures?  (= replay of the
    # Lean witnesses `hooks_step_counterexample` / `hooks_empty_shard_counterexample`)
    variant = {}
    for cfg, res, single in todo:
        if cfg["id"] == "w-scale":
            variant["hooks-scale"] = "repaired" if property_oracle(cfg, res, single) is None else "asCoded"
        if cfg["id"] == "w-empty":
            variant["hooks-empty"] = "repaired" if property_oracle(cfg, res, single) is None else "asCoded"
    ctx.variant.update(variant)
    ctx.log("variants implemented by this tree:", variant)
    check_against_model(ctx, todo, variant)


def replay(ctx, rp):
    cfg = rp.get("failing_input") or rp.get("case")
    res = run_group(ctx, cfg["W"], [cfg])[0]
    o = property_oracle(cfg, res, wk.run_single(cfg))
    if o:
        print("REPRODUCED:", o[0], o[1])
        ctx.violations.append(o[0])
    else:
        print("not reproduced on this tree")
