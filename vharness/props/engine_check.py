"""Shared correspondence driver for the protocol machine (C04, C05, C10, C11): runs op sequences on
the real objects (engine_rig.RealEngine) and on the Lean model (Drivers/Engine.lean) and compares
the canonical per-op lines textually."""
from __future__ import annotations

from . import engine_rig as E

NOISE_OPS = ("sigma", "clip")


def gen_ops(rng, cfg, max_len, sig_vals=(1.5, 0.5, 2.0, 0.0), clip_vals=(2.0, 4.0, 8.0), allow_setters=True):
    """random op sequence: a noisy version of the canonical training loop, so that both the
    well-trodden and the off-road states of the protocol are reached"""
    kind = cfg[0]
    ops = []
    n = rng.randint(1, max_len)
    style = rng.random()
    while len(ops) < n:
        r = rng.random()
        if style < 0.45:   # mostly the canonical loop with a few deviations
            if r < 0.15:
                ops.append(_rand_op(rng, kind, sig_vals, clip_vals, allow_setters))
            else:
                k = rng.choice([1, 1, 2, 3])
                for i in range(k):
                    if rng.random() < 0.9:
                        ops.append(("sig", int(i < k - 1)))
                    ops.append(("fwdbwd", rng.choice([0, 1, 1, 2, 3])))
                    if rng.random() < 0.93:
                        ops.append(("step",))
                    if rng.random() < 0.9:
                        ops.append(("ozg",) if rng.random() < 0.85 else ("mzg",))
        else:
            ops.append(_rand_op(rng, kind, sig_vals, clip_vals, allow_setters))
    return ops[: max_len + 6]


def _rand_op(rng, kind, sig_vals, clip_vals, allow_setters):
    r = rng.random()
    if r < 0.27:
        return ("fwdbwd", rng.choice([0, 1, 1, 2, 3]))
    if r < 0.55:
        return ("step",)
    if r < 0.70:
        return ("ozg",)
    if r < 0.78:
        return ("mzg",)
    if r < 0.92 or not allow_setters:
        return ("sig", rng.choice([0, 1]))
    if r < 0.97 or kind == "ghost":
        return ("sigma", E.bits(rng.choice(sig_vals)))
    return ("clip", E.bits(rng.choice(clip_vals)))


def ghost_hazard(ops):
    """index of a ghost `step` that follows a *skipped* `step` with no backward / zero_grad in
    between (the D10 pattern), else None – decided syntactically on the op list + skip queue"""
    queue, armed_skipped = [], False
    for i, op in enumerate(ops):
        if op[0] == "sig":
            queue.append(bool(op[1]))
        elif op[0] in ("fwdbwd", "ozg", "mzg"):
            armed_skipped = False
        elif op[0] == "step":
            skip = queue.pop(0) if queue else False
            if armed_skipped:
                return i
            armed_skipped = True  # p.grad has now been accumulated once (whether or not it was released the flag guards)
    return None


def normalise_ops(cfg, ops):
    """Modelling limit (DESIGN §6 D23, not privacy-relevant): when the "Poisson sampling is not
    compatible with grad accumulation" error is raised inside the backward hook, the module is left
    with a stale `max_batch_len`; the next backward then pads / mis-shapes its grad_sample unless its
    batch has the same size.  The protocol machine does not model tensor shapes, so the batch
    following such an error is given the size of the failing one (after which the stale attribute is
    gone again)."""
    if cfg[0] != "std" or cfg[1]:
        return ops
    out, pend, stale = [], False, None
    for op in ops:
        if op[0] == "fwdbwd":
            n = stale if stale is not None else op[1]
            stale = n if pend else None
            pend = True
            out.append(("fwdbwd", n))
        else:
            if op[0] in ("ozg", "mzg"):
                pend = False
            out.append(op)
    return out


def compare(ctx, cases, on_case=None):
    """cases: list of (cfg, ops). Returns list of (cfg, ops, real_lines, model_lines, first_diff_index)."""
    cases = [(c[0], normalise_ops(c[0], c[1]), (c[2] if len(c) > 2 else {})) for c in cases]
    lines, spans = [], []
    for cfg, ops, _kw in cases:
        ml = E.model_lines(cfg, ops)
        spans.append((len(lines), len(lines) + len(ml)))
        lines += ml
    replies = ctx.lean_driver("Engine", lines)
    bad = []
    for (cfg, ops, kw), (a, b) in zip(cases, spans):
        model = [E.canon_model_line(x) for x in replies[a:b]]
        try:
            real = E.run_real(cfg, ops, **kw)
        except AssertionError as e:   # the token decoding itself failed: non-integer release etc.
            real = [f"harness-assertion: {e}"]
        diff = next((i for i, (r, m) in enumerate(zip(real, model)) if r != m), None)
        if diff is None and len(real) != len(model):
            diff = min(len(real), len(model))
        if on_case:
            on_case(cfg, ops, real, model, diff)
        if diff is not None:
            bad.append((cfg, ops, real, model, diff))
    return bad


def parse_line(line):
    d = {}
    for part in line.split(";"):
        k, _, v = part.partition("=")
        d[k] = v
    d["events"] = d.get("ev", "").split()
    return d


def released_tokens(lines):
    """list of released token lists (with multiplicity) from real canonical lines"""
    out = []
    for l in lines:
        for e in parse_line(l)["events"]:
            if e.startswith("I:"):
                out.append([int(t) for t in e[2:].split(",") if t != ""])
    return out
