"""Translator tie for the accountants' ledger (C05, C12): the bodies of `RDPAccountant.step`, `PRVAccountant.step` and
`GaussianAccountant.step` → lean/OpacusLean/Generated/AcctStep.lean, as pure functions on the history list
(`self.history` threaded through as `h`, oldest entry first; `none` = the method raises).

Subset: `if c: … else: …`; `(a, b, c) = self.history.pop()` / `= self.history[-1]` (a `match` on `h.getLast?`, with
`h.dropLast` for `pop`); `self.history.append((x, y, z))`; `self.history = [(x, y, z), …]`; `raise …`; `return`; locals bound to an entry tuple or an entry component;
conditions `len(self.history) >= 1` / `> 0`, `self.history`, `not …`, `==` / `!=` between names, `and` / `or`;
entries built from names, small int literals and `+`.  Python `==` on floats is rendered as `=` (NaN is outside the model).
`Props/C05.lean` proves the generated functions equal to the engine model's `rleStep` / `gdpStep`, `Props/C12.lean` to
`Rdp.step` / `Rdp.gdpStep`.
"""
from __future__ import annotations

import ast
from pathlib import Path

from .. import core
from ..pytrans import Untranslatable, find_function

GEN_FILE = core.LEAN / "OpacusLean" / "Generated" / "AcctStep.lean"
HIST = "self.history"


def is_hist(n):
    return ast.unparse(n) == HIST


class Step:
    def __init__(self, params):
        self.names = set(params)
        self.tuples = {}            # local name -> the tuple expression it was bound to (substituted where it is used)

    def expr(self, n):
        if isinstance(n, ast.Name) and n.id in self.names:
            return n.id
        if isinstance(n, ast.Constant) and isinstance(n.value, int) and not isinstance(n.value, bool) and n.value >= 0:
            return str(n.value)
        if isinstance(n, ast.BinOp) and isinstance(n.op, ast.Add):
            return f"({self.expr(n.left)} + {self.expr(n.right)})"
        raise Untranslatable("entry expression " + ast.unparse(n)[:80])

    def entry(self, n):
        if isinstance(n, ast.Name) and n.id in self.tuples:
            return self.tuples[n.id]
        if isinstance(n, ast.Tuple) and len(n.elts) == 3:
            return "(" + ", ".join(self.expr(e) for e in n.elts) + ")"
        raise Untranslatable("history entry " + ast.unparse(n)[:80])

    def cond(self, n):
        if is_hist(n):
            return "h.length ≥ 1"
        if isinstance(n, ast.UnaryOp) and isinstance(n.op, ast.Not):
            return f"¬ ({self.cond(n.operand)})"
        if isinstance(n, ast.BoolOp):
            op = " ∧ " if isinstance(n.op, ast.And) else " ∨ "
            return "(" + op.join(self.cond(v) for v in n.values) + ")"
        if isinstance(n, ast.Compare) and len(n.ops) == 1:
            l, r, op = n.left, n.comparators[0], n.ops[0]
            if ast.unparse(l) == f"len({HIST})" and isinstance(r, ast.Constant) and isinstance(r.value, int):
                sym = {ast.GtE: "≥", ast.Gt: ">", ast.Eq: "=", ast.NotEq: "≠", ast.Lt: "<", ast.LtE: "≤"}.get(type(op))
                if sym:
                    return f"h.length {sym} {r.value}"
            if isinstance(op, (ast.Eq, ast.NotEq)):
                return f"{self.expr(l)} {'=' if isinstance(op, ast.Eq) else '≠'} {self.expr(r)}"
        raise Untranslatable("condition " + ast.unparse(n)[:80])

    def block(self, stmts, ind):
        pad = "  " * ind
        stmts = [s for s in stmts if not (isinstance(s, ast.Expr) and isinstance(s.value, ast.Constant)) and not isinstance(s, ast.Pass)]
        if not stmts:
            return pad + "some h"
        s, rest = stmts[0], stmts[1:]
        if isinstance(s, ast.Raise):
            return pad + "none"
        if isinstance(s, ast.Return) and s.value is None:
            return pad + "some h"
        if isinstance(s, ast.If):
            return (f"{pad}if {self.cond(s.test)} then\n{self.block(list(s.body) + rest, ind + 1)}\n{pad}else\n{self.block(list(s.orelse) + rest, ind + 1)}")
        if isinstance(s, ast.Assign) and len(s.targets) == 1:
            t, v = s.targets[0], s.value
            if isinstance(t, ast.Name) and isinstance(v, ast.Tuple):
                self.tuples[t.id] = self.entry(v)
                return self.block(rest, ind)
            if isinstance(t, ast.Name) and t.id not in self.tuples:
                e = self.expr(v)
                self.names.add(t.id)
                return f"{pad}let {t.id} := {e}\n{self.block(rest, ind)}"
            if is_hist(t) and isinstance(v, ast.List):
                return f"{pad}let h := [{', '.join(self.entry(e) for e in v.elts)}]\n{self.block(rest, ind)}"
            if isinstance(t, ast.Tuple) and len(t.elts) == 3 and all(isinstance(e, ast.Name) for e in t.elts):
                src = ast.unparse(v)
                if src in (f"{HIST}.pop()", f"{HIST}[-1]"):
                    names = [e.id for e in t.elts]
                    self.names |= set(names)
                    drop = f"{pad}  let h := h.dropLast\n" if src.endswith("pop()") else ""
                    return (f"{pad}match h.getLast? with\n{pad}| none => none\n{pad}| some ({', '.join(names)}) =>\n{drop}{self.block(rest, ind + 1)}")
        if isinstance(s, ast.Expr) and isinstance(s.value, ast.Call) and ast.unparse(s.value.func) == f"{HIST}.append" and len(s.value.args) == 1:
            return f"{pad}let h := h ++ [{self.entry(s.value.args[0])}]\n{self.block(rest, ind)}"
        raise Untranslatable("statement " + ast.unparse(s)[:100])


def translate():
    out = ["/-! GENERATED by vharness/props/c05_trans.py from opacus/accountants/{rdp,prv,gdp}.py – do not edit. -/",
           "namespace Opacus.Generated.Acct", ""]
    for rel, cls, name in (("opacus/accountants/rdp.py", "RDPAccountant", "rdpStep"), ("opacus/accountants/prv.py", "PRVAccountant", "prvStep"),
                           ("opacus/accountants/gdp.py", "GaussianAccountant", "gdpStep")):
        fn = find_function(ast.parse((Path(core.REPO) / rel).read_text()), "step", cls=cls)
        params = [a.arg for a in fn.args.kwonlyargs] or [a.arg for a in fn.args.args[1:]]
        if params != ["noise_multiplier", "sample_rate"]:
            raise Untranslatable(f"{cls}.step parameters {params}")
        body = Step(params).block(fn.body, 1)
        out += [f"/-- `{cls}.step(noise_multiplier, sample_rate)` on `self.history = h`; `none` = raises -/",
                f"def {name} {{A : Type}} [DecidableEq A] (h : List (A × A × Nat)) (noise_multiplier sample_rate : A) : Option (List (A × A × Nat)) :=",
                body, ""]
    out.append("end Opacus.Generated.Acct")
    return "\n".join(out) + "\n"


if __name__ == "__main__":
    print(translate(), end="")
