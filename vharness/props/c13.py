"""C13 — DPLSTM / DPGRU / DPRNN are drop-in equivalents of the torch.nn recurrent layers.

Obligations (Lean, unbounded): the batched time loops of `DPRNNBase.forward_layer` (padded; packed
with shrinking batch in the forward and growing batch + `h_0[prev:cur]` rows in the reverse
direction; `h_last` gathering through `compute_seq_lengths`), stacked over layers × directions with
the sort / unsort permutations of the states, compute for every sequence exactly the per-sequence
recurrence `h_t = cell(x_t, h_{t-1})` of the torch.nn documentation — for an arbitrary cell;
`compute_seq_lengths` inverts `batch_sizes`; the `state_dict` key set / shapes equal torch's for all
(num_layers, bidirectional, bias); the cell equations with the torch gate order.

Correspondence (three-way, every run):
  DP layer  ≡ Lean model   exactly on small-integer tensors (`int` channel: relu is exact; for
                           tanh/gru/lstm the harness patches `torch.tanh/sigmoid` to integer clamps
                           and the Int instance of the model uses the same clamps, so the *structure*
                           – gate order, slicing, packing, permutations – is compared bit-for-bit),
                           and to 1e-9 on float64 tensors with the real activations;
  torch.nn  ≡ Lean spec    per sequence (exactly for relu on integers, 1e-9 otherwise);
  Lean model ≡ Lean spec   on the same inputs (what the refinement theorems state, re-observed).
Search: DP layer vs torch.nn layer on the real code – outputs, h_n, c_n and parameter gradients,
state_dict keys/shapes and loading in both directions.
"""
from __future__ import annotations

import contextlib
import itertools

import torch
import torch.nn as nn
from torch.nn.utils.rnn import PackedSequence, pack_padded_sequence, pad_packed_sequence

from .. import core, rig
from ..core import f2h, h2f

PID = "C13"
MODULES = ["OpacusLean.Props.C13"]
THEOREMS = [
    "Opacus.C13.packed_forward_dir_refines_spec",
    "Opacus.C13.packed_reverse_dir_refines_spec",
    "Opacus.C13.packed_layer_refines_spec",
    "Opacus.C13.padded_layer_refines_spec",
    "Opacus.C13.packed_refines_spec",
    "Opacus.C13.packed_refines_spec_partial",
    "Opacus.C13.packed_state_dtype_counterexample",
    "Opacus.C13.packed_sequences_refine_spec",
    "Opacus.C13.padded_refines_spec",
    "Opacus.C13.seq_lengths_roundtrip",
    "Opacus.C13.seq_lengths_reversed",
    "Opacus.C13.seq_lengths_cover",
    "Opacus.C13.unsort_sort_id",
    "Opacus.C13.state_dict_keys_eq_torch",
    "Opacus.C13.state_dict_alias_and_shape",
    "Opacus.C13.rnn_cell_equation",
    "Opacus.C13.lstm_cell_equations",
    "Opacus.C13.gru_cell_equation",
    # the tie to the source: Generated/RnnCellEqs.lean is re-translated from layers/dp_rnn.py on every run
    "Opacus.C13.generated_cells_eq_model",
    "Opacus.C13.generated_lstm_is_model_cell",
    "Opacus.C13.generated_gru_rnn_is_model_cell",
]
RULE = (
    "case = (kind in {tanh,relu,gru,lstm}, I, H, num_layers 1-3, bidirectional, bias, batch_first, padded | packed sorted | packed unsorted, "
    "B 1-4, T 1-5, per-sequence lengths, initial state given or not, channel int|float, all weights/inputs) drawn from VERIF_SEED; "
    "non-trivial iff T>=2, B>=2 and every (layer, direction) ends in a non-zero final state (each cell contributed); packed cases additionally "
    "count as 'ragged' when the lengths differ; distinct by the whole configuration tuple including the lengths"
)
TRUSTED = [
    "the translator vharness/props/c13_trans.py (symbolic per-coordinate evaluation of DPRNNCell / DPGRUCell / DPLSTMCell.forward: which chunk of torch.split feeds which gate, the activations, how state and gates are combined; row slicing for packed batches is dropped, the default zero state skipped; subset in its docstring, anything else is reported as a broken tie) is trusted to render the cell equations faithfully; the time / layer / direction loops are tied by the behavioural correspondence",
    "torch.nn.RNN/GRU/LSTM implement their documented per-sequence recurrence (checked here against the Lean spec on every generated case, not proved)",
    "gradient equality follows from function equality only through trusted autograd; gradients are compared on the real code by the search, not modelled",
    "tanh / sigmoid are opaque in the theorems; the float channel uses Lean's Float.tanh / Float.exp (libm) against torch's kernels to 1e-9",
]
PARTIAL = [
    "dropout > 0 in TRAINING mode (applied by the DP layer to the recurrent state too; random masks are not comparable) and proj_size > 0 are outside the property and not modelled; dropout > 0 in eval mode is compared with torch.nn by the search",
    "dtype/device of the returned states is not modelled (Lean scalars are exact); the packed path allocates h_n/c_n with the default dtype (finding C13:packed:state-dtype), checked by a dedicated probe on the real code",
]

KINDS = {"tanh": 1, "relu": 1, "gru": 3, "lstm": 4}
TOL = 1e-9


# --------------------------------------------------------------------------- real layers
def torch_cls(kind):
    return {"tanh": nn.RNN, "relu": nn.RNN, "gru": nn.GRU, "lstm": nn.LSTM}[kind]


def dp_cls(kind):
    from opacus.layers import DPGRU, DPLSTM, DPRNN

    return {"tanh": DPRNN, "relu": DPRNN, "gru": DPGRU, "lstm": DPLSTM}[kind]


def layer_kwargs(c):
    kw = dict(num_layers=c["L"], bidirectional=bool(c["bidir"]), bias=bool(c["bias"]), batch_first=bool(c["bf"]))
    if c["kind"] in ("tanh", "relu"):
        kw["nonlinearity"] = c["kind"]
    if c.get("dropout"):
        kw["dropout"] = c["dropout"]      # compared in eval mode only (see oracle): there dropout is the identity
    return kw


def torch_keys(c):
    out = []
    for l in range(c["L"]):
        for d in range(2 if c["bidir"] else 1):
            suf = f"l{l}" + ("_reverse" if d else "")
            out += [f"weight_ih_{suf}", f"weight_hh_{suf}"]
            if c["bias"]:
                out += [f"bias_ih_{suf}", f"bias_hh_{suf}"]
    return out


def param_shapes(c):
    G, H, I, P = KINDS[c["kind"]], c["H"], c["I"], 2 if c["bidir"] else 1
    shp = {}
    for k in torch_keys(c):
        l = int(k.split("_l")[1].split("_")[0])
        if k.startswith("weight_ih"):
            shp[k] = (G * H, I if l == 0 else P * H)
        elif k.startswith("weight_hh"):
            shp[k] = (G * H, H)
        else:
            shp[k] = (G * H,)
    return shp


@contextlib.contextmanager
def int_activations(on):
    """the `int` channel: integer-preserving stand-ins for tanh / sigmoid inside the DP cells"""
    if not on:
        yield
        return
    old = torch.tanh, torch.sigmoid
    torch.tanh = lambda x: x.clamp(-2, 2)
    torch.sigmoid = lambda x: x.clamp(0, 1)
    try:
        yield
    finally:
        torch.tanh, torch.sigmoid = old


def build(c):
    """torch layer with the case's weights, DP layer loaded from its state_dict (the property's set-up)"""
    t = torch_cls(c["kind"])(c["I"], c["H"], **layer_kwargs(c)).double()
    shp = param_shapes(c)
    sd = {k: torch.tensor(v, dtype=torch.float64).reshape(shp[k]) for k, v in zip(torch_keys(c), c["W"])}
    t.load_state_dict(sd)
    d = dp_cls(c["kind"])(c["I"], c["H"], **layer_kwargs(c)).double()
    d.load_state_dict(t.state_dict())
    if c.get("dropout"):
        t.eval()
        d.eval()
    return t, d


def make_input(c):
    B, T, I = c["B"], c["T"], c["I"]
    x = torch.tensor(c["x"], dtype=torch.float64).reshape((B, T, I) if c["bf"] else (T, B, I))
    if c["inp"] == "pad":
        xin = x
    else:
        xin = pack_padded_sequence(x, c["lens"], batch_first=bool(c["bf"]), enforce_sorted=(c["inp"] == "pack_sorted"))
    st = None
    if c["init"]:
        LP = c["L"] * (2 if c["bidir"] else 1)
        h0 = torch.tensor(c["h0"], dtype=torch.float64).reshape(LP, B, c["H"])
        st = h0
        if c["kind"] == "lstm":
            st = (h0, torch.tensor(c["c0"], dtype=torch.float64).reshape(LP, B, c["H"]))
    return x, xin, st


def seq_lens(c):
    return list(c["lens"]) if c["inp"] != "pad" else [c["T"]] * c["B"]


def run_layer(layer, c, xin, st):
    out, hid = layer(xin, st)
    if isinstance(out, PackedSequence):
        flat = out.data
    else:
        flat = out
    if c["kind"] == "lstm":
        return flat, hid[0], hid[1], out
    return flat, hid, None, out


def fl(t):
    return [] if t is None else [float(v) for v in t.detach().reshape(-1).tolist()]


# --------------------------------------------------------------------------- generator
def gen_case(rng, mode=None, kind=None, grid=None):
    c = {}
    c["mode"] = mode or rng.choice(["int", "float"])
    c["kind"] = kind or rng.choice(["tanh", "relu", "gru", "lstm", "relu", "lstm"])
    c["I"], c["H"] = rng.randint(1, 3), rng.randint(1, 3)
    c["L"] = rng.choice([1, 2, 2, 3])
    c["bidir"], c["bias"], c["bf"] = rng.randint(0, 1), rng.randint(0, 1), rng.randint(0, 1)
    c["inp"] = rng.choice(["pad", "pack_sorted", "pack_unsorted", "pack_unsorted"])
    c["init"] = rng.randint(0, 1)
    if grid:
        c.update(grid)
    # a float64 layer run under the default dtype float32 (the dtype of the packed path's h_last buffer)
    c["dd32"] = 1 if (c["mode"] == "float" and c["inp"] != "pad" and rng.random() < 0.2) else 0
    c["B"], c["T"] = rng.randint(1, 4), rng.randint(1, 5)
    if rng.random() < 0.7:
        c["B"], c["T"] = max(c["B"], 2), max(c["T"], 2)
    B, T = c["B"], c["T"]
    if c["inp"] != "pad":
        lens = [rng.randint(1, T) for _ in range(B)]
        if rng.random() < 0.25:
            lens = [rng.choice([1, T]) for _ in range(B)]
        lens[rng.randrange(B)] = T  # the padded tensor's time extent is the longest sequence
        if c["inp"] == "pack_sorted":
            lens.sort(reverse=True)
        c["lens"] = lens
    else:
        c["lens"] = []
    P = 2 if c["bidir"] else 1
    shp = param_shapes(c)
    integer = c["mode"] == "int"

    def num(n, wide=False):
        if integer:
            # small and mostly non-zero; relu stacks grow geometrically, so keep |w| <= 1 mostly
            return [rng.choice([-1, 1, 1, 0, -1, 1, 2 if wide else 1, -2 if wide else -1]) for _ in range(n)]
        return [round(rng.uniform(-1.2, 1.2), 6) for _ in range(n)]

    c["W"] = []
    for k in torch_keys(c):
        n = 1
        for s in shp[k]:
            n *= s
        c["W"].append(num(n, wide=k.startswith("bias") or c["kind"] != "relu"))
    c["x"] = [rng.randint(-2, 3) for _ in range(B * T * c["I"])] if integer else [round(rng.uniform(-1.5, 1.5), 6) for _ in range(B * T * c["I"])]
    LP = c["L"] * P
    if c["init"]:
        c["h0"] = [rng.randint(-2, 2) for _ in range(LP * B * c["H"])] if integer else [round(rng.uniform(-1, 1), 6) for _ in range(LP * B * c["H"])]
        c["c0"] = ([rng.randint(-2, 2) for _ in range(LP * B * c["H"])] if integer else [round(rng.uniform(-1, 1), 6) for _ in range(LP * B * c["H"])]) if c["kind"] == "lstm" else []
    else:
        c["h0"], c["c0"] = [], []
    return c


def case_key(c):
    return (c["kind"], c["mode"], c["I"], c["H"], c["L"], c["bidir"], c["bias"], c["bf"], c["inp"], c["init"], c["B"], c["T"], tuple(c["lens"]))


# --------------------------------------------------------------------------- Lean lines
def enc(mode):
    if mode == "int":
        return lambda v: str(int(v))
    return f2h


def lst(vals, e):
    vals = list(vals)
    return f"{len(vals)} " + " ".join(e(v) for v in vals) if vals else "0"


def head(c):
    e = enc(c["mode"])
    w = [v for blk in c["W"] for v in blk]
    return f"{c['mode']} {c.get('cast', 'id')} {c['kind']} {c['I']} {c['H']} {c['L']} {c['bidir']} {c['bias']} {lst(w, e)}"


def init_part(c, h0=None, c0=None):
    e = enc(c["mode"])
    if not c["init"]:
        return "0"
    h0 = c["h0"] if h0 is None else h0
    c0 = c["c0"] if c0 is None else c0
    s = "1 " + lst(h0, e)
    if c["kind"] == "lstm":
        s += " " + lst(c0, e)
    return s


def fwd_line(c, xin):
    e = enc(c["mode"])
    if c["inp"] == "pad":
        d0, d1 = (c["B"], c["T"]) if c["bf"] else (c["T"], c["B"])
        body = f"pad {c['bf']} {d0} {d1} {lst(c['x'], e)}"
    else:
        si = [] if xin.sorted_indices is None else xin.sorted_indices.tolist()
        ui = [] if xin.unsorted_indices is None else xin.unsorted_indices.tolist()
        body = f"pack {lst(xin.batch_sizes.tolist(), str)} {lst(si, str)} {lst(ui, str)} {lst(fl(xin.data), e)}"
    return f"fwd {head(c)} {body} {init_part(c)}"


def spec_lines(c, x, st):
    e = enc(c["mode"])
    lines = []
    lens = seq_lens(c)
    for j in range(c["B"]):
        seq = x[j, : lens[j]] if c["bf"] else x[: lens[j], j]
        if c["init"]:
            h0 = st[0] if c["kind"] == "lstm" else st
            hj = fl(h0[:, j, :])
            cj = fl(st[1][:, j, :]) if c["kind"] == "lstm" else []
            ip = init_part(c, hj, cj)
        else:
            ip = "0"
        lines.append(f"spec {head(dict(c, cast='id'))} {lst(fl(seq), e)} {ip}")
    return lines


def parse_reply(rep, mode):
    """`ok n v… n v… [n v…]` → list of lists of floats, or None"""
    toks = rep.split()
    if not toks or toks[0] != "ok":
        return None
    out, i = [], 1
    while i < len(toks):
        n = int(toks[i])
        vals = toks[i + 1 : i + 1 + n]
        out.append([float(int(v)) for v in vals] if mode == "int" else [h2f(v) for v in vals])
        i += 1 + n
    return out


def same(a, b, exact):
    if a is None or b is None or len(a) != len(b):
        return False
    if exact:
        return all(x == y for x, y in zip(a, b))
    return all(core.close(x, y, TOL, 1e-11) for x, y in zip(a, b))


# --------------------------------------------------------------------------- property oracle (real code only)
def leafed(st):
    if st is None:
        return None, []
    ts = list(st) if isinstance(st, tuple) else [st]
    leaves = [s.detach().clone().requires_grad_(True) for s in ts]
    dep = [v * 1.0 for v in leaves]
    return (tuple(dep) if isinstance(st, tuple) else dep[0]), leaves


def oracle(c, want_grads=True):
    """The property on the real code: DP layer loaded from the torch layer's state_dict vs the torch
    layer – outputs, final states, parameter gradients, keys and shapes.  Real activations always."""
    tag = f"C13:{c['kind']}:{'padded' if c['inp'] == 'pad' else 'packed'}"
    try:
        t, d = build(c)
        if c.get("via_fix") and c["kind"] == "lstm":
            from opacus.validators import lstm as vl

            if not vl.validate(t):
                return ("C13:lstm:validator", "validators/lstm.validate(nn.LSTM) reports no error although nn.LSTM is not supported", {})
            d = vl.fix(t)
            if type(d).__name__ != "DPLSTM" or d is t:
                return ("C13:lstm:fixer", f"validators/lstm.fix returned {type(d).__name__}", {})
            if c.get("dropout"):
                d.eval()      # the fixer builds a fresh layer (training mode); the comparison is in eval mode
    except Exception as e:
        return (f"{tag}:load_state_dict", f"loading the torch state_dict into the DP layer raised {type(e).__name__}: {e}", {})
    tk, dk = list(t.state_dict().keys()), list(d.state_dict().keys())
    if set(tk) != set(dk):
        return (f"C13:{c['kind']}:state_dict-keys", f"state_dict keys differ: torch-only {sorted(set(tk) - set(dk))}, dp-only {sorted(set(dk) - set(tk))}", {})
    for k in tk:
        if tuple(t.state_dict()[k].shape) != tuple(d.state_dict()[k].shape):
            return (f"C13:{c['kind']}:state_dict-shapes", f"shape of {k}: torch {tuple(t.state_dict()[k].shape)} dp {tuple(d.state_dict()[k].shape)}", {})
    x, xin, st = make_input(c)
    # user-supplied initial states that carry an autograd graph (an encoder's final state, a previous chunk):
    # each layer gets its own leaves, their gradients are compared below
    st_t, leaves_t = leafed(st)
    st_d, leaves_d = leafed(st)
    try:
        ot, ht, ct, rawt = run_layer(t, c, xin, st_t)
    except Exception:
        return None  # configuration not supported by torch: outside the property
    try:
        od, hd, cd, rawd = run_layer(d, c, xin, st_d)
    except Exception as e:
        return (f"{tag}:exception", f"DP layer raised {type(e).__name__}: {e} where torch.nn runs", {})
    for what, a, b in (("output", ot, od), ("h_n", ht, hd), ("c_n", ct, cd)):
        if a is None:
            continue
        if tuple(a.shape) != tuple(b.shape):
            return (f"{tag}:{what}", f"{what} shape torch {tuple(a.shape)} dp {tuple(b.shape)}", {})
        if a.dtype != b.dtype:
            return (f"{tag}:{what}-dtype", f"{what} dtype torch {a.dtype} dp {b.dtype}", {})
        if not same(fl(a), fl(b), False):
            k = max(range(a.numel()), key=lambda i: abs(fl(a)[i] - fl(b)[i]))
            return (f"{tag}:{what}", f"{what} differs from torch.nn (max |Δ| = {abs(fl(a)[k]-fl(b)[k]):.3g} at flat index {k}: torch {fl(a)[k]!r} dp {fl(b)[k]!r})", {"torch": fl(a), "dp": fl(b)})
    if isinstance(rawt, PackedSequence):
        for f in ("batch_sizes", "sorted_indices", "unsorted_indices"):
            u, v = getattr(rawt, f), getattr(rawd, f)
            if (u is None) != (v is None) or (u is not None and u.tolist() != v.tolist()):
                return (f"{tag}:packed-fields", f"output PackedSequence.{f}: torch {u} dp {v}", {})
    if want_grads:
        g = torch.Generator().manual_seed(7)
        wo = torch.randn(ot.shape, generator=g, dtype=torch.float64)
        wh = torch.randn(ht.shape, generator=g, dtype=torch.float64)
        wc = torch.randn(ht.shape, generator=g, dtype=torch.float64)
        for layer, (o, h, cc) in ((t, (ot, ht, ct)), (d, (od, hd, cd))):
            layer.zero_grad()
            loss = (o * wo).sum() + (h.double() * wh).sum()
            if cc is not None:
                loss = loss + (cc.double() * wc).sum()
            loss.backward()
        for nm, a, b in zip(("h_0", "c_0"), leaves_t, leaves_d):
            if a.grad is not None and (b.grad is None or not same(fl(a.grad), fl(b.grad), False)):
                return (f"{tag}:grad-initial-state", f"gradient w.r.t. the user-supplied initial state {nm} differs from torch.nn" + (" (none reaches it: the state is treated as a constant)" if b.grad is None else ""),
                        {"torch": fl(a.grad), "dp": fl(b.grad)})
        gt = {k: p.grad for k, p in t.named_parameters()}
        gd = {k: p.grad for k, p in d.named_parameters()}
        if set(gt) != set(gd):
            return (f"C13:{c['kind']}:named_parameters", f"named_parameters differ: {sorted(set(gt) ^ set(gd))}", {})
        for k in gt:
            if gd[k] is None or not same(fl(gt[k]), fl(gd[k]), False):
                return (f"{tag}:grad", f"gradient of {k} differs from torch.nn", {"torch": fl(gt[k]), "dp": fl(gd[k])})
    # the same layer OBJECTS called again on a packed batch with the same (T, B) but another length pattern (a training loop
    # with a fixed batch size): nothing derived from the first batch may be reused
    if c["inp"] != "pad" and c["B"] >= 2 and len(set(c["lens"])) > 1:
        c2 = dict(c, lens=list(reversed(c["lens"])) if c["inp"] == "pack_unsorted" else sorted([c["T"]] + [max(1, c["T"] - 1 - (i % 2)) for i in range(c["B"] - 1)], reverse=True))
        if c2["lens"] != c["lens"]:
            _, xin2, st2 = make_input(c2)
            try:
                o2t, h2t, c2t, _ = run_layer(t, c2, xin2, st2)
            except Exception:
                o2t = None
            if o2t is not None:
                try:
                    o2d, h2d, c2d, _ = run_layer(d, c2, xin2, st2)
                except Exception as e:
                    return (f"{tag}:second-call:exception", f"second call on the same DP layer (lengths {c['lens']} then {c2['lens']}) raised {type(e).__name__}: {e}", {})
                for what, a, b in (("output", o2t, o2d), ("h_n", h2t, h2d), ("c_n", c2t, c2d)):
                    if a is not None and (tuple(a.shape) != tuple(b.shape) or not same(fl(a), fl(b), False)):
                        return (f"{tag}:second-call:{what}", f"second call on the same layer objects (lengths {c['lens']} then {c2['lens']}): {what} differs from torch.nn", {"torch": fl(a), "dp": fl(b)})
    # checkpoints move in both directions
    try:
        t2 = torch_cls(c["kind"])(c["I"], c["H"], **layer_kwargs(c)).double()
        t2.load_state_dict(d.state_dict())
        for k in tk:
            if not torch.equal(t2.state_dict()[k], t.state_dict()[k]):
                return (f"C13:{c['kind']}:roundtrip", f"torch → DP → torch changes {k}", {})
    except Exception as e:
        return (f"C13:{c['kind']}:roundtrip", f"loading the DP state_dict into torch.nn raised {type(e).__name__}: {e}", {})
    return None


def dtype_oracle(kind="lstm"):
    """float64 module and input under the default dtype float32: the packed path builds h_last/c_last
    with `torch.zeros(B, H)` (default dtype), so the final states come back rounded to float32."""
    c = {"kind": kind, "I": 2, "H": 2, "L": 1, "bidir": 0, "bias": 1, "bf": 0}
    with rig.default_dtype(torch.float32):
        g = torch.Generator().manual_seed(3)
        t = torch_cls(kind)(2, 2, **layer_kwargs(c)).double()
        d = dp_cls(kind)(2, 2, **layer_kwargs(c)).double()
        d.load_state_dict(t.state_dict())
        x = torch.randn(3, 2, 2, generator=g, dtype=torch.float64)
        p = pack_padded_sequence(x, [3, 2])
        _, ht = t(p)
        _, hd = d(p)
        ht = ht[0] if kind == "lstm" else ht
        hd = hd[0] if kind == "lstm" else hd
        err = float((ht - hd.double()).abs().max())
        if hd.dtype != ht.dtype or err > 1e-12:
            return (
                "C13:packed:state-dtype",
                f"float64 {kind} + float64 PackedSequence under default dtype float32: h_n dtype torch {ht.dtype} dp {hd.dtype}, max |Δ| = {err:.3g}",
                {"failing_input": {"dtype_probe": kind}, "torch_h_n": fl(ht), "dp_h_n": fl(hd)},
            )
    return None


# --------------------------------------------------------------------------- correspondence
def run_cases(ctx, cases):
    lines, index, real = [], [], []
    for ci, c in enumerate(cases):
        x, xin, st = make_input(c)
        f32 = bool(c.get("dd32")) and ctx.variant.get("packed-state-dtype") == "asCoded"
        c["cast"] = "f32" if f32 else "id"
        try:
            with rig.default_dtype(torch.float32 if c.get("dd32") else torch.float64):
                t, d = build(c)
                with int_activations(c["mode"] == "int"), torch.no_grad():
                    od, hd, cd, _ = run_layer(d, c, xin, st)
            want = torch.float32 if f32 else torch.float64
            if hd.dtype != want or od.dtype != torch.float64:
                raise TypeError(f"dtype of h_n {hd.dtype} (model variant says {want}), of the output {od.dtype}")
            hd = hd.double()
            cd = None if cd is None else cd.double()
        except Exception as e:  # the implementation raising is an observation, not a harness error
            ctx.count("impl-raised")
            ctx.case(case_key(c), nontrivial=True, kind=f"{c['kind']}/{c['mode']}/{c['inp']}")
            mm(ctx, "dp-layer-vs-model", dict(c), f"raised {type(e).__name__}: {str(e)[:200]}", "model: ok (well-formed input)", oracle=oracle)
            real.append(None)
            continue
        use_nn = c["mode"] == "float" or c["kind"] == "relu"
        nn_res = None
        if use_nn:
            with torch.no_grad():
                ot, ht, ct, rawt = run_layer(t, c, xin, st)
            pad_out = pad_packed_sequence(rawt, batch_first=bool(c["bf"]))[0] if isinstance(rawt, PackedSequence) else rawt
            nn_res = (pad_out, ht, ct)
        real.append((od, hd, cd, nn_res, x, xin, st))
        lines.append(fwd_line(c, xin))
        index.append((ci, "fwd"))
        for ln in spec_lines(c, x, st):
            lines.append(ln)
            index.append((ci, "spec"))
    replies = ctx.lean_driver("C13", lines)
    per = {}
    for (ci, what), rep in zip(index, replies):
        per.setdefault(ci, {"fwd": None, "spec": []})
        if what == "fwd":
            per[ci]["fwd"] = rep
        else:
            per[ci]["spec"].append(rep)
    for ci, c in enumerate(cases):
        if real[ci] is None:
            continue
        od, hd, cd, nn_res, x, xin, st = real[ci]
        exact = c["mode"] == "int"
        lstm = c["kind"] == "lstm"
        P = 2 if c["bidir"] else 1
        H, B, LP = c["H"], c["B"], c["L"] * P
        lens = seq_lens(c)
        if exact and max([abs(v) for v in fl(od) + fl(hd) + fl(cd)] + [0]) > 2.0**45:
            ctx.count("skipped:int-overflow")
            continue
        m = parse_reply(per[ci]["fwd"], c["mode"])
        impl = [fl(od), fl(hd)] + ([fl(cd)] if lstm else [])
        loose = c.get("cast") == "f32"   # float32 rounding of values that differ in the 16th digit may differ by one float32 ulp
        ok = m is not None and len(m) == len(impl) and same(impl[0], m[0], exact) and all(
            (all(core.close(u, v, 1e-6, 1e-9) for u, v in zip(a, b)) and len(a) == len(b)) if loose else same(a, b, exact) for a, b in zip(impl[1:], m[1:]))
        # model vs spec and torch.nn vs spec, per sequence
        specs = [parse_reply(r, c["mode"]) for r in per[ci]["spec"]]
        spec_ok, nn_ok = True, True
        if m is not None and all(s is not None for s in specs):
            mo = torch.tensor(m[0], dtype=torch.float64)
            if c["inp"] == "pad":
                mo = mo.reshape((B, c["T"], P * H) if c["bf"] else (c["T"], B, P * H))
            else:
                mo = pad_packed_sequence(PackedSequence(mo.reshape(-1, P * H), xin.batch_sizes, xin.sorted_indices, xin.unsorted_indices), batch_first=bool(c["bf"]))[0]
            mh = torch.tensor(m[1], dtype=torch.float64).reshape(LP, B, H)
            mc = torch.tensor(m[2], dtype=torch.float64).reshape(LP, B, H) if lstm else None
            for j, s in enumerate(specs):
                so = mo[j, : lens[j]] if c["bf"] else mo[: lens[j], j]
                cmp_state = (lambda a, b: len(a) == len(b) and all(core.close(u, v, 1e-6, 1e-9) for u, v in zip(a, b))) if loose else (lambda a, b: same(a, b, exact))
                if not (same(fl(so), s[0], exact) and cmp_state(fl(mh[:, j]), s[1]) and (not lstm or cmp_state(fl(mc[:, j]), s[2]))):
                    spec_ok = False
                if nn_res is not None:
                    po, ht, ct = nn_res
                    no = po[j, : lens[j]] if c["bf"] else po[: lens[j], j]
                    if not (same(fl(no), s[0], exact) and same(fl(ht[:, j]), s[1], exact) and (not lstm or same(fl(ct[:, j]), s[2], exact))):
                        nn_ok = False
        else:
            spec_ok = False
        live = all(any(v != 0.0 for v in fl(hd[k])) for k in range(LP))
        nontrivial = c["T"] >= 2 and c["B"] >= 2 and live
        ragged = c["inp"] != "pad" and len(set(lens)) > 1
        ctx.case(case_key(c), nontrivial=nontrivial, sample={k: c[k] for k in ("kind", "mode", "I", "H", "L", "bidir", "bias", "bf", "inp", "init", "B", "T", "lens")},
                 kind=f"{c['kind']}/{c['mode']}/{c['inp']}")
        ctx.count("branch:ragged" if ragged else "branch:rectangular")
        ctx.count(f"branch:bidir={c['bidir']},L={c['L']}")
        ctx.count(f"branch:init={c['init']},bias={c['bias']},bf={c['bf']}")
        if c.get("dd32"):
            ctx.count("branch:default-dtype-float32/cast=" + c["cast"])
        if ragged and c["bidir"] and c["init"]:
            ctx.count("branch:delta>0-with-nonzero-h0")
        if nn_res is not None:
            ctx.count("three-way:torch.nn-vs-spec")
        if ok and spec_ok and nn_ok:
            ctx.validated()
            continue
        light = {k: v for k, v in c.items()}
        if not ok:
            mm(ctx, "dp-layer-vs-model", light, impl, per[ci]["fwd"][:2000], oracle=oracle)
        elif not nn_ok:
            mm(ctx, "torch.nn-vs-spec", light, [fl(t_) for t_ in nn_res if t_ is not None], [r[:600] for r in per[ci]["spec"]], oracle=oracle,
                         note="torch.nn disagrees with the per-sequence recurrence the theorems refine to")
        else:
            mm(ctx, "model-vs-spec", light, per[ci]["fwd"][:2000], [r[:600] for r in per[ci]["spec"]], oracle=oracle,
                         note="Lean model and Lean spec disagree on this input (would contradict the refinement theorems: harness bug?)")


def names_corr(ctx):
    """state_dict keys (with order), rename map, aliasing and shapes over the whole configuration grid"""
    grid = list(itertools.product(sorted(KINDS), (1, 2, 3), (0, 1), (0, 1)))
    lines = []
    for kind, L, b, bias in grid:
        G = KINDS[kind]
        lines += [f"keys {L} {b} {bias}", f"tkeys {L} {b} {bias}", f"rename {L} {b} {bias}", f"alias {L} {b} {bias}",
                  f"shapes 3 2 {G} {L} {b} {bias}", f"tshapes 3 2 {G} {L} {b} {bias}"]
    rep = ctx.lean_driver("C13", lines)
    for gi, (kind, L, b, bias) in enumerate(grid):
        c = {"kind": kind, "I": 3, "H": 2, "L": L, "bidir": b, "bias": bias, "bf": 0}
        t = torch_cls(kind)(3, 2, **layer_kwargs(c))
        try:
            d = dp_cls(kind)(3, 2, **layer_kwargs(c))
            d.state_dict(), d.old_to_new
        except Exception as e:
            mm(ctx, "state_dict-names", {"names": [kind, L, b, bias], "differs": ["construction"]}, f"raised {type(e).__name__}: {e}", "ok", oracle=lambda cc: names_oracle(*cc["names"]))
            continue
        keys, tkeys, ren, alias, shapes, tshapes = rep[6 * gi : 6 * gi + 6]
        dsd, tsd = d.state_dict(), t.state_dict()
        impl = {
            "keys": " ".join(dsd.keys()),
            "tkeys": " ".join(tsd.keys()),
            "rename": " ".join(f"{o}={n}" for o, n in d.old_to_new.items()),
            "shapes": " ".join(f"{k}:{'x'.join(str(s) for s in v.shape)}" for k, v in dsd.items()),
            "tshapes": " ".join(f"{k}:{'x'.join(str(s) for s in v.shape)}" for k, v in tsd.items()),
        }
        # aliasing: the tensor stored under the state_dict key is the cell's own parameter
        named = dict(nn.Module.named_parameters(d, remove_duplicate=False))
        al = []
        for k, v in dsd.items():
            paths = [p for p, q in named.items() if q.data_ptr() == v.data_ptr() and p != k]
            al.append(f"{k}={paths[0] if len(paths) == 1 else '?'}")
        impl["alias"] = " ".join(al)
        model = {"keys": keys, "tkeys": tkeys, "rename": ren, "alias": alias, "shapes": shapes, "tshapes": tshapes}
        ctx.case(("names", kind, L, b, bias), nontrivial=True, kind="names")
        if impl == model:
            ctx.validated()
        else:
            bad = [k for k in impl if impl[k] != model[k]]
            mm(ctx, "state_dict-names", {"names": [kind, L, b, bias], "differs": bad}, {k: impl[k] for k in bad}, {k: model[k] for k in bad},
                         oracle=lambda cc: names_oracle(*cc["names"]))


def names_oracle(kind, L, b, bias):
    c = gen_case(__import__("random").Random(1), mode="float", kind=kind, grid={"L": L, "bidir": b, "bias": bias, "inp": "pad"})
    return oracle(c)


def csl_corr(ctx):
    """compute_seq_lengths on the real code vs the model, incl. non-monotone inputs; batch_sizes of pack_padded_sequence vs `batchSizes`"""
    from opacus.utils.packed_sequences import compute_seq_lengths

    rng = ctx.rng
    cases = []
    for _ in range(ctx.n(150, 2000)):
        n = rng.randint(1, 6)
        r = rng.random()
        if r < 0.45:
            bs = sorted((rng.randint(1, 5) for _ in range(n)), reverse=True)
        elif r < 0.7:
            bs = sorted(rng.randint(1, 5) for _ in range(n))
        else:
            bs = [rng.randint(0, 5) for _ in range(n)]
        cases.append(bs)
    lens_cases = [sorted((rng.randint(1, 6) for _ in range(rng.randint(1, 5))), reverse=True) for _ in range(ctx.n(60, 600))]
    rep = ctx.lean_driver("C13", [f"csl {lst(bs, str)}" for bs in cases] + [f"bsz {lst(l, str)}" for l in lens_cases])
    for bs, r in zip(cases, rep):
        try:
            impl = "ok " + lst([int(v) for v in compute_seq_lengths(torch.tensor(bs))], str)
        except Exception:
            impl = "err"
        mono = all(a >= b for a, b in zip(bs, bs[1:]))
        ctx.case(("csl", tuple(bs)), nontrivial=len(set(bs)) > 1, kind="csl:" + ("non-increasing" if mono else "other"))
        if impl == r:
            ctx.validated()
        else:
            mm(ctx, "compute_seq_lengths", {"batch_sizes": bs}, impl, r, oracle=csl_oracle)
    pack_lines, pack_impl = [], []
    for lens, r in zip(lens_cases, rep[len(cases):]):
        x = torch.arange(1, max(lens) * len(lens) + 1, dtype=torch.float64).reshape(max(lens), len(lens), 1)
        p = pack_padded_sequence(x, lens)
        impl = "ok " + lst(p.batch_sizes.tolist(), str)
        ctx.case(("bsz", tuple(lens)), nontrivial=len(set(lens)) > 1, kind="batch_sizes")
        if impl == r:
            ctx.validated()
        else:
            mm(ctx, "batch_sizes", {"lens": lens}, impl, r, oracle=None)
        pack_lines.append(f"pack {len(lens)} " + " ".join(lst([int(v) for v in x[:l, j, 0].tolist()], str) for j, l in enumerate(lens)))
        pack_impl.append("ok " + lst([int(v) for v in p.data.reshape(-1).tolist()], str))
    for lens, ln, impl, r in zip(lens_cases, pack_lines, pack_impl, ctx.lean_driver("C13", pack_lines)):
        ctx.case(("pack", tuple(lens)), nontrivial=len(set(lens)) > 1, kind="pack_padded_sequence")
        if impl == r:
            ctx.validated()
        else:
            mm(ctx, "packSteps", {"lens": lens}, impl, r, oracle=None)


def csl_oracle(case):
    """property-level statement for compute_seq_lengths: it inverts pack_padded_sequence's batch_sizes"""
    from opacus.utils.packed_sequences import compute_seq_lengths

    bs = case["batch_sizes"]
    if not bs or any(a < b for a, b in zip(bs, bs[1:])) or bs[-1] < 1:
        return None
    lens = [sum(1 for b in bs if b > i) for i in range(bs[0])]
    got = [int(v) for v in compute_seq_lengths(torch.tensor(bs))]
    if got != lens:
        return ("C13:compute_seq_lengths", f"compute_seq_lengths({bs}) = {got}, the lengths that pack to these batch sizes are {lens}", {})
    return None


def err_corr(ctx):
    """error branches of the model (`none` = "the code raises"): ill-formed PackedSequence fields and an
    empty time axis.  Outside the property (torch.nn rejects them too); they pin the model's `none`."""
    rng = ctx.rng
    cases = []
    for _ in range(ctx.n(16, 120)):
        c = gen_case(rng, mode="int", kind="relu", grid={"inp": "pack_sorted", "init": 0, "L": rng.choice([1, 2]), "bf": 0})
        if c["B"] < 2:
            continue
        x, xin, st = make_input(c)
        bs = xin.batch_sizes.tolist()
        data = xin.data
        what = rng.choice(["data-short", "data-long", "batch-sizes-non-monotone", "batch-sizes-non-monotone", "sorted-idx-out-of-range", "well-formed"])
        if what == "batch-sizes-non-monotone" and (len(bs) < 2 or bs[0] == bs[-1]):
            what = "data-short"
        si = ui = None
        if what == "data-short":
            data = data[:-1]
        elif what == "data-long":
            data = torch.cat([data, data[:1]])
        elif what == "batch-sizes-non-monotone":
            bs = bs[1:] + bs[:1]
        elif what == "sorted-idx-out-of-range":
            c["init"] = 1
            LP = c["L"] * (2 if c["bidir"] else 1)
            c["h0"] = [rng.randint(-2, 2) for _ in range(LP * c["B"] * c["H"])]
            x, _, st = make_input(c)
            si = list(range(c["B"]))
            si[-1] = c["B"]
            ui = list(range(c["B"]))
        cases.append((c, what, data, bs, si, ui, st))
    # empty time axis, padded
    c0 = gen_case(rng, mode="int", kind="relu", grid={"inp": "pad", "init": 0, "bf": 0, "L": 1})
    lines = []
    for c, what, data, bs, si, ui, st in cases:
        e = enc("int")
        lines.append(f"fwd {head(c)} pack {lst(bs, str)} {lst(si or [], str)} {lst(ui or [], str)} {lst(fl(data), e)} {init_part(c)}")
    lines.append(f"fwd {head(c0)} pad 0 0 {c0['B']} 0 0")
    rep = ctx.lean_driver("C13", lines)
    for (c, what, data, bs, si, ui, st), r in zip(cases, rep):
        try:
            t, d = build(c)
            p = PackedSequence(data, torch.tensor(bs), None if si is None else torch.tensor(si), None if ui is None else torch.tensor(ui))
            with torch.no_grad():
                od, hd, cd, _ = run_layer(d, c, p, st)
            impl = "ok"
            vals = [fl(od), fl(hd)]
        except Exception:
            impl, vals = "err", None
        ctx.case(("err", what, tuple(bs), c["L"], c["bidir"]), nontrivial=what != "well-formed", kind="error-branch:" + what)
        model = "err" if r == "err" else ("ok" if r.startswith("ok") else r)
        good = impl == model and (impl == "err" or all(same(a, b, True) for a, b in zip(vals, parse_reply(r, "int"))))
        if good:
            ctx.validated()
        else:
            mm(ctx, "error-branches", {"what": what, "batch_sizes": bs, "cfg": {k: c[k] for k in ("I", "H", "L", "bidir", "bias")}}, impl, r[:300], oracle=None)
    try:
        t, d = build(c0)
        with torch.no_grad():
            d(torch.zeros(0, c0["B"], c0["I"], dtype=torch.float64))
        impl = "ok"
    except Exception:
        impl = "err"
    ctx.case(("err", "T=0"), nontrivial=True, kind="error-branch:T=0")
    if impl == rep[-1]:
        ctx.validated()
    else:
        mm(ctx, "error-branches", {"what": "T=0 padded"}, impl, rep[-1][:300], oracle=None)


def mm(ctx, component, *a, **kw):
    """at most three reported correspondence breaks per component (all are counted)"""
    seen = ctx.extra.setdefault("mismatch_counts", {})
    seen[component] = seen.get(component, 0) + 1
    if seen[component] <= 3:
        ctx.mismatch(component, *a, **kw)
    else:
        ctx.count("mismatch:" + component)


def report(ctx, res, c):
    """at most two replays per failure key"""
    seen = ctx.extra.setdefault("failure_keys", {})
    seen[res[0]] = seen.get(res[0], 0) + 1
    if seen[res[0]] <= 2:
        ctx.property_failure(res[0], res[1], dict(res[2], failing_input=c))


# --------------------------------------------------------------------------- run
def grid_cases(rng, kinds):
    out = []
    for kind in kinds:
        for L, bi, bias, bf, inp, init in itertools.product((1, 2, 3), (0, 1), (0, 1), (0, 1), ("pad", "pack_sorted", "pack_unsorted"), (0, 1)):
            out.append(gen_case(rng, mode="float", kind=kind, grid={"L": L, "bidir": bi, "bias": bias, "bf": bf, "inp": inp, "init": init}))
    return out


def regenerate(ctx):
    from .. import regen
    from . import c13_trans as T
    regen.regenerate(ctx, T, "Opacus.Generated.RnnCells", "layers/dp_rnn.py cell forward()")


def run(ctx):
    regenerate(ctx)
    torch.set_num_threads(2)
    # which behaviour does this tree implement for the packed path's h_last buffer? (Lean witness:
    # packed_state_dtype_counterexample; replayed on the real code by dtype_oracle)
    ctx.variant["packed-state-dtype"] = "asCoded" if dtype_oracle("lstm") else "repaired"
    ctx.log("packed-state-dtype variant implemented by this tree:", ctx.variant["packed-state-dtype"])
    with rig.default_dtype(torch.float64):
        # corpus first
        import json

        for p in sorted((core.CORPUS / "C13").glob("*.json")) if (core.CORPUS / "C13").exists() else []:
            c = json.loads(p.read_text())
            res = oracle(c)
            ctx.count("corpus")
            if res:
                report(ctx, res, c)
        names_corr(ctx)
        csl_corr(ctx)
        err_corr(ctx)
        cases = [gen_case(ctx.rng) for _ in range(ctx.n(300, 6000))]
        run_cases(ctx, cases)
        # failing-input search on the real code (no model involved)
        search = [gen_case(ctx.rng, mode="float") for _ in range(ctx.n(250, 6000))]
        # dropout > 0 in eval mode (where it is the identity for torch.nn): L >= 2 so that torch accepts the option
        search += [dict(gen_case(ctx.rng, mode="float", grid={"L": ctx.rng.choice([2, 3])}), dropout=ctx.rng.choice([0.3, 0.5])) for _ in range(ctx.n(20, 300))]
        # deep stacks ("any number of layers"): ten and more layers, small everything else
        search += [gen_case(ctx.rng, mode="float", grid={"L": ctx.rng.choice([10, 11, 12, 14])}) for _ in range(ctx.n(12, 200))]
        for c in search:
            if c["kind"] == "lstm" and ctx.rng.random() < 0.5:
                c["via_fix"] = 1   # DP layer obtained through ModuleValidator's fixer (validators/lstm.py)
                ctx.count("search:via-validators.lstm.fix")
        if ctx.thorough:
            search += grid_cases(ctx.rng, sorted(KINDS))
            ctx.extra["exhaustive_small_scope"] = "full grid layers 1-3 x bidirectional x bias x batch_first x {padded, packed sorted, packed unsorted} x initial state, 4 cell kinds (1152 configurations), outputs + states + gradients"
        for c in search:
            res = oracle(c)
            ctx.count("search:dp-vs-torch")
            if res:
                report(ctx, res, c)
    for kind in ("lstm", "gru", "tanh"):
        res = dtype_oracle(kind)
        ctx.count("search:dtype")
        if res:
            ctx.property_failure(res[0], res[1], res[2])
            break


def replay(ctx, rp):
    c = rp.get("failing_input") or rp.get("case")
    if isinstance(c, dict) and "dtype_probe" in c:
        res = dtype_oracle(c["dtype_probe"])
    elif isinstance(c, dict) and "batch_sizes" in c:
        res = csl_oracle(c)
    elif isinstance(c, dict) and "names" in c:
        res = names_oracle(*c["names"])
    else:
        with rig.default_dtype(torch.float64):
            res = oracle(c)
    if res:
        print("REPRODUCED:", res[0], res[1])
        ctx.violations.append(res[0])
    else:
        print("not reproduced on this tree")
