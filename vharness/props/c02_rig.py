"""Shared rig for C02 / C03: a small zoo of validation-accepted models, a runner that drives the
*real* Opacus objects (GradSampleModule variants, the optimizer class chosen by the real
`get_optimizer_class`, the real `BatchMemoryManager`, the real ghost-clipping loss wrapper) on a
given logical batch, and an independent micro-batch / NumPy reference.

Nothing here knows about the Lean model; property oracles built from these pieces evaluate the
property on the implementation alone.
"""
from __future__ import annotations

import contextlib
import copy
import math

import numpy as np
import torch
import torch.nn as nn

from .. import rig

F64 = torch.float64
GSM_MODES = ["hooks", "functorch", "ew", "ghost"]
CLIPPINGS = ["flat", "per_layer", "adaptive"]


# --------------------------------------------------------------------------- models
class Net(nn.Module):
    """arch-driven tiny network; every layer acts row-wise on the batch dimension"""

    def __init__(self, spec):
        super().__init__()
        a = spec["arch"]
        I, H, O = spec["I"], spec["H"], spec["O"]
        bias = spec.get("bias", True)
        self.spec = spec
        self.act = {"relu": torch.relu, "tanh": torch.tanh, "id": lambda t: t}[spec.get("act", "tanh")]
        if a in ("mlp", "seq", "seq4"):
            self.l1 = nn.Linear(I, H, bias=bias, dtype=F64)
            self.l2 = nn.Linear(H, O, bias=bias, dtype=F64)
        elif a == "lin":  # a single Linear (2-D, 3-D or 4-D input according to spec["rank"])
            self.l1 = nn.Linear(I, O, bias=bias, dtype=F64)
        elif a == "emb":
            self.e = nn.Embedding(spec["V"], H, dtype=F64)
            self.l2 = nn.Linear(H, O, bias=bias, dtype=F64)
        elif a == "embseq":  # embedding -> Linear on 3-D -> mean
            self.e = nn.Embedding(spec["V"], I, dtype=F64)
            self.l1 = nn.Linear(I, H, bias=bias, dtype=F64)
            self.l2 = nn.Linear(H, O, bias=bias, dtype=F64)
        elif a == "conv":
            self.c = nn.Conv1d(I, H, kernel_size=2, bias=bias, dtype=F64)
            self.l2 = nn.Linear(H * (spec["T"] - 1), O, bias=bias, dtype=F64)
        elif a in ("ln", "lnre"):
            self.l1 = nn.Linear(I, H, bias=bias, dtype=F64)
            self.n = nn.LayerNorm(H, dtype=F64)
            self.l2 = nn.Linear(H, O, bias=bias, dtype=F64)
        elif a == "gn":
            self.c = nn.Conv1d(I, H, kernel_size=2, bias=bias, dtype=F64)
            self.n = nn.GroupNorm(1, H, dtype=F64)
            self.l2 = nn.Linear(H * (spec["T"] - 1), O, bias=bias, dtype=F64)
        elif a == "tied":  # one Linear used twice in the forward pass (siamese / weight tying): its parameters have TWO uses
            self.l1 = nn.Linear(I, I, bias=bias, dtype=F64)
            self.l2 = nn.Linear(I, O, bias=bias, dtype=F64)
        elif a == "bn3":  # BatchNorm1d on (B, H, T) activations: per-sample evaluation (functorch) is possible, the batch statistics couple samples
            self.c = nn.Conv1d(I, H, kernel_size=2, bias=bias, dtype=F64)
            self.n = nn.BatchNorm1d(H, affine=spec.get("bn_affine", False), track_running_stats=spec.get("bn_trs", False), dtype=F64)
            self.l2 = nn.Linear(H * (spec["T"] - 1), O, bias=bias, dtype=F64)
        elif a == "bn":  # BatchNorm without affine parameters: couples samples (finding D3)
            self.l1 = nn.Linear(I, H, bias=bias, dtype=F64)
            self.n = nn.BatchNorm1d(H, affine=spec.get("bn_affine", False), track_running_stats=spec.get("bn_trs", False), dtype=F64)
            self.l2 = nn.Linear(H, O, bias=bias, dtype=F64)
        else:
            raise ValueError(a)

    def forward(self, x):
        a = self.spec["arch"]
        if a == "mlp":
            return self.l2(self.act(self.l1(x)))
        if a == "seq":
            return self.l2(self.act(self.l1(x)).mean(dim=1))
        if a == "seq4":
            return self.l2(self.act(self.l1(x)).mean(dim=(1, 2)))
        if a == "lin":
            h = self.l1(x)
            r = self.spec.get("rank", 2)
            if r == 3:
                h = h.mean(dim=1) if self.spec.get("pool", "mean") == "mean" else h.sum(dim=1)
            elif r == 4:
                h = h.mean(dim=(1, 2))
            return h
        if a == "emb":
            return self.l2(self.act(self.e(x).mean(dim=1)))
        if a == "embseq":
            return self.l2(self.act(self.l1(self.e(x))).mean(dim=1))
        if a in ("conv", "gn", "bn3"):
            h = self.c(x)
            if a in ("gn", "bn3"):
                h = self.n(h)
            return self.l2(self.act(h).flatten(1))
        if a in ("ln", "bn"):
            return self.l2(self.act(self.n(self.l1(x))))
        if a == "lnre":   # ONE LayerNorm module applied twice (a layer without a ghost norm sampler, reused in the forward pass)
            return self.l2(self.act(self.n(self.act(self.n(self.l1(x))))))
        if a == "tied":
            return self.l2(self.act(self.l1(self.act(self.l1(x)))))
        raise ValueError(a)


class PerSampleLoss(nn.Module):
    """criterion with the `reduction` attribute the ghost wrapper needs.
    kind 'sq': ½·mean_o (out−y)²;  'ce': cross entropy; per-sample shape [B]
    (`col=True`: shape [B,1], as the docstring of DPTensorFastGradientClipping describes)."""

    def __init__(self, kind="sq", reduction="mean", col=False):
        super().__init__()
        self.kind, self.reduction, self.col = kind, reduction, col

    def per_sample(self, out, y):
        if self.kind == "ce":
            l = nn.functional.cross_entropy(out, y, reduction="none")
        else:
            l = 0.5 * ((out - y) ** 2).mean(dim=1)
        return l.unsqueeze(1) if self.col else l

    def forward(self, out, y):
        l = self.per_sample(out, y)
        if self.reduction == "none":
            return l
        return l.mean() if self.reduction == "mean" else l.sum()


def gen_spec(rng, archs=None, ghost_safe=False):
    arch = rng.choice(archs or ["mlp", "seq", "seq4", "lin", "emb", "embseq", "conv", "ln", "gn", "lnre"])
    s = {
        "arch": arch,
        "I": rng.randint(2, 4),
        "H": rng.randint(2, 4),
        "O": rng.randint(2, 3),
        "T": rng.randint(2, 4),
        "T2": rng.randint(2, 3),
        "V": rng.randint(3, 6),
        "bias": rng.random() < 0.75,
        "act": rng.choice(["tanh", "relu", "id"]),
        "loss": rng.choice(["sq", "sq", "ce"]),
        "scale": rng.choice([0.2, 1.0, 3.0]),
        "wseed": rng.randrange(1 << 30),
    }
    if arch == "lin":
        s["rank"] = rng.choice([2, 3, 3, 4])
        s["pool"] = rng.choice(["mean", "sum"])
    if ghost_safe and s.get("rank") == 4 or (ghost_safe and arch == "seq4"):
        s["arch"], s["rank"] = ("seq" if arch == "seq4" else "lin"), 3
    return s


def input_rank(spec):
    a = spec["arch"]
    return {"mlp": 2, "seq": 3, "seq4": 4, "lin": spec.get("rank", 2), "emb": 2, "embseq": 2, "conv": 3, "ln": 2, "lnre": 2, "gn": 3, "bn": 2, "bn3": 3, "tied": 2}[a]


def gen_data(spec, n, rng):
    """n examples (inputs, targets) drawn from `rng` (python Random)"""
    g = torch.Generator().manual_seed(rng.randrange(1 << 30))
    a, I, T, T2 = spec["arch"], spec["I"], spec["T"], spec["T2"]
    sc = spec.get("scale", 1.0)
    if a in ("emb", "embseq"):
        x = torch.randint(0, spec["V"], (n, T), generator=g)
    elif a in ("mlp", "ln", "lnre", "bn", "tied") or (a == "lin" and spec.get("rank", 2) == 2):
        x = torch.randn(n, I, generator=g, dtype=F64) * sc
    elif a == "seq" or (a == "lin" and spec.get("rank") == 3):
        x = torch.randn(n, T, I, generator=g, dtype=F64) * sc
    elif a == "seq4" or (a == "lin" and spec.get("rank") == 4):
        x = torch.randn(n, T, T2, I, generator=g, dtype=F64) * sc
    elif a in ("conv", "gn", "bn3"):
        x = torch.randn(n, I, T, generator=g, dtype=F64) * sc
    else:
        raise ValueError(a)
    if spec["loss"] == "ce":
        y = torch.randint(0, spec["O"], (n,), generator=g)
    else:
        y = torch.randn(n, spec["O"], generator=g, dtype=F64) * sc
    return x, y


def build(spec):
    torch.manual_seed(spec["wseed"])
    m = Net(spec)
    with torch.no_grad():
        for p in m.parameters():
            p.mul_(spec.get("wscale", 1.5))
    return m


# --------------------------------------------------------------------------- reference
def micro_grads(spec, x, y, col=False):
    """true per-example gradients by plain autograd, one example at a time: list over examples of
    list over parameters of float64 numpy arrays"""
    m = build(spec)
    crit = PerSampleLoss(spec["loss"], "sum")
    out = []
    for i in range(len(x)):
        m.zero_grad()
        crit(m(x[i : i + 1]), y[i : i + 1]).backward()
        out.append([(p.grad.detach().numpy().copy() if p.grad is not None else np.zeros(tuple(p.shape))) for p in m.parameters()])
    return out


def np_clip_factor(C, n):
    return min(1.0, C / (n + 1e-6))


def np_clipped_sum(grads, clipping, C):
    """Σ_i min(1, C/(‖g_i‖+1e-6))·g_i from micro-batch gradients; `C` is a float (flat / adaptive)
    or a list (per-layer)"""
    if not grads:
        return None
    acc = [np.zeros_like(t) for t in grads[0]]
    for g in grads:
        if clipping == "per_layer":
            fs = [np_clip_factor(C[k], float(np.sqrt((t * t).sum()))) for k, t in enumerate(g)]
        else:
            n = math.sqrt(sum(float((t * t).sum()) for t in g))
            fs = [np_clip_factor(C, n)] * len(g)
        for k, t in enumerate(g):
            acc[k] += fs[k] * t
    return acc


# --------------------------------------------------------------------------- observation of the ghost path
@contextlib.contextmanager
def capture_norm_samplers():
    """Record what the real ghost path feeds its norm samplers (layer, activations, backprops after
    `rearrange_grad_samples`) and what `create_norm_sample` receives for layers without one.
    Pure observation from the harness's own process: the wrapped functions are called unchanged."""
    from opacus.grad_sample import grad_sample_module_fast_gradient_clipping as M

    cls = M.GradSampleModuleFastGradientClipping
    rec = []
    old = dict(cls.NORM_SAMPLERS)

    def wrap(fn):
        def w(layer, activations, backprops):
            rec.append(("ns", layer, [a.detach().clone() for a in activations], backprops.detach().clone()))
            return fn(layer, activations, backprops)

        return w

    for k, fn in old.items():
        cls.NORM_SAMPLERS[k] = wrap(fn)
    old_c = M.create_norm_sample

    def cns(*, param, grad_sample, max_batch_len):
        rec.append(("gs", param, grad_sample.detach().clone()))
        return old_c(param=param, grad_sample=grad_sample, max_batch_len=max_batch_len)

    M.create_norm_sample = cns
    try:
        yield rec
    finally:
        M.create_norm_sample = old_c
        for k, fn in old.items():
            cls.NORM_SAMPLERS[k] = fn


# --------------------------------------------------------------------------- the real engine
class Engine:
    """The real objects for one configuration, with the primitives a training loop uses.

    gsm_mode  : hooks | functorch | ew | ghost        (real wrapper classes)
    clipping  : flat | per_layer | adaptive            (class picked by the real get_optimizer_class)
    """

    def __init__(self, spec, *, gsm_mode="hooks", clipping="flat", C=1.0, reduction="mean", sigma=1.0, ebs=1, col=False,
                 inner="sgd", lr=0.0, capture=False, noise="zero"):
        from opacus.grad_sample.utils import get_gsm_class
        from opacus.optimizers import get_optimizer_class

        self.spec, self.gsm_mode, self.clipping, self.reduction = spec, gsm_mode, clipping, reduction
        model = build(spec)
        self.plain = model
        cls = get_gsm_class(gsm_mode)
        kw = {}
        if gsm_mode == "functorch":
            kw["force_functorch"] = True
        if gsm_mode == "ghost":
            kw.update(max_grad_norm=C, use_ghost_clipping=True)
        self.gsm = cls(model, batch_first=True, loss_reduction=reduction, **kw)
        params = list(self.gsm.parameters())
        self.inner = make_inner(inner, params, lr)
        self.opt_class = get_optimizer_class(clipping=clipping, distributed=False, grad_sample_mode=gsm_mode)
        okw = {}
        if clipping == "adaptive":
            okw.update(target_unclipped_quantile=0.5, clipbound_learning_rate=0.2, max_clipbound=1e6, min_clipbound=1e-6, unclipped_num_std=1.0)
        self.ebs = ebs
        self.opt = self.opt_class(self.inner, noise_multiplier=sigma, max_grad_norm=C, expected_batch_size=ebs, loss_reduction=reduction, **okw)
        crit = PerSampleLoss(spec["loss"], reduction, col=col)
        if gsm_mode == "ghost":
            from opacus.utils.fast_gradient_clipping_utils import DPLossFastGradientClipping

            crit = DPLossFastGradientClipping(self.gsm, self.opt, crit, reduction)
        self.crit = crit
        self.norms = []
        self.records = []          # per ghost backward: (B, captured norm-sampler inputs)
        self._stack = contextlib.ExitStack()
        self._rec = self._stack.enter_context(capture_norm_samplers()) if capture else None
        self.log = self._stack.enter_context(rig.patched_normal(noise))
        self.param_names = [n for n, _ in self.plain.named_parameters()]

    def close(self):
        self._stack.close()

    def __enter__(self):
        return self

    def __exit__(self, *a):
        self.close()

    def fb(self, xb, yb):
        n0 = len(self._rec) if self._rec is not None else 0
        out = self.gsm(xb)
        loss = self.crit(out, yb)
        loss.backward()
        if self._rec is not None:
            self.records.append((len(xb), self._rec[n0:]))
        if getattr(self.gsm, "_per_sample_gradient_norms", None) is not None:
            self.norms.append(self.gsm._per_sample_gradient_norms.detach().numpy().copy())

    def last_grad_samples(self):
        """per-sample gradients of the most recent backward pass, one [B,…] array per parameter"""
        out = []
        for p in self.opt.params:
            gs = p.grad_sample
            gs = gs[-1] if isinstance(gs, list) else gs
            out.append(gs.detach().numpy().copy())
        return out

    def pre_step(self):
        """`optimizer.step()` split in its two halves so that pre_step's verdict is visible;
        returns (ret, noise tensors drawn for the parameters in this call)"""
        n0 = len(self.log.calls)
        ret = self.opt.pre_step()
        calls = self.log.calls[n0:]
        z = [float(n0 + 1 + i) for i in range(len(calls))] if self.log.mode == "count" else [0.0] * len(calls)
        return bool(ret), z[: len(self.opt.params)], calls

    def summed(self):
        return [None if p.summed_grad is None else p.summed_grad.detach().numpy().copy().reshape(tuple(p.shape)) for p in self.opt.params]

    def grads(self):
        return [None if p.grad is None else p.grad.detach().numpy().copy() for p in self.opt.params]

    def values(self):
        return [p.detach().numpy().copy() for p in self.opt.params]


def make_inner(kind, params, lr):
    if kind == "sgd":
        return torch.optim.SGD(params, lr=lr)
    if kind == "momentum":
        return torch.optim.SGD(params, lr=lr, momentum=0.9)
    if kind == "adam":
        return torch.optim.Adam(params, lr=lr)
    raise ValueError(kind)


class EngineRun(Engine):
    """One logical step of the real machinery on the logical batch (x, y).

    max_phys  : None, or the max physical batch size for the real BatchMemoryManager
    accum     : number of backward passes accumulated before the step (non-Poisson accumulation)
    noise     : 'zero' | 'count' (rig.patched_normal modes)
    Results: .summed_ (list of np arrays, `p.summed_grad` right after the step), .grad (`p.grad`
    handed to the inner optimizer), .noise_calls, .opt_class, .norms (ghost only)
    """

    def __init__(self, spec, x, y, *, gsm_mode="hooks", clipping="flat", C=1.0, reduction="mean",
                 max_phys=None, sigma=1.0, noise="zero", ebs=None, accum=1, col=False, inner="sgd", lr=0.0, capture=False, closure=False):
        n = len(x)
        super().__init__(spec, gsm_mode=gsm_mode, clipping=clipping, C=C, reduction=reduction, sigma=sigma,
                         ebs=ebs if ebs is not None else max(n, 1), col=col, inner=inner, lr=lr, capture=capture, noise=noise)
        try:
            self.opt.zero_grad()
            self.k_last = 1
            if max_phys is None and closure and accum == 1 and gsm_mode != "ghost":
                # `optimizer.step(closure)`: the DP optimizer evaluates the closure once, then clips / noises;
                # the wrapped optimizer must not evaluate it again
                def _closure():
                    self.opt.zero_grad()
                    self.fb(x, y)

                self.opt.step(_closure)
            elif max_phys is None:
                # `accum` backward passes over consecutive slices, then one step
                cuts = np.array_split(np.arange(n), accum) if n else [np.arange(0)]
                for c in cuts:
                    self.fb(x[c.tolist()], y[c.tolist()])
                self.k_last = len(cuts) if gsm_mode != "ghost" else 1
                self.opt.step()
            else:
                from opacus.utils.batch_memory_manager import BatchMemoryManager

                ds = torch.utils.data.TensorDataset(x, y)
                dl = torch.utils.data.DataLoader(ds, batch_sampler=[list(range(n))])
                with BatchMemoryManager(data_loader=dl, max_physical_batch_size=max_phys, optimizer=self.opt) as mdl:
                    it = list(mdl)
                    for bi, (xb, yb) in enumerate(it):
                        self.fb(xb, yb)
                        self.opt.step()
                        if bi + 1 < len(it):
                            self.opt.zero_grad()
        finally:
            self.close()
        self.noise_calls = list(self.log.calls)
        self.summed = self.summed()
        self.grad = self.grads()
        self.C_after = float(self.opt.max_grad_norm)
        self.param_norm_samples = [getattr(p, "_norm_sample", None) for p in self.opt.params]


def flat_norm(ts):
    return math.sqrt(sum(float((np.asarray(t) ** 2).sum()) for t in ts))


def diff(a, b):
    return [np.asarray(u) - np.asarray(v) for u, v in zip(a, b)]
