"""C01 — per-sample gradients equal the gradient of each sample taken alone.

Obligations (Lean, unbounded in all shapes, over every commutative ring): for each registered grad
sampler the adjoint identity ⟨b, fwd θ a⟩ = ⟨sampler a b, θ⟩ between the coded formula and the
layer's forward (linear in its parameters), which with `adjoint_unique` pins row n of the sampler's
output to THE parameter-VJP of sample n; the index lemmas behind `unfold2d` / `unfold3d`; the
GradSampleModule bookkeeping machine (`hooks_pairing`, `mean_rescale`,
`per_sample_sum_is_batch_grad`); `_counterexample` witnesses for the defects of the unchanged tree.

Correspondence: the REAL `compute_*_grad_sample`, `unfold2d`, `unfold3d` called directly on
small-integer float64 tensors vs the `Int` instance of the same Lean definitions, bit-for-bit
(normalisation layers additionally on generic floats, 1e-9); the bookkeeping machine vs a real
`GradSampleModule` on integer models with the hook trace captured from outside.

Search (real code only, never stands in for a theorem): GradSampleModule in hooks / functorch / ew
mode vs micro-batch autograd over random architectures (c01_arch.py).
"""
from __future__ import annotations

import json

import torch
import torch.nn as nn

from .. import core, rig
from . import c01_arch as A
from . import c01_samplers as S

PID = "C01"
MODULES = ["OpacusLean.Props.C01"]
THEOREMS = [
    "Opacus.GS.adjoint_unique",
    "Opacus.C01.sampler_adjoint_linear",
    "Opacus.C01.sampler_adjoint_linear_nobias",
    "Opacus.C01.sampler_adjoint_embedding",
    "Opacus.C01.embedding_repaired_padding_row_zero",
    "Opacus.C01.embedding_padding_counterexample",
    "Opacus.C01.sampler_adjoint_embedding_bag",
    "Opacus.C01.embedding_bag_duplicate_counterexample",
    "Opacus.C01.sampler_adjoint_group_norm",
    "Opacus.C01.sampler_adjoint_instance_norm",
    "Opacus.C01.sampler_adjoint_layer_norm",
    "Opacus.C01.layerNormGS_repaired_ok",
    "Opacus.C01.layer_norm_nobias_counterexample",
    "Opacus.C01.sampler_adjoint_sequence_bias",
    "Opacus.C01.sampler_adjoint_conv1d",
    "Opacus.C01.sampler_adjoint_conv2d",
    "Opacus.C01.sampler_adjoint_conv3d",
    "Opacus.C01.as_strided_unfold2d_eq",
    "Opacus.C01.as_strided_unfold2d_eq_repaired",
    "Opacus.C01.faithful_layouts",
    "Opacus.GS.unfold3d_eq_window",
    "Opacus.GS.conv_groups_diag",
    "Opacus.C01.unfold2d_channels_last_counterexample",
    "Opacus.C01.conv_padding_mode_counterexample",
    "Opacus.C01.hooks_pairing",
    "Opacus.C01.mean_rescale",
    "Opacus.GSM.run_pass",
    "Opacus.GSM.step_fwd",
    "Opacus.GSM.step_bwd",
    "Opacus.GSM.accRows_closed",
    "Opacus.C01.hooked_cover",
    "Opacus.HookCover.cover",
]
RULE = (
    "sampler case = (layer type, hyper-parameters, requires_grad pattern, shapes incl. N=0 and extra middle axes, memory layout of "
    "activations/backprops, integer tensor values) drawn from VERIF_SEED; non-trivial iff N>=1, the parameter has more than one entry and at "
    "least one entry is returned; distinct by (layer, shape, flags, layout). model case = random architecture spec (c01_arch.gen_spec): "
    "distinct by (mode, reduction, batch_first, B, input kind/layout, layer-type sequence)"
)
TRUSTED = [
    "PyTorch autograd computes true gradients; for a layer whose forward is fwd(theta, a) linear in theta the gradient of l(fwd(theta,a)) is the adjoint applied to grad l (grad_comp_linear is used as a contract, not re-proved)",
    "torch reference semantics of F.linear / F.embedding (padding_idx row is constant for autograd) / F.embedding_bag / F.conv{1,2,3}d (cross-correlation with groups) / F.pad / F.unfold / Tensor.unfold / as_strided on a flat storage",
    "x_hat = F.group_norm / F.instance_norm / F.layer_norm of the activation is an opaque input of the normalisation-layer model (row-wise by torch semantics)",
    "functorch and ExpandedWeights modes are PyTorch internals: only searched (micro-batch oracle), not modelled",
    "micro-batch reference cases on which plain torch is inconsistent with itself (sum of single-sample gradients != batch gradient, e.g. instance_norm backward with a channels_last grad at B=1) are skipped and counted",
]
PARTIAL = [
    "float rounding of the samplers is not modelled (exact on the integer channel, 1e-9 on the float channel)",
]

WITNESS = {
    # known-defect witnesses: Lean `_counterexample` inputs replayed on the real samplers
    "D2": "Opacus.C01.embedding_padding_counterexample",
    "D17": "Opacus.C01.conv_padding_mode_counterexample",
    "D18": "Opacus.C01.layer_norm_nobias_counterexample",
    "D19": "Opacus.C01.unfold2d_channels_last_counterexample",
    "D22": "Opacus.C01.embedding_bag_duplicate_counterexample",
}

# architecture-level witnesses for the property oracle (hooks mode, minimal)
ARCH_WITNESS = {
    "D2": {"mode": "hooks", "batch_first": True, "reduction": "sum", "B": 1, "seed": 1, "kind": "tok", "V": 2, "shape": [1], "force_token": 0,
           "layers": [{"t": "Embedding", "V": 2, "D": 1, "pad": 0}]},
    "D2-ew": {"mode": "ew", "batch_first": True, "reduction": "sum", "B": 1, "seed": 1, "kind": "tok", "V": 2, "shape": [1], "force_token": 0,
              "layers": [{"t": "Embedding", "V": 2, "D": 1, "pad": 0}]},
    "D17": {"mode": "hooks", "batch_first": True, "reduction": "sum", "B": 1, "seed": 1, "kind": "c2", "shape": [1, 2, 2],
            "layers": [{"t": "Conv", "nd": 2, "in": 1, "out": 1, "k": [2, 2], "s": [1, 1], "p": [1, 1], "d": [1, 1], "g": 1, "bias": False, "pm": "reflect"}]},
    "D19": {"mode": "hooks", "batch_first": True, "reduction": "sum", "B": 1, "seed": 1, "kind": "c2", "shape": [2, 2, 2], "in_layout": "channels_last",
            "layers": [{"t": "Conv", "nd": 2, "in": 2, "out": 1, "k": [1, 1], "s": [1, 1], "p": [0, 0], "d": [1, 1], "g": 1, "bias": False, "pm": "zeros"}]},
    "D18": {"mode": "hooks", "batch_first": True, "reduction": "sum", "B": 1, "seed": 1, "kind": "vec", "shape": [2],
            "layers": [{"t": "LayerNorm", "nshape": [2], "bias": False}]},
    "D22": {"mode": "hooks", "batch_first": True, "reduction": "sum", "B": 1, "seed": 1, "kind": "bag", "shape": [], "V": 2, "bag_lens": [2], "bag_dup": True,
            "layers": [{"t": "EmbeddingBag", "V": 2, "D": 1, "mode": "sum"}]},
    "D23": {"mode": "hooks", "batch_first": True, "reduction": "sum", "B": 1, "seed": 1, "kind": "tok", "V": 2, "shape": [1], "default_dtype": "float32",
            "layers": [{"t": "Embedding", "V": 2, "D": 1, "pad": None}]},
    "D24": {"mode": "hooks", "batch_first": True, "reduction": "sum", "B": 1, "seed": 1, "kind": "bag", "shape": [], "V": 2, "bag_lens": [1], "bag_dup": False,
            "default_dtype": "float32", "layers": [{"t": "EmbeddingBag", "V": 2, "D": 1, "mode": "sum"}]},
}


# --------------------------------------------------------------------------- variant detection
def detect_variants(ctx):
    """replay the Lean counterexample witnesses on the real samplers to learn which behaviour this
    tree implements at each known-defect point"""
    import torch.nn as nn

    v = {}
    e = nn.Embedding(2, 1, padding_idx=0).double()
    r = S.sampler_for(e)(e, [torch.tensor([[0]])], torch.tensor([[[5.0]]], dtype=torch.float64))[e.weight]
    v["D2"] = {5.0: "asCoded", 0.0: "repaired"}.get(float(r[0, 0, 0]), "other")
    ln = nn.LayerNorm(2, bias=False).double()
    try:
        S.sampler_for(ln)(ln, [torch.tensor([[1.0, 2.0]], dtype=torch.float64)], torch.tensor([[3.0, 4.0]], dtype=torch.float64))
        v["D18"] = "repaired"
    except AttributeError:
        v["D18"] = "asCoded"
    eb = nn.EmbeddingBag(2, 1, mode="sum").double()
    r = S.sampler_for(eb)(eb, [torch.tensor([1, 1]), torch.tensor([0])], torch.tensor([[3.0]], dtype=torch.float64))[eb.weight]
    v["D22"] = {3.0: "asCoded", 6.0: "repaired"}.get(float(r[0, 1, 0]), "other")
    # D17 (Lean conv_padding_mode_counterexample): Conv2d(1,1,2,padding=1,reflect), x=[[1,2],[3,4]], cotangent ones
    cv = nn.Conv2d(1, 1, 2, padding=1, padding_mode="reflect", bias=False).double()
    r = S.sampler_for(cv)(cv, [torch.arange(1.0, 5.0, dtype=torch.float64).reshape(1, 1, 2, 2)], torch.ones(1, 1, 3, 3, dtype=torch.float64))[cv.weight]
    v["D17"] = {(10.0, 10.0, 10.0, 10.0): "asCoded", (27.0, 24.0, 21.0, 18.0): "repaired"}.get(tuple(r.flatten().tolist()), "other")
    # D19 (Lean unfold2d_channels_last_counterexample): Conv2d(2,1,1) on a channels_last activation
    cv = nn.Conv2d(2, 1, 1, bias=False).double()
    xcl = torch.arange(1.0, 9.0, dtype=torch.float64).reshape(1, 2, 2, 2).contiguous(memory_format=torch.channels_last)
    r = S.sampler_for(cv)(cv, [xcl], torch.tensor([1.0, 10.0, 100.0, 1000.0], dtype=torch.float64).reshape(1, 1, 2, 2))[cv.weight]
    v["D19"] = {(6251.0, 3625.0): "asCoded", (4321.0, 8765.0): "repaired"}.get(tuple(r.flatten().tolist()), "other")
    for k, val in v.items():
        if val == "other":  # neither behaviour: run the correspondence as coded, it will report the break
            v[k] = "asCoded"
    return v


# --------------------------------------------------------------------------- sampler correspondence
def case_oracle(sample):
    """property oracle for a sampler-level disagreement: the same layer configuration inside a real
    GradSampleModule (hooks mode) vs micro-batch autograd, a few seeds / reductions / batch sizes"""
    lay = sample.get("layer")
    specs = []
    for seed in range(6):
        base = {"mode": "hooks", "batch_first": True, "reduction": ["mean", "sum"][seed % 2], "B": max(1, sample.get("N", 2)) if seed < 3 else 3, "seed": 100 + seed}
        if lay in ("Linear", "RNNLinear"):
            L = {"t": "Linear", "in": sample["I"], "out": sample["O"], "bias": sample["bias"] is not None}
            fr = ([] if sample["weight_requires_grad"] else ["weight"]) + (["bias"] if sample["bias"] is False else [])
            if fr:
                L["freeze"] = fr
            if lay == "RNNLinear":
                base.update(kind="seq", shape=[max(1, len(sample["mid"]) + 1), sample["I"]], layers=[{"t": "RNN", "cell": "rnn", "in": sample["I"], "hidden": sample["O"], "bias": sample["bias"] is not None}])
            else:
                base.update(kind="vec", shape=sample["mid"] + [sample["I"]], layers=[L])
        elif lay == "Embedding":
            base.update(kind="tok", V=sample["V"], shape=sample["mid"], layers=[{"t": "Embedding", "V": sample["V"], "D": sample["D"], "pad": sample["padding_idx"]}])
            if sample["padding_idx"] is not None:
                base["force_token"] = sample["padding_idx"]
        elif lay == "EmbeddingBag":
            lens = sample["bag_lens"]
            base.update(kind="bag", shape=[], V=sample["V"], bag_lens=lens, B=len(lens), bag_dup=sample["repeated_index_in_a_bag"],
                        layers=[{"t": "EmbeddingBag", "V": sample["V"], "D": sample["D"], "mode": sample["mode"]}])
        elif lay == "GroupNorm":
            base.update(kind="c1", shape=[sample["C"]] + sample["spatial"], layers=[{"t": "GroupNorm", "groups": sample["groups"], "C": sample["C"], "eps": sample.get("eps") or 1e-5}])
        elif lay and lay.startswith("InstanceNorm"):
            base.update(kind="c1", shape=[sample["C"]] + sample["spatial"], layers=[{"t": "InstanceNorm", "nd": len(sample["spatial"]), "C": sample["C"], "eps": sample.get("eps") or 1e-5}])
        elif lay == "LayerNorm":
            base.update(kind="vec", shape=sample["mid"] + sample["normalized_shape"], layers=[{"t": "LayerNorm", "nshape": sample["normalized_shape"], "bias": sample["bias"] != "n", "eps": sample.get("eps") or 1e-5}])
        elif lay == "SequenceBias":
            base.update(kind="seq", batch_first=False, shape=[max(1, sample["L"]), 2 * ((sample["E"] + 1) // 2)],
                        layers=[{"t": "MHA", "E": 2 * ((sample["E"] + 1) // 2), "heads": 2, "bias_kv": True}])
        elif lay == "Conv":
            base.update(sample["arch"])
            base["seed"] = 100 + seed
        else:
            return None
        specs.append(base)
    for sp in specs:
        try:
            res = A.oracle(sp)
        except A.Rejected:
            continue
        if res:
            return res[0], res[1], dict(res[2], failing_input=sp)
    return None


def run_sampler_cases(ctx, n, variant):
    g = torch.Generator().manual_seed(ctx.rng.randrange(2**31))
    pool = [f for f, w in S.GENERATORS for _ in range(w)]
    cases = [ctx.rng.choice(pool)(ctx.rng, g, variant) for _ in range(n)]
    replies = [None] * len(cases)
    for drv in sorted({c.get("driver", "C01") for c in cases}):
        idx = [i for i, c in enumerate(cases) if c.get("driver", "C01") == drv]
        for i, rep in zip(idx, ctx.lean_driver(drv, [cases[i]["line"] for i in idx])):
            replies[i] = rep
    for c, rep in zip(cases, replies):
        ctx.case(c["key"], nontrivial=c["nontrivial"], sample=c["sample"], kind=c["comp"])
        res = c["run"]()
        blk = S.parse_blocks(rep)
        ok = False if blk.get("err", "").startswith("bad") else c["check"](res, blk)
        if ok:
            ctx.validated()
        else:
            ret = res[0]
            if isinstance(ret, str):
                impl = ret
            elif isinstance(ret, dict):
                impl = {str(tuple(k.shape)): v.flatten().tolist() for k, v in ret.items()}
            elif torch.is_tensor(ret):
                impl = {"shape": list(ret.shape), "data": ret.flatten().tolist()[:4000]}
            else:
                impl = repr(ret)[:2000]
            ctx.mismatch(c["comp"], c["sample"], impl, rep[:2000], oracle=case_oracle, note="driver line: " + c["line"][:1500])


# --------------------------------------------------------------------------- GradSampleModule bookkeeping machine
def run_machine(ctx, n):
    """hook traces of real GradSampleModules (sequential / reused / partly frozen / DPRNN-relu models with integer
    weights) drive the Lean machine `Opacus.GSM` (driver C01m); the complete observable bookkeeping state is
    compared after every script step (this is the tie of `hooks_pairing` to the code)"""
    from . import c01_machine as M

    cases, lines, spans = [], [], []
    for _ in range(n):
        spec, script = M.gen_case(ctx.rng)
        try:
            ls, expect, info = M.run_case(spec, script)
        except AssertionError as e:   # non-integer tensor: the exact channel does not apply to this case
            ctx.count("machine:skipped:" + str(e)[:40])
            continue
        spans.append((len(lines), len(lines) + len(ls)))
        lines += ls
        cases.append((spec, script, expect, info))
    replies = ctx.lean_driver("C01m", lines)
    for (spec, script, expect, info), (a, b) in zip(cases, spans):
        rep = replies[a:b]
        bad = next((k for k, (x, y) in enumerate(zip(rep, expect)) if " ".join(x.split()) != " ".join(y.split())), None)
        nt = info["events"] >= 4 and (info["tied"] or info["max_stack"] >= 2 or len(script) >= 3 or bool(info["errors"]))
        ctx.case(("machine", json.dumps(spec["layers"], sort_keys=True), spec.get("batch_first", True), spec["reduction"], spec["B"], tuple(script), bool(spec.get("packed"))),
                 nontrivial=nt, sample={"component": "gsm-machine", "layers": spec["layers"], "script": script, "reduction": spec["reduction"]} , kind="machine:" + ("packed" if spec.get("packed") else spec["kind"]))
        ctx.count("machine:events", info["events"])
        for e in info["errors"]:
            ctx.count("machine:" + e)
        if info["tied"]:
            ctx.count("machine:tied-or-reused")
        if bad is None:
            ctx.validated()
        else:
            ctx.mismatch("gsm-machine", {"spec": spec, "script": script}, expect[bad][:1500], rep[bad][:1500],
                         oracle=lambda c: machine_oracle(c["spec"]), note=f"first differing driver reply #{bad}: request {lines[a + bad][:300]!r}")


# --------------------------------------------------------------------------- which modules are hooked (driver C01h)
def gen_cover_tree(rng, depth=0):
    """random torch module tree over: registered-sampler leaves (Linear, LayerNorm, Conv1d, Embedding), custom
    modules with own parameters (functorch units, possibly with children), subclasses of registered types,
    parameter-less containers, DPLSTM / DPGRU wrappers, partly or wholly frozen modules"""
    from opacus.layers import DPGRU, DPLSTM

    class Own(nn.Module):        # custom module with own parameters (and children): one functorch unit
        def __init__(self, kids):
            super().__init__()
            self.w = nn.Parameter(torch.zeros(2))
            self.kids = nn.ModuleList(kids)

    class Bag(nn.Module):        # parameter-less custom container
        def __init__(self, kids):
            super().__init__()
            for i, k in enumerate(kids):
                setattr(self, f"k{i}", k)

    class MyLinear(nn.Linear):   # subclass of a registered type: exact-type lookup ⇒ functorch unit
        pass

    r = rng.random()
    if depth >= 3 or r < 0.45:
        k = rng.choice(["Linear", "Linear", "LayerNorm", "Conv1d", "Embedding", "MyLinear", "Own0", "DPLSTM", "DPGRU", "ReLU"])
        m = {"Linear": lambda: nn.Linear(2, 2, bias=rng.random() < 0.7), "LayerNorm": lambda: nn.LayerNorm(2), "Conv1d": lambda: nn.Conv1d(2, 2, 1),
             "Embedding": lambda: nn.Embedding(3, 2), "MyLinear": lambda: MyLinear(2, 2), "Own0": lambda: Own([]),
             "DPLSTM": lambda: DPLSTM(2, 2, num_layers=rng.choice([1, 2]), bidirectional=rng.random() < 0.3),
             "DPGRU": lambda: DPGRU(2, 2), "ReLU": lambda: nn.ReLU()}[k]()
    else:
        kids = [gen_cover_tree(rng, depth + 1) for _ in range(rng.randint(1, 3))]
        m = rng.choice([lambda: nn.Sequential(*kids), lambda: Own(kids), lambda: Bag(kids), lambda: nn.ModuleList(kids)])()
    fr = rng.random()
    if fr < 0.12:
        for p in m.parameters(recurse=False):
            p.requires_grad_(False)
    elif fr < 0.2:
        for p in list(m.parameters(recurse=False))[:1]:
            p.requires_grad_(False)
    return m


def run_hook_cover(ctx, n):
    """`hooked_cover`: the units the real GradSampleModule hooks, and the parameters each serves, vs `HookCover.units`"""
    from opacus.grad_sample import GradSampleModule
    from opacus.layers import DPGRU, DPLSTM, DPRNN

    cases, lines = [], []
    for _ in range(n):
        m = nn.Sequential(gen_cover_tree(ctx.rng), gen_cover_tree(ctx.rng))
        ids = {id(p): i for i, p in enumerate(q for q in m.parameters() if q.requires_grad)}
        if not ids:
            continue
        gsm = GradSampleModule(m, strict=False)

        def enc(mod):
            own = [ids[id(p)] for p in mod.parameters(recurse=False) if p.requires_grad]
            kids = list(mod.children())
            return [str(len(own))] + [str(i) for i in own] + [str(int(type(mod) in gsm.GRAD_SAMPLERS)), str(int(type(mod) in (DPRNN, DPLSTM, DPGRU))), str(len(kids))] + [t for k in kids for t in enc(k)]

        hook_fn = getattr(gsm.capture_activations_hook, "__func__", None)
        real = []
        for mod in m.modules():
            if any(getattr(h, "__func__", None) is hook_fn for h in mod._forward_hooks.values()):
                ps = mod.parameters() if hasattr(mod, "ft_compute_sample_grad") else mod.parameters(recurse=False)
                real.append([ids[id(p)] for p in ps if p.requires_grad])
        lines.append("tree " + " ".join(enc(m)))
        cases.append((m, real, len(ids)))
        gsm._close() if False else None
    replies = ctx.lean_driver("C01h", lines)
    for (m, real, P), rep, line in zip(cases, replies, lines):
        want = f"wf=1 units {len(real)} | " + " | ".join(" ".join(map(str, u)) for u in real) + " ; all " + " ".join(map(str, range(P)))
        ft = any(hasattr(x, "ft_compute_sample_grad") for x in m.modules())
        ctx.case(("cover", line), nontrivial=len(real) >= 2, sample={"component": "hook-cover", "tree": repr(m)[:300]} if ft else None, kind="cover:" + ("functorch-unit" if ft else "samplers-only"))
        if " ".join(rep.split()) == " ".join(want.split()):
            ctx.validated()
        else:
            ctx.mismatch("hook-cover", {"tree": repr(m)[:1500], "driver_line": line}, want, rep, oracle=None,
                         note="units hooked by GradSampleModule (module order; parameters by named_parameters index) differ from HookCover.units")


def run_attention_and_rnn(ctx, n):
    """dedicated share of the micro-batch oracle for the layers whose batch handling is the most intricate:
    multi-head attention (several heads, batch > 1, per-sample key-padding masks, bias_kv / zero_attn) and
    bidirectional multi-layer DP RNNs – these are rare in the uniform architecture draw"""
    rng = ctx.rng
    for i in range(n):
        mode = rng.choice(["hooks", "hooks", "functorch"])
        B, T = rng.randint(2, 4), rng.randint(2, 4)
        if i % 2 == 0:
            heads = rng.choice([2, 2, 3])
            E = heads * rng.randint(1, 2)
            layers = [{"t": "MHA", "E": E, "heads": heads, "bias": rng.random() < 0.8, "bias_kv": rng.random() < 0.3, "zero_attn": rng.random() < 0.2, "kpm": rng.random() < 0.7},
                      {"t": "Linear", "in": E, "out": 2, "bias": True}]
            spec = {"mode": mode, "batch_first": False, "reduction": rng.choice(["mean", "sum"]), "B": B, "seed": rng.randrange(10**6), "kind": "seq", "shape": [T, E], "layers": layers}
        else:
            F, h = rng.randint(1, 3), rng.randint(1, 3)
            bid = rng.random() < 0.6
            layers = [{"t": "RNN", "cell": rng.choice(["lstm", "gru", "rnn"]), "in": F, "hidden": h, "layers": rng.choice([1, 2]), "bidir": bid, "bias": rng.random() < 0.8},
                      {"t": "Linear", "in": h * (2 if bid else 1), "out": 2, "bias": True}]
            spec = {"mode": mode, "batch_first": rng.random() < 0.5, "reduction": rng.choice(["mean", "sum"]), "B": B, "seed": rng.randrange(10**6), "kind": "seq", "shape": [T, F], "layers": layers}
        ctx.case(A.features(spec), nontrivial=True, sample=None, kind="search:dedicated:" + layers[0]["t"])
        try:
            res = A.oracle(spec)
        except A.Rejected as e:
            if "reference inconsistent" in str(e):
                # the model consists of an Opacus DP layer and a Linear only: if its batch gradient is not the sum of the
                # gradients of the samples run alone, the DP layer itself mixes the samples of a batch – then no
                # per-sample gradient can equal "the gradient of the sample taken alone"
                ctx.property_failure(f"C01:dp-layer-mixes-samples:{layers[0]['t']}:{layers[0].get('cell', 'mha')}",
                                     f"unwrapped model [{layers[0]}] + Linear: {e}", {"failing_input": spec})
            else:
                ctx.count("search:rejected:dedicated:" + str(e)[:40])
            continue
        ctx.count("layer:" + layers[0]["t"])
        if res:
            ctx.property_failure(res[0], res[1], dict(res[2], failing_input=spec))


def machine_oracle(spec):
    try:
        return A.oracle(spec)
    except A.Rejected:
        return None


# --------------------------------------------------------------------------- search
def run_search(ctx, n, allow_defects=True):
    for _ in range(n):
        spec = A.gen_spec(ctx.rng, allow_defects=allow_defects)
        ctx.case(A.features(spec), nontrivial=True, sample=None, kind="search:" + spec["mode"])
        try:
            res = A.oracle(spec)
        except A.Rejected as e:
            ctx.count("search:rejected:" + ("reference-inconsistent" if "reference inconsistent" in str(e) else spec["mode"]))
            continue
        for L in spec["layers"]:
            ctx.count("layer:" + L["t"])
        if res:
            ctx.property_failure(res[0], res[1], dict(res[2], failing_input=spec))


def run(ctx):
    with rig.default_dtype(torch.float64):
        variant = detect_variants(ctx)
        ctx.variant.update(variant)
        ctx.log("variants implemented by this tree:", variant)
        run_sampler_cases(ctx, ctx.n(300, 6000), variant)
        # the property itself at the known-defect witnesses (KNOWN-FINDING on the unchanged tree,
        # silent on a tree where the defect is repaired)
        for did, spec in ARCH_WITNESS.items():
            try:
                res = A.oracle(spec)
            except A.Rejected:
                res = None
            ctx.count("witness:" + did + (":fails" if res else ":holds"))
            if res:
                ctx.property_failure(res[0], res[1], dict(res[2], failing_input=spec, lean_witness=WITNESS.get(did)))
        run_attention_and_rnn(ctx, ctx.n(16, 300))
        run_machine(ctx, ctx.n(60, 1500))
        run_hook_cover(ctx, ctx.n(80, 2000))
        run_search(ctx, ctx.n(250, 6000))


def replay(ctx, rp):
    with rig.default_dtype(torch.float64):
        fi = rp.get("failing_input") or rp.get("case")
        if fi is None:
            print("replay file carries no failing input (", rp.get("unchecked"), ")")
            return
        res = None
        if "layers" in fi:
            try:
                res = A.oracle(fi)
            except A.Rejected as e:
                print("rejected:", e)
        else:
            res = case_oracle(fi)
        if res:
            print("REPRODUCED:", res[0], res[1])
            ctx.violations.append(res[0])
        else:
            print("not reproduced on this tree")
