"""Drivers for the two *real* adaptive-clipping implementations (C20).

Everything is observed from outside: `torch.normal` is replaced by `ScriptedNormal`, which logs
every request `(std, size, generator?)`, returns zeros for gradient-noise draws and the scripted
value for the draw that is added to the unclipped count (AdaClipDPOptimizer asks for size `()`,
the ghost adaptive engine for size `(1,)`).  The per-sample gradient norms fed to the Lean model
are the ones the implementation itself computed (read after `backward`, before `step`).
"""
from __future__ import annotations

import contextlib

import torch
import torch.nn as nn

from .. import rig

COUNT_SIZES = ((), (1,))


class ScriptedNormal:
    def __init__(self):
        self.calls = []          # (std, size, has_generator)
        self.z = 0.0             # value returned by the next count draw
        self._real = torch.normal

    def __call__(self, mean=0, std=1.0, size=None, *, generator=None, device=None, dtype=None, **kw):
        if size is None:
            return self._real(mean, std, generator=generator, **kw)
        size = tuple(size)
        if isinstance(std, complex):   # what torch.normal itself does
            raise TypeError("normal(): argument 'std' must be float, not complex")
        self.calls.append((std, size, generator is not None))
        v = float(self.z) if size in COUNT_SIZES else 0.0
        return torch.full(size, v, dtype=dtype or torch.get_default_dtype(), device=device)

    def take(self):
        c, self.calls = self.calls, []
        return c


@contextlib.contextmanager
def scripted_normal():
    s = ScriptedNormal()
    old = torch.normal
    torch.normal = s
    try:
        yield s
    finally:
        torch.normal = old


class SumCrit(nn.Module):
    """criterion with per-sample loss = Σ_j output_ij (shape [B]) ⇒ per-sample gradient of
    `TokenModel` is the input row"""

    def __init__(self, reduction="sum"):
        super().__init__()
        self.reduction = reduction

    def forward(self, out, tgt):
        l = out.sum(dim=1)
        if self.reduction == "none":
            return l
        return l.sum() if self.reduction == "sum" else l.mean()


def rows_for(norms, d, style):
    """input rows whose gradient norms are (up to rounding) `norms`"""
    B = len(norms)
    x = torch.zeros(B, d, dtype=torch.get_default_dtype())
    for i, n in enumerate(norms):
        if style == "basis":
            x[i, i % d] = n
        else:  # dense 3-4-5 direction spread over three coordinates
            j = i % d
            x[i, j] = 0.6 * n
            x[i, (j + 1) % d] = -0.8 * n if i % 2 else 0.8 * n
    return x


def expand_history(acct):
    out = []
    for nm, rate, k in acct.history:
        out += [(nm, rate)] * k
    return out


def map_exc(e):
    m = str(e)
    if isinstance(e, AssertionError) and "max_clipbound must be larger" in m:
        return "err:bad-bounds"
    if isinstance(e, ZeroDivisionError):
        return "err:sigma-split-undefined"
    if isinstance(e, ValueError) and "noise_multiplier" in m and "unclipped_num_std" in m:
        return "err:sigma-split-undefined"
    if isinstance(e, TypeError) and "not complex" in m:
        return "err:sigma-split-undefined"
    if isinstance(e, RuntimeError) and "cannot reshape tensor of 0 elements" in m:
        return "err:empty-batch"
    if isinstance(e, AssertionError) and "Batch size is too small" in m:
        return "err:batch-too-small"
    return "err:" + type(e).__name__ + ":" + m[:80]


def _as_float(v):
    if isinstance(v, complex):
        return v
    return float(v)


class RealAda:
    """AdaClipDPOptimizer on a real GradSampleModule; one `phys()` = zero_grad, backward,
    [signal_skip_step], step."""

    def __init__(self, case):
        from opacus import GradSampleModule, PrivacyEngine
        from opacus.accountants import RDPAccountant
        from opacus.optimizers import AdaClipDPOptimizer

        c = case["cfg"]
        self.case = case
        self.d = case.get("d", 6)
        self.red = case.get("reduction", "sum")
        self.err = None
        kw = dict(
            target_unclipped_quantile=c["gamma"], clipbound_learning_rate=c["eta"], max_clipbound=c["maxC"],
            min_clipbound=c["minC"], unclipped_num_std=c["sigmaB"],
        )
        self.ebs = 4
        try:
            if case.get("via_engine"):
                self.pe = PrivacyEngine(accountant="rdp")
                base = rig.TokenModel(self.d, dtype=torch.get_default_dtype())
                inner = torch.optim.SGD(base.parameters(), lr=0.0)
                ds = torch.utils.data.TensorDataset(torch.zeros(8, self.d), torch.zeros(8))
                dl = torch.utils.data.DataLoader(ds, batch_size=4)
                self.model, self.opt, _ = self.pe.make_private(
                    module=base, optimizer=inner, data_loader=dl, noise_multiplier=c["sigma"], max_grad_norm=case["C0"],
                    clipping="adaptive", poisson_sampling=False, loss_reduction=self.red, **kw)
                self.acct = self.pe.accountant
            else:
                self.model = GradSampleModule(rig.TokenModel(self.d, dtype=torch.get_default_dtype()), loss_reduction=self.red)
                inner = torch.optim.SGD(self.model.parameters(), lr=0.0)
                self.opt = AdaClipDPOptimizer(inner, noise_multiplier=c["sigma"], max_grad_norm=case["C0"],
                                              expected_batch_size=self.ebs, loss_reduction=self.red, **kw)
                self.acct = RDPAccountant()
                self.opt.attach_step_hook(self.acct.get_optimizer_hook_fn(sample_rate=0.01))
            if isinstance(self.opt.noise_multiplier, complex):
                self.err = "err:sigma-split-undefined"
        except (AssertionError, ZeroDivisionError, ValueError) as e:
            self.err = map_exc(e)
        self.pending = []   # (factors-relevant data of skipped chunks)

    def live_mult(self):
        return float(self.opt.noise_multiplier)

    def weight(self):
        return self.model._module.fc.weight

    def phys(self, st):
        opt, model = self.opt, self.model
        x = rows_for(st["norms"], self.d, st.get("style", "basis"))
        B = len(x)
        with scripted_normal() as sn:
            sn.z = st["z"]
            opt.zero_grad()
            out = model(x).sum(dim=1)
            (out.sum() if self.red == "sum" else out.mean() if B else out.sum()).backward()
            p = self.weight()
            gs = p.grad_sample.detach().clone()
            norms = torch.stack([g.reshape(len(g), -1).norm(2, dim=-1) for g in [gs]], dim=1).norm(2, dim=1) if B else torch.zeros(0)
            c_before = float(opt.max_grad_norm)
            mult_before = float(opt.noise_multiplier)
            nh = len(expand_history(self.acct))
            if st.get("skip"):
                opt.signal_skip_step(True)
            try:
                opt.step()
            except Exception as e:  # noqa: BLE001 – mapped to the model's error enum
                if st.get("skip") and opt._step_skip_queue:
                    opt._step_skip_queue.clear()
                return {"kind": map_exc(e), "norms": [float(v) for v in norms]}
            calls = sn.take()
        hist = expand_history(self.acct)
        summed = p.summed_grad.detach().reshape(-1).clone()
        res = {"norms": [float(v) for v in norms], "gs": gs.reshape(B, p.numel()), "summed": summed, "new_hist": hist[nh:]}
        if st.get("skip"):
            res.update(kind="skip", calls=calls)
            return res
        grad_calls = [c for c in calls if c[1] not in COUNT_SIZES]
        count_calls = [c for c in calls if c[1] in COUNT_SIZES]
        res.update(
            kind="rel", clipUsed=c_before, gradMult=mult_before,
            gradStd=[float(c[0]) for c in grad_calls], countStd=[float(c[0]) for c in count_calls],
            sampleSize=int(opt.sample_size), noisy=float(opt.unclipped_num), newC=float(opt.max_grad_norm),
            recorded=[float(h[0]) for h in hist[nh:]], scale=(1.0 if self.red == "sum" else 1.0 / (self.ebs if not self.case.get("via_engine") else opt.expected_batch_size)),
            grad=p.grad.detach().reshape(-1).clone(),
        )
        return res


class RealGhost:
    """PrivacyEngineAdaptiveClipping.make_private(grad_sample_mode="ghost"); one `step()` =
    zero_grad, forward, criterion, loss.backward(), optimizer.step()."""

    def __init__(self, case):
        from opacus.utils.adaptive_clipping.adaptive_clipping_utils import PrivacyEngineAdaptiveClipping

        c = case["cfg"]
        self.case = case
        self.d = case.get("d", 6)
        self.red = case.get("reduction", "sum")
        self.err = None
        self.pe = PrivacyEngineAdaptiveClipping(accountant="rdp")
        base = rig.TokenModel(self.d, dtype=torch.get_default_dtype())
        inner = torch.optim.SGD(base.parameters(), lr=0.0)
        ds = torch.utils.data.TensorDataset(torch.zeros(8, self.d), torch.zeros(8))
        dl = torch.utils.data.DataLoader(ds, batch_size=4)
        self.model, self.opt, self.crit, _ = self.pe.make_private(
            module=base, optimizer=inner, criterion=SumCrit(self.red), data_loader=dl, noise_multiplier=c["sigma"],
            max_grad_norm=case["C0"], poisson_sampling=False, grad_sample_mode="ghost", loss_reduction=self.red,
            target_unclipped_quantile=c["gamma"], min_clipbound=c["minC"], max_clipbound=c["maxC"],
            clipbound_learning_rate=c["eta"])
        self.acct = self.pe.accountant

    def live_mult(self):
        return float(self.opt.noise_multiplier)

    def weight(self):
        return self.model._module.fc.weight

    def phys(self, st):
        opt, model = self.opt, self.model
        x = rows_for(st["norms"], self.d, st.get("style", "basis"))
        B = len(x)
        with scripted_normal() as sn:
            sn.z = st["z"]
            nh = len(expand_history(self.acct))
            opt.zero_grad()
            loss = self.crit(model(x), torch.zeros(B))
            # the norms the engine will use: computed by the first backward inside loss.backward();
            # we read them afterwards (get_norm_sample is a pure function of stored per-layer norms)
            try:
                loss.backward()
                norms = model.get_norm_sample().detach().clone()
                c_used = float(opt.max_grad_norm)
                mult = float(opt.noise_multiplier)
                opt.step()
            except Exception as e:  # noqa: BLE001
                try:
                    norms = model.get_norm_sample().detach().clone()
                except Exception:  # noqa: BLE001
                    norms = torch.zeros(0)
                return {"kind": map_exc(e), "norms": [float(v) for v in norms]}
            calls = sn.take()
        hist = expand_history(self.acct)
        p = self.weight()
        grad_calls = [c for c in calls if c[1] not in COUNT_SIZES]
        count_calls = [c for c in calls if c[1] in COUNT_SIZES]
        return {
            "kind": "rel", "norms": [float(v) for v in norms], "gs": x.reshape(B, self.d).clone(),
            "summed": p.summed_grad.detach().reshape(-1).clone(), "grad": p.grad.detach().reshape(-1).clone(),
            "clipUsed": c_used, "gradMult": mult, "gradStd": [float(c[0]) for c in grad_calls],
            "countStd": [float(c[0]) for c in count_calls], "count_has_generator": [c[2] for c in count_calls],
            "sampleSize": B, "noisy": None, "newC": float(opt.max_grad_norm), "module_C": float(model.max_grad_norm),
            "recorded": [float(h[0]) for h in hist[nh:]], "new_hist": hist[nh:],
            "scale": (1.0 if self.red == "sum" else 1.0 / opt.expected_batch_size),
        }
