"""Real-object rig for C16: a complete PrivacyEngine / GradSampleModule / DPOptimizer / scheduler set
built through `PrivacyEngine.make_private`, driven by the op alphabet of the Lean machine
(`log b`, `skip b`, `ns`, `cs`, `save`, `load`, …) and observed from outside.

Two model kinds:
  token  one bias-free Linear(8,1), loss = Σ outputs, batch b = one sample 5000·e_{b mod 8}:
         the released gradient then spells out which batches were summed and with which clip bound
         (`torch.normal` patched to zeros and logged) — used for the model/implementation diff;
  mlp    a small tanh MLP with cross-entropy, real Gaussian noise from a pinned generator — used
         by the property oracle (resumed vs uninterrupted training).
"""
from __future__ import annotations

import io
import math

import torch
import torch.nn as nn

from .. import rig

D_TOK = 8
BIG = 5000.0


# module-level (hence picklable) schedule functions for Lambda schedulers
def lam_lin(e):
    return 1.0 + 0.25 * e


def lam_inv(e):
    return 1.0 / (1.0 + e)


def lam_alt(e):
    return 0.5 if e % 2 else 1.5


def lam_cos(e):
    return 1.0 + 0.5 * math.cos(e)


LAMBDAS = {"lin": lam_lin, "inv": lam_inv, "alt": lam_alt, "cos": lam_cos}


class Ramp:
    """a schedule given as a callable OBJECT with state of its own (a warm-up that counts how often it was asked): such
    objects are part of a Lambda scheduler's state_dict and have to come back from a checkpoint with their state"""

    def __init__(self):
        self.calls = 0

    def __call__(self, e):
        self.calls += 1
        return 1.0 / (1.0 + 0.125 * self.calls)

    def state(self):
        return ("Ramp", self.calls)


def map_err(e: BaseException) -> str:
    m = str(e)
    if "have to stay constant in GaussianAccountant" in m:
        return "err:gdp-heterogeneous"
    if "either None or empty" in m:
        return "err:empty-state"
    if "does not have the key `history`" in m:
        return "err:missing-history"
    if "does not have the key `mechanism`" in m:
        return "err:missing-mechanism"
    if "cannot be loaded into" in m and "with mechanism" in m:
        return "err:mechanism-mismatch"
    return "err:" + type(e).__name__


class MLP(nn.Module):
    def __init__(self):
        super().__init__()
        self.a = nn.Linear(6, 5)
        self.b = nn.Linear(5, 3)

    def forward(self, x):
        return self.b(torch.tanh(self.a(x)))


class RealEng:
    """cfg keys: mech, opt ('sgdm'|'adam'|'sgd'), sigma0, c0, nb (len(data_loader) → q = 1/nb),
    ns / cs (scheduler specs as in c17), kind ('token'|'mlp'), clipping ('flat'|'adaptive'),
    seed (init / noise generator)"""

    def __init__(self, cfg, mech=None):
        self.cfg = dict(cfg)
        self.mech = mech or cfg["mech"]
        self.kind = cfg.get("kind", "token")
        self.saved = None
        self.ret = None
        self.sd = None
        self.gen_state = None
        self.last_release = None
        self.build()

    # ------------------------------------------------------------------ construction
    def build(self):
        from opacus import PrivacyEngine
        from opacus import schedulers as S

        c = self.cfg
        torch.manual_seed(int(c.get("seed", 0)) + 17)
        if self.kind == "token":
            model = rig.TokenModel(D_TOK)
            n = 4 * c["nb"]
            data = torch.utils.data.TensorDataset(torch.zeros(n, D_TOK, dtype=torch.float64), torch.zeros(n))
            red = "sum"
        else:
            model = MLP().double()
            n = 4 * c["nb"]
            data = torch.utils.data.TensorDataset(torch.zeros(n, 6, dtype=torch.float64), torch.zeros(n, dtype=torch.long))
            red = "mean"
        if c["opt"] == "adam":
            inner = torch.optim.Adam(model.parameters(), lr=0.01)
        elif c["opt"] == "sgdm":
            inner = torch.optim.SGD(model.parameters(), lr=0.05, momentum=0.9)
        else:
            inner = torch.optim.SGD(model.parameters(), lr=0.05)
        dl = torch.utils.data.DataLoader(data, batch_size=4)
        self.pe = PrivacyEngine(accountant=self.mech)
        self.gen = torch.Generator().manual_seed(int(c.get("seed", 0)) + 4242)
        kw = {}
        if c.get("clipping", "flat") == "adaptive":
            kw = dict(clipping="adaptive", target_unclipped_quantile=0.5, clipbound_learning_rate=0.2,
                      max_clipbound=1e3, min_clipbound=1e-3, unclipped_num_std=4.0)
        self.model, self.opt, self.dl = self.pe.make_private(
            module=model, optimizer=inner, data_loader=dl, noise_multiplier=c["sigma0"], max_grad_norm=c["c0"],
            loss_reduction=red, poisson_sampling=True, noise_generator=self.gen, **kw)
        self.sample_rate = 1 / len(self.dl)   # the expression make_private evaluates (on the returned loader)

        def mk(spec, noise):
            if spec[0] == "none":
                return None
            if spec[0] == "exp":
                return (S.ExponentialNoise if noise else S.ExponentialGradClip)(self.opt, gamma=spec[1])
            if spec[0] == "step":
                return (S.StepNoise if noise else S.StepGradClip)(self.opt, step_size=spec[2], gamma=spec[1])
            fn = Ramp() if spec[1] == "obj" else LAMBDAS[spec[1]]
            if noise:
                return S.LambdaNoise(self.opt, noise_lambda=fn)
            return S.LambdaGradClip(self.opt, scheduler_function=fn)

        self.nsched = mk(tuple(c["ns"]), True)
        self.csched = mk(tuple(c["cs"]), False)

    # ------------------------------------------------------------------ observation
    def live(self):
        return float(self.opt.noise_multiplier), float(self.opt.max_grad_norm)

    def history(self):
        return [(float(a), float(b), int(n)) for a, b, n in self.pe.accountant.history]

    def inner_steps(self):
        st = self.opt.original_optimizer.state_dict()["state"]
        if not st:
            return 0
        s0 = st[sorted(st)[0]]
        if "step" in s0:
            return int(s0["step"])
        return 1 if s0.get("momentum_buffer") is not None else 0

    def _decode(self, g):
        """token model: vector → sorted [(axis, clip bound used)]"""
        out = []
        for ax in range(D_TOK):
            v = float(g[ax])
            if v != 0.0:
                out.append((ax, v * (BIG + 1e-6) / BIG))
        return out

    def pending(self):
        p = next(iter(self.opt.params))
        sg = getattr(p, "summed_grad", None)
        if sg is None or self.kind != "token":
            return [] if sg is None else None
        return self._decode(sg.reshape(-1))

    def obs(self):
        s, c = self.live()
        return {
            "S": s, "C": c, "H": self.history(),
            "N": None if self.nsched is None else int(self.nsched.last_epoch),
            "K": None if self.csched is None else int(self.csched.last_epoch),
            "I": self.inner_steps(), "P": self.pending(), "last": self.last_release,
        }

    def params_flat(self):
        return torch.cat([p.detach().reshape(-1) for p in self.model._module.parameters()]).clone()

    # ------------------------------------------------------------------ ops
    def _fwd_bwd(self, b):
        if self.kind == "token":
            x = torch.zeros(1, D_TOK, dtype=torch.float64)
            x[0, b % D_TOK] = BIG
            self.model(x).sum().backward()
        else:
            g = torch.Generator().manual_seed(1000 + b)
            x = torch.randn(4, 6, generator=g, dtype=torch.float64)
            y = torch.randint(0, 3, (4,), generator=g)
            nn.functional.cross_entropy(self.model(x), y).backward()

    def do(self, op):
        """returns an obs dict or an 'err:…' string"""
        o = op.split()
        try:
            if o[0] in ("log", "skip"):
                b = int(o[1])
                # the loop of BatchMemoryManager: [signal_skip_step] ; forward/backward ; step ; zero_grad
                if o[0] == "skip":
                    self.opt.signal_skip_step(True)
                self._fwd_bwd(b)
                if self.kind == "token":
                    with rig.patched_normal("zero") as lg:
                        self.opt.step()
                    if o[0] == "log":
                        p = next(iter(self.opt.params))
                        std = lg.calls[-1][0] if lg.calls else 0.0
                        self.last_release = (self._decode(p.grad.reshape(-1)), std)
                else:
                    self.opt.step()
                self.opt.zero_grad()
                if o[0] == "log" and self.cfg.get("lrdecay"):
                    # what a torch LR scheduler does through the DP optimizer: the learning rate lives in
                    # param_groups, which optimizer.state_dict() carries even when `state` is empty
                    for g in self.opt.param_groups:
                        g["lr"] *= self.cfg["lrdecay"]
                return self.obs()
            if o[0] == "ns":
                if self.nsched is not None:
                    self.nsched.step()
                return self.obs()
            if o[0] == "cs":
                if self.csched is not None:
                    self.csched.step()
                return self.obs()
            if o[0] == "save":
                buf = io.BytesIO()
                self.pe.save_checkpoint(path=buf, module=self.model, optimizer=self.opt,
                                        noise_scheduler=self.nsched, grad_clip_scheduler=self.csched)
                self.saved = buf.getvalue()
                self.gen_state = self.gen.get_state()
                return "ok"
            if o[0] == "saveret":
                # second-generation checkpoint: the dict RETURNED by load_checkpoint is handed back as
                # `checkpoint_dict` (its user keys must survive, its state entries must be overwritten)
                buf = io.BytesIO()
                self.pe.save_checkpoint(path=buf, module=self.model, optimizer=self.opt, noise_scheduler=self.nsched,
                                        grad_clip_scheduler=self.csched, checkpoint_dict=self.ret)
                self.saved = buf.getvalue()
                self.gen_state = self.gen.get_state()
                return "ok"
            if o[0] == "load":
                return self._load(self.mech, self.saved)
            if o[0] == "loadinto":
                return self._load(o[1], self.saved)
            if o[0] == "loadbad":
                ck = torch.load(io.BytesIO(self.saved), weights_only=False)
                a = ck["privacy_accountant_state_dict"]
                if o[1] == "empty":
                    ck["privacy_accountant_state_dict"] = {}
                elif o[1] == "none":
                    ck["privacy_accountant_state_dict"] = None
                elif o[1] == "nohist":
                    del a["history"]
                elif o[1] == "nomech":
                    del a["mechanism"]
                buf = io.BytesIO()
                torch.save(ck, buf)
                return self._load(self.mech, buf.getvalue())
            if o[0] == "sd":
                self.sd = self.pe.accountant.state_dict()
                return [(float(a), float(b), int(n)) for a, b, n in self.sd["history"]]
            if o[0] == "sdhist":
                return [(float(a), float(b), int(n)) for a, b, n in self.sd["history"]]
            if o[0] == "dicthist":
                return [(float(a), float(b), int(n)) for a, b, n in self.ret["privacy_accountant_state_dict"]["history"]]
            if o[0] == "loadsd":
                self.pe.accountant.load_state_dict(self.sd)
                return self.obs()
        except Exception as e:  # noqa: BLE001 - whatever the implementation raises is an outcome to compare
            return map_err(e)
        raise ValueError(op)

    def _load(self, mech, blob):
        """fresh engine/model/optimizer/schedulers from the same configuration, then load_checkpoint;
        on success the fresh objects replace the current ones (same noise generator state)"""
        f = RealEng(self.cfg, mech=mech)
        if getattr(self, "carry_live", None):
            # the user carries the live (sigma, C) next to the checkpoint: written into the fresh optimizer after the
            # schedulers were constructed, before load_checkpoint
            f.opt.noise_multiplier, f.opt.max_grad_norm = self.carry_live
        ret = f.pe.load_checkpoint(path=io.BytesIO(blob), module=f.model, optimizer=f.opt,
                                   noise_scheduler=f.nsched, grad_clip_scheduler=f.csched)
        if self.gen_state is not None:
            f.gen.set_state(self.gen_state)
        keep = (self.saved, self.gen_state, self.sd)
        f.__dict__.pop("carry_live", None)
        self.__dict__.pop("carry_live", None)
        self.__dict__.update(f.__dict__)
        self.saved, self.gen_state, self.sd = keep
        self.ret = ret
        self.last_release = None
        return self.obs()
