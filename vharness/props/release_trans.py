"""Translator tie for the release arithmetic (C03, C04): what std the gradient noise is drawn with, how it is added, and
what the noised sum is divided by, as written at each site → lean/OpacusLean/Generated/ReleaseArith.lean (real arithmetic,
elementwise).

  optimizers/optimizer.py             DPOptimizer.add_noise                    _generate_noise(std=…), p.grad = …
                                      DPOptimizer.scale_grad                   p.grad /= …
  optimizers/ddp_perlayeroptimizer.py DistributedPerLayerOptimizer._add_noise_parameter / _scale_grad_parameter
  optimizers/ddpoptimizer.py          DistributedDPOptimizer.reduce_gradients  p.grad /= …
  optimizers/ddpoptimizer_fast_gradient_clipping.py  …reduce_gradients         p.grad /= …
plus the number of `_generate_noise(…)` calls under opacus/optimizers whose `reference` is a `summed_grad` (a new, untied
gradient-noise site changes that number).  `Props/C04.lean` proves the two stds equal to `σ·C` (the std of every request of
the model's `addNoiseReqs`), `Props/C03.lean` the sums and divisors equal to those of the model's `release` / the
distributed model.  Shape-only calls (`.view_as`, `.view`, `.reshape`) are dropped; same-class helpers called from
the function are searched too, and a local that merely names an input is followed.
"""
from __future__ import annotations

import ast
from pathlib import Path

from .. import core
from ..pytrans import Untranslatable, find_function
from .c02_trans import expr as arith

GEN_FILE = core.LEAN / "OpacusLean" / "Generated" / "ReleaseArith.lean"
OPT = "opacus/optimizers/"
ENV = {"self.noise_multiplier": "σ", "self.max_grad_norm": "C", "p.summed_grad": "s", "noise": "z",
       "self.expected_batch_size": "E", "self.accumulated_iterations": "k", "p.accumulated_iterations": "k", "self.world_size": "W"}


def strip_shape(n):
    while isinstance(n, ast.Call) and isinstance(n.func, ast.Attribute) and n.func.attr in ("view_as", "view", "reshape", "reshape_as", "contiguous"):
        n = n.func.value
    return n


def scope(fn, tree, cls, depth=2):
    """`fn` and the helpers of the same class it calls (`self.m(…)`), so that an expression moved into a helper is found"""
    out, todo = [fn], [(fn, 0)]
    while todo:
        f, d = todo.pop()
        if d >= depth:
            continue
        for c in ast.walk(f):
            if isinstance(c, ast.Call) and isinstance(c.func, ast.Attribute) and ast.unparse(c.func.value) == "self":
                try:
                    h = find_function(tree, c.func.attr, cls=cls)
                except Untranslatable:
                    continue
                if h not in out:
                    out.append(h)
                    todo.append((h, d + 1))
    return out


def tr(n, fns=()):
    env = dict(ENV)
    for f in fns:                               # locals that merely name one of the inputs (`summed_grad = p.summed_grad`)
        for a in ast.walk(f):
            if isinstance(a, ast.Assign) and len(a.targets) == 1 and isinstance(a.targets[0], ast.Name) and ast.unparse(a.value) in ENV:
                env.setdefault(a.targets[0].id, ENV[ast.unparse(a.value)])
    return arith(strip_shape(n), env)


def one(xs, what):
    if len(xs) != 1:
        raise Untranslatable(f"{len(xs)} candidates for {what}")
    return xs[0]


def noise_std(fns):
    fn = fns[0]
    calls = [c for f in fns for c in ast.walk(f) if isinstance(c, ast.Call) and ast.unparse(c.func) == "_generate_noise"]
    c = one(calls, f"_generate_noise call in {fn.name}")
    kw = {k.arg: k.value for k in c.keywords}
    std = kw.get("std", c.args[0] if c.args else None)
    if std is None:
        raise Untranslatable("no std argument")
    if "generator" not in kw or ast.unparse(kw["generator"]) != "self.generator":
        raise Untranslatable("the optimizer's generator is not passed to _generate_noise")
    return tr(std, fns)


def assigned(fns, target, aug=None):
    out = []
    for s in (x for f in fns for x in ast.walk(f)):
        if aug is None and isinstance(s, ast.Assign) and len(s.targets) == 1 and ast.unparse(s.targets[0]) == target:
            out.append(s.value)
        if aug is not None and isinstance(s, ast.AugAssign) and isinstance(s.op, aug) and ast.unparse(s.target) == target:
            out.append(s.value)
    return out


def translate():
    src = lambda rel: ast.parse((Path(core.REPO) / rel).read_text())
    opt, ddpl = src(OPT + "optimizer.py"), src(OPT + "ddp_perlayeroptimizer.py")
    ddp, ddpg = src(OPT + "ddpoptimizer.py"), src(OPT + "ddpoptimizer_fast_gradient_clipping.py")
    add = scope(find_function(opt, "add_noise", cls="DPOptimizer"), opt, "DPOptimizer")
    addl = scope(find_function(ddpl, "_add_noise_parameter", cls="DistributedPerLayerOptimizer"), ddpl, "DistributedPerLayerOptimizer")
    sc = scope(find_function(opt, "scale_grad", cls="DPOptimizer"), opt, "DPOptimizer")
    scl = scope(find_function(ddpl, "_scale_grad_parameter", cls="DistributedPerLayerOptimizer"), ddpl, "DistributedPerLayerOptimizer")
    red = scope(find_function(ddp, "reduce_gradients", cls="DistributedDPOptimizer"), ddp, "DistributedDPOptimizer")
    redg = scope(find_function(ddpg, "reduce_gradients", cls="DistributedDPOptimizerFastGradientClipping"), ddpg, "DistributedDPOptimizerFastGradientClipping")
    defs = [
        ("flatStd", "σ C", noise_std(add), "`DPOptimizer.add_noise`: `_generate_noise(std=…)`"),
        ("ddpPerLayerStd", "σ C", noise_std(addl), "`DistributedPerLayerOptimizer._add_noise_parameter`: `_generate_noise(std=…)`"),
        ("flatNoised", "s z", tr(one(assigned(add, "p.grad"), "p.grad = … in add_noise"), add), "`DPOptimizer.add_noise`: `p.grad = …` (`s` = `p.summed_grad`, `z` = the noise)"),
        ("ddpPerLayerNoised", "s z", tr(one(assigned(addl, "p.grad"), "p.grad = … in _add_noise_parameter"), addl), "`DistributedPerLayerOptimizer._add_noise_parameter`: `p.grad = …`"),
        ("flatScale", "E k", tr(one(assigned(sc, "p.grad", ast.Div), "p.grad /= … in scale_grad"), sc), "`DPOptimizer.scale_grad` (mean reduction): `p.grad /= …`"),
        ("ddpPerLayerScale", "E k W", tr(one(assigned(scl, "p.grad", ast.Div), "p.grad /= … in _scale_grad_parameter"), scl),
         "`DistributedPerLayerOptimizer._scale_grad_parameter` (mean reduction): `p.grad /= …`"),
        ("ddpReduce", "W", tr(one(assigned(red, "p.grad", ast.Div), "p.grad /= … in reduce_gradients"), red),
         "`DistributedDPOptimizer.reduce_gradients` (mean reduction, after the all-reduce SUM): `p.grad /= …`"),
        ("ddpGhostReduce", "W", tr(one(assigned(redg, "p.grad", ast.Div), "p.grad /= … in reduce_gradients (ghost)"), redg),
         "`DistributedDPOptimizerFastGradientClipping.reduce_gradients` (mean reduction): `p.grad /= …`"),
    ]
    n_sites = 0
    for f in sorted((Path(core.REPO) / OPT).glob("*.py")):
        for c in ast.walk(ast.parse(f.read_text())):
            if isinstance(c, ast.Call) and ast.unparse(c.func) == "_generate_noise":
                ref = next((k.value for k in c.keywords if k.arg == "reference"), c.args[1] if len(c.args) > 1 else None)
                if ref is not None and "summed_grad" in ast.unparse(ref):
                    n_sites += 1
    out = ["import Mathlib.Data.Real.Basic",
           "/-! GENERATED by vharness/props/release_trans.py from opacus/optimizers/*.py – do not edit. -/",
           "namespace Opacus.Generated.Release", ""]
    for name, params, body, doc in defs:
        out += [f"/-- {doc} -/", f"noncomputable def {name} ({params} : ℝ) : ℝ :=", "  " + body, ""]
    out += ["/-- `_generate_noise(…, reference=<a summed_grad>, …)` calls under `opacus/optimizers/` -/",
            f"def gradNoiseSites : Nat := {n_sites}", "", "end Opacus.Generated.Release"]
    return "\n".join(out) + "\n"


if __name__ == "__main__":
    print(translate(), end="")
