"""Translator tie for C05: the ORDER of the phases of a DP step and what the accountant hook is called with →
lean/OpacusLean/Generated/PreStep.lean, re-generated from the tree under test on every run.

(1) `DPOptimizer.pre_step` and `DPOptimizerFastGradientClipping.pre_step` as the list of their phases in source order:
      `if self.grad_samples is None or len(self.grad_samples) == 0: return True`   → noParamsShortcut
      `self.clip_and_accumulate()` / `self.accumulate()`                            → clipAccumulate
      `if self._check_skip_next_step(): self._is_last_step_skipped = True; return False` → skipCheck
      `self.add_noise()` → addNoise,  `self.scale_grad()` → scaleGrad,
      `if self.step_hook: self.step_hook(self)` → hook,  `self._is_last_step_skipped = False` → clearSkipped,  `return True` → proceed
    A no-argument helper method of the same class (`self._noise_and_scale()`) is followed and its phases are taken in place; `skip = self._check_skip_next_step()`
    followed at once by `if skip: …` is the skip test.  Any other statement is outside the subset.
(2) `DPOptimizer.step`: that the inner optimizer's `step()` runs exactly when `pre_step()` returned true
    (`if self.pre_step(): return self.original_optimizer.step() else: return None`, a closure block before it is skipped).
(3) `IAccountant.get_optimizer_hook_fn`: the two keyword arguments of the `self.step(...)` call of the hook, as real expressions of the
    optimizer's live `noise_multiplier`, the hook's `sample_rate` and the optimizer's `accumulated_iterations`.
`Props/C05.lean` proves (`generated_pre_step_eq_model`) that both phase lists are the order the engine model's `finishStep` implements
(accumulate, then the skip test, then noise, then scaling, then the accountant hook, then the inner step – so a skipped step adds no noise
and is not accounted, and a released one is noised before it is accounted and accounted before it is applied), and that the hook records
`(σ live, q · k)`, the pair the model's `.account σ k` event stands for.
"""
from __future__ import annotations

import ast
from pathlib import Path

from .. import core
from ..pytrans import Fn, Untranslatable, find_function

GEN_FILE = core.LEAN / "OpacusLean" / "Generated" / "PreStep.lean"
SITES = [("opacus/optimizers/optimizer.py", "DPOptimizer", "flat"),
         ("opacus/optimizers/optimizer_fast_gradient_clipping.py", "DPOptimizerFastGradientClipping", "ghost")]


def _nodoc(stmts):
    return [s for s in stmts if not (isinstance(s, ast.Expr) and isinstance(s.value, ast.Constant))]


def phases(rel, cls):
    tree = ast.parse((Path(core.REPO) / rel).read_text())
    cnode = [c for c in tree.body if isinstance(c, ast.ClassDef) and c.name == cls]
    if not cnode:
        raise Untranslatable(f"class {cls} not found")
    methods = {f.name: f for f in cnode[0].body if isinstance(f, ast.FunctionDef)}
    fn = find_function(tree, "pre_step", cls=cls)

    def walk(stmts, depth, top):
        out = []
        stmts = _nodoc(stmts)
        k = 0
        while k < len(stmts):
            s = stmts[k]
            k += 1
            u = ast.unparse(s)
            if top and isinstance(s, ast.If) and not s.orelse and ast.unparse(s.test) in ("self.grad_samples is None or len(self.grad_samples) == 0", "not self.grad_samples") \
                    and [ast.unparse(b) for b in s.body] == ["return True"]:
                out.append("noParamsShortcut")
            elif u in ("self.clip_and_accumulate()", "self.accumulate()"):
                out.append("clipAccumulate")
            elif top and isinstance(s, ast.Assign) and len(s.targets) == 1 and isinstance(s.targets[0], ast.Name) and ast.unparse(s.value) == "self._check_skip_next_step()" \
                    and k < len(stmts) and isinstance(stmts[k], ast.If) and not stmts[k].orelse and ast.unparse(stmts[k].test) == s.targets[0].id \
                    and [ast.unparse(b) for b in stmts[k].body] == ["self._is_last_step_skipped = True", "return False"]:
                out.append("skipCheck")          # `skip = self._check_skip_next_step(); if skip: …` – the signal is consumed at the call
                k += 1
            elif top and isinstance(s, ast.If) and not s.orelse and ast.unparse(s.test) == "self._check_skip_next_step()" \
                    and [ast.unparse(b) for b in s.body] == ["self._is_last_step_skipped = True", "return False"]:
                out.append("skipCheck")
            elif u == "self.add_noise()":
                out.append("addNoise")
            elif u == "self.scale_grad()":
                out.append("scaleGrad")
            elif isinstance(s, ast.If) and not s.orelse and ast.unparse(s.test) in ("self.step_hook", "self.step_hook is not None") and [ast.unparse(b) for b in s.body] == ["self.step_hook(self)"]:
                out.append("hook")
            elif u == "self._is_last_step_skipped = False":
                out.append("clearSkipped")
            elif top and u == "return True":
                out.append("proceed")
            elif not top and u in ("return", "return None"):
                pass
            elif isinstance(s, ast.Expr) and isinstance(s.value, ast.Call) and isinstance(s.value.func, ast.Attribute) and ast.unparse(s.value.func.value) == "self" \
                    and not s.value.args and not s.value.keywords and s.value.func.attr in methods and depth < 3 and s.value.func.attr != "pre_step":
                out += walk(methods[s.value.func.attr].body, depth + 1, False)      # a helper method of the same class: its phases in place
            else:
                raise Untranslatable(f"{cls}.pre_step statement " + u[:100])
        return out

    return walk(fn.body, 0, True)


def step_gate():
    fn = find_function(ast.parse((Path(core.REPO) / SITES[0][0]).read_text()), "step", cls="DPOptimizer")
    body = _nodoc(fn.body)
    if body and isinstance(body[0], ast.If) and ast.unparse(body[0].test) == "closure is not None" and not body[0].orelse:
        body = body[1:]
    if len(body) == 1 and isinstance(body[0], ast.If) and ast.unparse(body[0].test) == "self.pre_step()" \
            and [ast.unparse(b) for b in body[0].body] == ["return self.original_optimizer.step()"] and [ast.unparse(b) for b in body[0].orelse] in (["return None"], []):
        return True
    if len(body) == 2 and isinstance(body[0], ast.If) and ast.unparse(body[0].test) == "not self.pre_step()" and [ast.unparse(b) for b in body[0].body] == ["return None"] \
            and ast.unparse(body[1]) == "return self.original_optimizer.step()":
        return True
    raise Untranslatable("DPOptimizer.step body")


def hook_args():
    fn = find_function(ast.parse((Path(core.REPO) / "opacus/accountants/accountant.py").read_text()), "get_optimizer_hook_fn", cls="IAccountant")
    inner = [s for s in _nodoc(fn.body) if isinstance(s, ast.FunctionDef)]
    if len(inner) != 1 or len(inner[0].args.args) != 1:
        raise Untranslatable("get_optimizer_hook_fn: hook function")
    o = inner[0].args.args[0].arg
    calls = [s.value for s in _nodoc(inner[0].body) if isinstance(s, ast.Expr) and isinstance(s.value, ast.Call) and ast.unparse(s.value.func) == "self.step"]
    if len(calls) != 1 or len(_nodoc(inner[0].body)) != 1 or calls[0].args:
        raise Untranslatable("hook body is not a single self.step(…) call with keyword arguments")
    kws = {k.arg: k.value for k in calls[0].keywords}
    if set(kws) != {"noise_multiplier", "sample_rate"}:
        raise Untranslatable("hook keyword arguments " + str(sorted(kws)))
    f = Fn({f"{o}.noise_multiplier": "sigmaLive", "sample_rate": "q", f"{o}.accumulated_iterations": "k"})
    return f.expr(kws["noise_multiplier"]), f.expr(kws["sample_rate"])


def translate():
    out = ["import Mathlib.Data.Real.Basic",
           "/-! GENERATED by vharness/props/c05_prestep_trans.py from pre_step of both DP optimizers, DPOptimizer.step and IAccountant.get_optimizer_hook_fn – do not edit. -/",
           "set_option linter.unusedVariables false", "namespace Opacus.Generated.PreStep", "",
           "inductive Phase where | noParamsShortcut | clipAccumulate | skipCheck | addNoise | scaleGrad | hook | clearSkipped | proceed",
           "deriving DecidableEq, Repr", ""]
    for rel, cls, name in SITES:
        ph = phases(rel, cls)
        out += [f"/-- `{cls}.pre_step`, phase by phase in source order -/", f"def {name} : List Phase := [" + ", ".join("." + p for p in ph) + "]", ""]
    out += ["/-- `DPOptimizer.step`: the inner optimizer steps exactly when `pre_step()` returned true -/", f"def innerStepIffPreStep : Bool := {'true' if step_gate() else 'false'}", ""]
    a, b = hook_args()
    out += ["/-- the accountant hook: `self.step(noise_multiplier = …, sample_rate = …)` -/",
            f"noncomputable def hookSigma (sigmaLive q k : ℝ) : ℝ := {a}", f"noncomputable def hookRate (sigmaLive q k : ℝ) : ℝ := {b}", "", "end Opacus.Generated.PreStep"]
    return "\n".join(out) + "\n"


if __name__ == "__main__":
    print(translate(), end="")
