"""C03 — a DP step hands the inner optimizer (Σ_i min(1, C/(‖g_i‖+1e-6))·g_i + z)/B.

Obligations (Lean): see THEOREMS — the release formula of the step machine for every clipping
mode under any BatchMemoryManager-shaped / accumulation-shaped driving, its ghost counterpart,
`modes_agree`, `below_C_unchanged`, `zero_noise_huge_C_is_plain_mean`, the optimizer table
(`decide` over the table regenerated from the running `get_optimizer_class`), the
`expected_batch_size` truncation witnesses (kernel evaluation of binary64) and the simulation
theorems tying the executable carrier of the driver to the model carrier of the theorems.

Correspondence:
  step      real GradSampleModule (hooks / functorch / ew) + the optimizer class chosen by the real
            get_optimizer_class, driven op by op (signal_skip_step, forward/backward, pre_step,
            zero_grad) with torch.normal patched to numbered constant tensors, vs the step machine
            of the driver fed the same per-sample gradients: pre_step's verdict exactly,
            summed_grad and p.grad to 1e-9
  ghoststep the same for GradSampleModuleFastGradientClipping + DPLossFastGradientClipping +
            DPOptimizerFastGradientClipping (driver fed what the real norm samplers were fed)
  inner     SGD / momentum / Adam only observe p.grad: parameter trajectory of the DP run vs a
            plain optimizer of the same kind fed the model's release
  ebs       real PrivacyEngine.make_private(...).expected_batch_size and the Python expression
            int(N*(1/L)) on whole boxes vs `engineEbs` / `ebsFloat` / `ebsExact`, exactly
  table     get_optimizer_class over its whole domain → Generated/OptimizerTable.lean (re-proved when
            it changes)
Search: real engine step vs an independent NumPy implementation of the formula from micro-batch
gradients (1e-9, float64), and σ=0 / huge C vs the plain non-private optimizer step.
"""
from __future__ import annotations

import math
import os
import random

import numpy as np
import torch
import torch.nn as nn

from .. import core, rig
from ..core import h2f
from . import c02 as C2
from . import c02_rig as R

PID = "C03"
MODULES = ["OpacusLean.Props.C03"]
THEOREMS = [
    "Opacus.C03.release_formula",
    "Opacus.C03.release_formula_pointwise",
    "Opacus.C03.release_formula_ghost",
    "Opacus.C03.release_empty_batch",
    "Opacus.C03.below_C_unchanged",
    "Opacus.C03.below_C_unchanged_perLayer",
    "Opacus.C03.zero_noise_huge_C_is_plain_mean",
    "Opacus.C03.modes_agree",
    "Opacus.C03.optimizer_table_sound",
    # the tie to the source: Generated/ReleaseArith.lean is re-translated from opacus/optimizers/*.py on every run
    "Opacus.C03.generated_release_arith_eq_model",
    "Opacus.C03.generated_release_pointwise",
    "Opacus.C03.ebs_trunc_counterexample",
    "Opacus.C03.ebs_exact_eq_float_probe",
    "Opacus.C03.ebs_trunc_characterisation",
    "Opacus.C03.ebs_floor_or_one_less_box",
    "Opacus.Step.preStep_map",
    "Opacus.Step.ghostPreStep_map",
    "Opacus.Step.execCarrier_hom",
    "Opacus.Ghost.ghostAccumulateExec_store",
]
RULE = (
    "step case = (model from the zoo, grad_sample_mode, clipping, reduction, expected_batch_size E≠B, script of physical steps each with 1–2 backward passes, "
    "all but the last signalled as skipped) from VERIF_SEED; non-trivial iff ≥2 samples in total, at least one sample clipped and one not, and E·k ≠ actual batch size; "
    "distinct by (arch, mode, clipping, reduction, E, script shape, weight seed)"
)
TRUSTED = [
    "the translator vharness/props/release_trans.py (Python `ast` -> real arithmetic for `p.grad = (p.summed_grad + noise).view_as(p)`, `p.grad /= expected_batch_size * accumulated_iterations` and the distributed divisors; shape-only calls dropped; anything else is reported as a broken tie) is trusted to render those expressions faithfully; when and on which tensors they run is tied by the behavioural correspondence",
    "autograd linearity for the ghost second backward; inner optimizers (SGD/momentum/Adam) are outside the model: they only read p.grad (checked by trajectory comparison)",
    "noise enters as an arbitrary tensor z (its law is C04's subject)",
]
PARTIAL = [
    "expected_batch_size: binary64 truncation characterised on finite boxes by kernel evaluation + exhaustive run-time comparison with CPython; no closed-form theorem for all (N,L)",
    "the `_processed` flag protocol, step hooks and accounting inside pre_step are not modelled here (C11, C05)",
    "distributed variants (division of expected_batch_size by world_size, rank-0 noise) are C18's",
]

fdec = C2.fdec
TABLE_PATH = core.LEAN / "OpacusLean" / "Generated" / "OptimizerTable.lean"
CLIPPINGS_DOM = ["flat", "per_layer", "adaptive", "unknown"]
GSM_DOM = ["hooks", "functorch", "ew", "ghost", "no_op", "None"]


# --------------------------------------------------------------------------- table
def extract_table():
    from opacus.optimizers import get_optimizer_class

    rows = []
    for c in CLIPPINGS_DOM:
        for dist in (False, True):
            for g in GSM_DOM:
                try:
                    k = get_optimizer_class(clipping=c, distributed=dist, grad_sample_mode=None if g == "None" else g).__name__
                except ValueError:
                    k = "ERR"
                rows.append((c, dist, g, k))
    return rows


def table_source(rows):
    body = ",\n".join(f'  ("{c}", {"true" if d else "false"}, "{g}", "{k}")' for c, d, g, k in rows)
    return (
        "/-! GENERATED by vharness/props/c03.py from the running `opacus.optimizers.get_optimizer_class`\n"
        "over clipping × distributed × grad_sample_mode — rewritten on every run of `./check C03`; do not edit.\n"
        'Row: (clipping, distributed, grad_sample_mode, selected class name or "ERR" for ValueError). -/\n'
        "namespace Opacus.Generated\n\n"
        "def optimizerTable : List (String × Bool × String × String) := [\n" + body + "\n]\n\nend Opacus.Generated\n"
    )


SPEC_KIND = {
    "DPOptimizer": ("flat", False, False), "DistributedDPOptimizer": ("flat", True, False),
    "DPOptimizerFastGradientClipping": ("flat", False, True), "DistributedDPOptimizerFastGradientClipping": ("flat", True, True),
    "DPPerLayerOptimizer": ("per_layer", False, False), "DistributedPerLayerOptimizer": ("per_layer", True, False),
    "SimpleDistributedPerLayerOptimizer": ("per_layer", True, False), "AdaClipDPOptimizer": ("adaptive", False, False),
}


def table_oracle(rows):
    """the property on the implementation: an accepted combination must select a class that clips
    the requested way (checked behaviourally on a tiny step)"""
    for c, dist, g, k in rows:
        if k == "ERR" or dist or g in ("no_op", "None"):
            if k != "ERR" and k in SPEC_KIND and SPEC_KIND[k] != (c, dist, g == "ghost"):
                return (f"C03:optimizer-class:{c}:{'distributed' if dist else 'local'}:{g}", f"get_optimizer_class(clipping={c!r}, distributed={dist}, grad_sample_mode={g!r}) selects {k}", {"row": [c, dist, g, k]})
            continue
        cfg = {"spec": dict(C2.D11_WITNESS["spec"], O=2, bias=True), "B": 3, "dseed": 4, "Cq": 0.6, "gsm_mode": g, "clipping": c, "reduction": "mean", "max_phys": None, "accum": 1, "E": 3, "inner": "sgd", "col": False}
        try:
            res = release_oracle(cfg)
        except Exception as e:
            res = (f"C03:optimizer-class:{c}:local:{g}", f"selected class {k} cannot take a step: {type(e).__name__}: {e}", {"row": [c, dist, g, k]})
        if res:
            return (f"C03:optimizer-class:{c}:local:{g}", f"get_optimizer_class(clipping={c!r}, distributed=False, grad_sample_mode={g!r}) selects {k}; " + res[1], dict(res[2], row=[c, dist, g, k]))
    return None


def run_table(ctx):
    rows = extract_table()
    src = table_source(rows)
    old = TABLE_PATH.read_text() if TABLE_PATH.exists() else ""
    ctx.count("table:rows", len(rows))
    ctx.extra["optimizer_table_rows"] = len(rows)
    if src == old:
        ctx.extra["optimizer_table"] = "unchanged since last build"
        return
    # the running code's table differs from the one the library was last built with: rewrite, re-prove
    ctx.log("get_optimizer_class table changed: regenerating Generated/OptimizerTable.lean and re-proving")
    try:
        with core.lake_lock():
            TABLE_PATH.write_text(src)
        names = ["Opacus.C03.optimizer_table_sound"]
        ctx.obligations = [o for o in ctx.obligations if o["name"] not in names]
        ctx.prove(modules=MODULES, theorems=names)
        ctx.extra["optimizer_table"] = "regenerated"
        broken = [o for o in ctx.obligations if o["name"] in names and o["status"] != "ok"]
        if broken:
            res = table_oracle(rows)
            changed = [r for r in rows if f'("{r[0]}", {"true" if r[1] else "false"}, "{r[2]}", "{r[3]}")' not in old]
            if res:
                ctx.property_failure(res[0], res[1], dict(res[2], failing_input={"table_rows_changed": changed}))
            # (without a failing input `finish()` reports the broken obligation)
    finally:
        if os.environ.get("OPACUS_REPO", "/repo") != "/repo" and old:
            # scratch checkouts must not leave the shared library with their table
            with core.lake_lock():
                TABLE_PATH.write_text(old)


# --------------------------------------------------------------------------- ebs
def real_engine_ebs(N, bs, poisson):
    from opacus import PrivacyEngine

    ds = torch.utils.data.TensorDataset(torch.zeros(N, 1), torch.zeros(N, 1))
    dl = torch.utils.data.DataLoader(ds, batch_size=bs)
    m = nn.Linear(1, 1)
    opt = torch.optim.SGD(m.parameters(), lr=0.1)
    pe = PrivacyEngine()
    _, o, _ = pe.make_private(module=m, optimizer=opt, data_loader=dl, noise_multiplier=1.0, max_grad_norm=1.0, poisson_sampling=poisson)
    return int(o.expected_batch_size), len(dl)


def ebs_oracle(case):
    N, bs, po = case["N"], case["bs"], case["poisson"]
    got, L = real_engine_ebs(N, bs, po)
    want = N / L  # the expected size of a Poisson batch with rate 1/L, = bs when bs | N
    if (abs(got - want) >= 1 or (N % L == 0 and got != N // L)) and got not in (int(N * (1 / L)), int(N * (1 / int(1 / (1 / L))))):
        # finding D12 has the exact signature got == int(N * (1/L')) in binary64 with L' = len(dp_loader) in {L, int(1/(1/L))}; anything else is new
        return ("C03:expected-batch-size:wrong", f"make_private(len(dataset)={N}, batch_size={bs}, poisson_sampling={po}) sets expected_batch_size={got}, N/len(loader)={want}", {"got": got, "N_over_L": want})
    if abs(got - want) >= 1 or (N % L == 0 and got != N // L):
        return ("C03:expected-batch-size:float-truncation", f"make_private(len(dataset)={N}, batch_size={bs}, poisson_sampling={po}) sets expected_batch_size={got}, N/len(loader)={want}", {"got": got, "N_over_L": want})
    return None


def run_ebs(ctx):
    # (i) the expression of privacy_engine.py on a whole box, against both Lean models
    maxN, maxL = ctx.n(160, 400), 64
    pairs = [(N, L) for L in range(1, maxL + 1) for N in range(0, maxN + 1)]
    extra = [(ctx.rng.randrange(1, 10**6), ctx.rng.randrange(1, 5000)) for _ in range(ctx.n(300, 5000))]
    pairs += extra
    replies = ctx.lean_driver("C03", [f"ebs {N} {L} 0" for N, L in pairs])
    bad = []
    for (N, L), rep in zip(pairs, replies):
        v = rep.split()
        py = int(N * (1 / L))
        if not (len(v) == 4 and int(v[1]) == py and int(v[2]) == py):
            bad.append(((N, L), py, rep))
    ctx.count("ebs:expression-pairs", len(pairs))
    ctx.case(("ebs-box", maxN, maxL), nontrivial=True, sample={"component": "ebs", "box": [maxN, maxL], "random_pairs": len(extra)}, kind="ebs:box")
    if bad:
        (N, L), py, rep = bad[0]
        ctx.mismatch("ebs-expression", {"N": N, "bs": max(1, N // max(L, 1)), "poisson": False, "L": L}, py, rep, oracle=None, note=f"{len(bad)} pairs differ")
    else:
        ctx.validated()
    ctx.extra["ebs_truncated_pairs_in_box"] = sum(1 for N, L in pairs[: (maxN + 1) * maxL] if N % L == 0 and N and int(N * (1 / L)) != N // L)
    # (ii) the real make_private
    cases = [{"N": 98, "bs": 2, "poisson": True}, {"N": 98, "bs": 2, "poisson": False}, {"N": 93, "bs": 1, "poisson": True}]
    for i in range(ctx.n(25, 300)):
        bs = ctx.rng.randint(1, 8)
        if i % 3 == 2:
            # a dataset of only a few batches whose size does not divide it: N/len(loader) is then far (>= 1) from the loader's
            # batch_size, so an expected batch size taken from the wrong quantity is a failing input, not just a disagreement
            bs = ctx.rng.randint(2, 48)
            cases.append({"N": ctx.rng.randint(bs + 1, 4 * bs), "bs": bs, "poisson": i % 2 == 0})
            continue
        cases.append({"N": ctx.rng.randint(bs, 200), "bs": bs, "poisson": ctx.rng.random() < 0.6})
    lines = []
    reals = []
    for c in cases:
        got, L = real_engine_ebs(c["N"], c["bs"], c["poisson"])
        reals.append((got, L))
        lines.append(f"ebs {c['N']} {L} {int(c['poisson'])}")
    for c, (got, L), rep in zip(cases, reals, ctx.lean_driver("C03", lines)):
        ok = rep.split() and int(rep.split()[0]) == got
        ctx.case(("ebs", c["N"], c["bs"], c["poisson"]), nontrivial=c["N"] % L != 0 or int(rep.split()[0]) != c["N"] // L, sample=dict(c, component="ebs-engine"), kind="ebs:make_private")
        if ok:
            ctx.validated()
        else:
            ctx.mismatch("ebs-engine", c, got, rep, oracle=ebs_oracle)


# --------------------------------------------------------------------------- step machine correspondence
def gen_step_case(rng, ghost=False):
    mode = "ghost" if ghost else rng.choice(["hooks", "hooks", "functorch", "ew"])
    clipping = "flat" if ghost else rng.choice(R.CLIPPINGS)
    archs = ["mlp", "seq", "lin", "emb", "embseq"] if ghost else None
    spec = R.gen_spec(rng, archs=archs, ghost_safe=ghost)
    if mode == "ew" and clipping == "adaptive" and spec["arch"] in ("conv", "gn"):
        clipping = "per_layer"
    nphys = rng.choice([1, 1, 2, 3])
    script = []
    for i in range(nphys):
        nbw = 1 if (ghost or mode == "ew") else rng.choice([1, 1, 2])
        script.append([rng.randint(1, 3) for _ in range(nbw)])
    return {"spec": spec, "gsm_mode": mode, "clipping": clipping, "reduction": rng.choice(["mean", "mean", "sum"]), "E": rng.randint(1, 9),
            "script": script, "dseed": rng.randrange(1 << 30), "Cq": rng.choice([0.5, 0.9, 1.5, 1e6]), "signal_last": rng.random() < 0.7,
            "steps": 1, "col": False}


def step_data(c):
    n = sum(sum(p) for p in c["script"])
    x, y = R.gen_data(c["spec"], n, random.Random(c["dseed"]))
    mg = R.micro_grads(c["spec"], x, y)
    norms = sorted(R.flat_norm(g) for g in mg)
    P = len(mg[0])
    if "C" not in c:
        med = norms[len(norms) // 2]
        c["C"] = float(med * c["Cq"]) if c["Cq"] < 1e5 else 1e6
        if not c["C"] > 0:   # every per-sample gradient vanishes (dead ReLUs): the property needs max_grad_norm > 0
            c["C"] = 1.0
    C = c["C"]
    Cs = [C / math.sqrt(P) * (1 + 0.5 * (k % 2)) for k in range(P)] if c["clipping"] == "per_layer" else C
    return x, y, mg, Cs


def mode_header(c, Cs, dl):
    kind = {"flat": "flat", "per_layer": "perlayer", "adaptive": "adaptive"}[c["clipping"]] if c["gsm_mode"] != "ghost" else "ghost"
    cs = " ".join(fdec(v) for v in Cs) if kind == "perlayer" else fdec(Cs)
    return f"new {kind} {len(dl)} {' '.join(map(str, dl))} {cs} {c['reduction']} {c['E']}"


def ghost_bw_line(e, rec, c, bv, lv):
    """`gbw` request from what the real norm samplers were fed in this backward"""
    full = C2.ghost_line(type("E", (), {"plain": e.plain, "opt": e.opt, "records": [rec]})(), c, bv, lv)
    if full is None:
        return None
    t = full.split()
    # ghost a a vec C P d… nl nb B …  →  gbw a a vec nl B …
    P = int(t[5])
    nl = t[6 + P]
    rest = t[6 + P + 2 :]
    return f"gbw {t[1]} {t[2]} {t[3]} {nl} {' '.join(rest)}"


def run_step_case(c, bv="asCoded", lv="asCoded"):
    """drive the real objects and emit the driver lines; returns (lines, expectations)"""
    x, y, mg, Cs = step_data(c)
    ghost = c["gsm_mode"] == "ghost"
    lines, expect = [], []
    with R.Engine(c["spec"], gsm_mode=c["gsm_mode"], clipping=c["clipping"], C=Cs, reduction=c["reduction"], sigma=1.0, ebs=c["E"],
                  col=c.get("col", False), capture=ghost, noise="count") as e:
        dl = [p.numel() for p in e.opt.params]
        lines.append(mode_header(c, Cs, dl))
        expect.append(("ok", None))
        pos = 0
        e.opt.zero_grad()
        for pi, phys in enumerate(c["script"]):
            last = pi + 1 == len(c["script"])
            if not last or c["signal_last"]:
                e.opt.signal_skip_step(do_skip=not last)
                lines.append(f"skip {int(not last)}")
                expect.append(("ok", None))
            for B in phys:
                xb, yb = x[pos : pos + B], y[pos : pos + B]
                pos += B
                e.fb(xb, yb)
                if ghost:
                    ln = ghost_bw_line(e, e.records[-1], c, bv, lv)
                    if ln is None:
                        return None
                    lines.append(ln)
                    expect.append(("pgrad", [v for t in e.grads() for v in np.asarray(t).reshape(-1).tolist()]))
                else:
                    gs = e.last_grad_samples()
                    parts = [f"bw {B}"]
                    for i in range(B):
                        for t in gs:
                            parts.extend(fdec(v) for v in t[i].reshape(-1).tolist())
                    lines.append(" ".join(parts))
                    expect.append(("ok", None))
            ret, z, calls = e.pre_step()
            zt = []
            if ret:
                for zi, n in zip(z, dl):
                    zt += [zi] * n
            else:
                zt = [0.0] * sum(dl)
            lines.append("step " + " ".join(fdec(v) for v in zt))
            sm = [v for t in e.summed() for v in np.asarray(t).reshape(-1).tolist()]
            gr = [v for t in e.grads() for v in np.asarray(t).reshape(-1).tolist()] if ret else None
            expect.append(("step", (ret, sm, gr)))
            if ret:
                e.inner.step()
            if not last:
                e.opt.zero_grad()
                lines.append("zg")
                expect.append(("ok", None))
    c["_mg_norms"] = [R.flat_norm(g) for g in mg]
    return lines, expect


def check_replies(expect, replies):
    for (kind, val), rep in zip(expect, replies):
        if kind == "ok":
            if rep != "ok":
                return False
        elif kind == "pgrad":
            t = rep.split()
            if t[0] != "ok":
                return False
            m = [h2f(v) for v in t[1:]]
            sc = max([abs(v) for v in val] + [1.0])
            if len(m) != len(val) or any(not core.close(a, b, 1e-9, 1e-11 * sc) for a, b in zip(val, m)):
                return False
        else:
            ret, sm, gr = val
            if " summed " not in rep:
                return False
            head, rest = rep.split(" summed ")
            s_txt, g_txt = rest.split(" grad ")
            if head.strip() != str(int(ret)):
                return False
            ms = [h2f(v) for v in s_txt.split()]
            sc = max([abs(v) for v in sm] + [1.0])
            if len(ms) != len(sm) or any(not core.close(a, b, 1e-9, 1e-11 * sc) for a, b in zip(sm, ms)):
                return False
            if ret:
                mg_ = [h2f(v) for v in g_txt.split()] if g_txt.strip() != "none" else None
                if mg_ is None or len(mg_) != len(gr) or any(not core.close(a, b, 1e-9, 1e-11 * sc) for a, b in zip(gr, mg_)):
                    return False
    return True


def run_steps(ctx, cases, bv, lv):
    all_lines, spans, kept = [], [], []
    for c in cases:
        try:
            r = run_step_case(c, bv, lv)
        except Exception as e:
            ctx.count("step:engine-raised:" + type(e).__name__)
            continue
        if r is None:
            ctx.count("step:skipped-unsupported-layer")
            continue
        lines, expect = r
        spans.append((len(all_lines), len(lines), expect))
        all_lines += lines
        kept.append(c)
    replies = ctx.lean_driver("C03", all_lines)
    for c, (a, n, expect) in zip(kept, spans):
        ok = check_replies(expect, replies[a : a + n])
        tot = sum(sum(p) for p in c["script"])
        norms = c.get("_mg_norms", [])
        both = any(v + 1e-6 > c["C"] for v in norms) and any(v + 1e-6 <= c["C"] for v in norms) if c["clipping"] != "per_layer" else True
        k_last = len(c["script"][-1])
        nt = tot >= 2 and both and c["E"] * k_last != tot
        s = c["spec"]
        ctx.case((s["arch"], s.get("rank"), s["wseed"], c["gsm_mode"], c["clipping"], c["reduction"], c["E"], str(c["script"])), nontrivial=nt,
                 sample={"component": "step", "arch": s["arch"], "gsm_mode": c["gsm_mode"], "clipping": c["clipping"], "reduction": c["reduction"], "E": c["E"], "script": c["script"], "C": c["C"]},
                 kind=f"step:{c['gsm_mode']}:{c['clipping']}")
        ctx.count(f"step:phys={len(c['script'])}")
        ctx.count(f"step:k_last={k_last}")
        ctx.count("step:reduction=" + c["reduction"])
        if ok:
            ctx.validated()
        else:
            ctx.mismatch("step", {k: v for k, v in c.items() if not k.startswith("_")}, [e for e in expect if e[0] != "ok"], replies[a : a + n][:6],
                         oracle=lambda cc: release_oracle(script_to_cfg(cc)))


def script_to_cfg(c):
    """a step case as a configuration of the release oracle (BatchMemoryManager-shaped driving)"""
    tot = sum(sum(p) for p in c["script"])
    single = len(c["script"]) == 1
    return {"spec": c["spec"], "B": tot, "dseed": c["dseed"], "C": c.get("C"), "Cq": c.get("Cq", 0.8), "gsm_mode": c["gsm_mode"], "clipping": c["clipping"], "reduction": c["reduction"],
            "max_phys": None if single else max(1, tot // len(c["script"])), "accum": len(c["script"][0]) if single else 1, "E": c["E"], "inner": "sgd", "col": c.get("col", False)}


# --------------------------------------------------------------------------- inner optimizers
def run_inner(ctx, n):
    """SGD / momentum / Adam only observe p.grad: the DP trajectory equals that of a plain optimizer
    of the same kind fed the model's release at every step."""
    for _ in range(n):
        kind = ctx.rng.choice(["sgd", "momentum", "adam"])
        c = gen_step_case(ctx.rng)
        c.update(gsm_mode="hooks", script=[[ctx.rng.randint(2, 3)]], signal_last=False)
        nsteps = 3
        x, y, mg, Cs = step_data(c)
        lines, real_vals = [], []
        with R.Engine(c["spec"], gsm_mode="hooks", clipping=c["clipping"], C=Cs, reduction=c["reduction"], sigma=1.0, ebs=c["E"], inner=kind, lr=0.05, noise="count") as e:
            dl = [p.numel() for p in e.opt.params]
            shapes = [tuple(p.shape) for p in e.opt.params]
            init = e.values()
            for st in range(nsteps):
                e.opt.zero_grad()
                if c["clipping"] == "adaptive":
                    Cs = float(e.opt.max_grad_norm)
                lines.append(mode_header(c, Cs, dl))
                e.fb(x, y)
                gs = e.last_grad_samples()
                parts = [f"bw {len(x)}"]
                for i in range(len(x)):
                    for t in gs:
                        parts.extend(fdec(v) for v in t[i].reshape(-1).tolist())
                lines.append(" ".join(parts))
                ret, z, _ = e.pre_step()
                zt = []
                for zi, nn_ in zip(z, dl):
                    zt += [zi] * nn_
                lines.append("step " + " ".join(fdec(v) for v in zt))
                e.inner.step()
                real_vals.append(e.values())
        replies = ctx.lean_driver("C03", lines)
        # plain optimizer fed the model's release
        ps = [nn.Parameter(torch.tensor(v)) for v in init]
        plain = R.make_inner(kind, ps, 0.05)
        ok = True
        for st in range(nsteps):
            rep = replies[3 * st + 2]
            if " grad " not in rep or rep.split(" grad ")[1].strip() == "none":
                ok = False
                break
            g = [h2f(v) for v in rep.split(" grad ")[1].split()]
            off = 0
            for p, sh, nn_ in zip(ps, shapes, dl):
                p.grad = torch.tensor(g[off : off + nn_], dtype=torch.float64).reshape(sh)
                off += nn_
            plain.step()
            for p, rv in zip(ps, real_vals[st]):
                if not np.allclose(p.detach().numpy(), rv, rtol=1e-9, atol=1e-12):
                    ok = False
        ctx.case(("inner", kind, c["spec"]["arch"], c["spec"]["wseed"], c["clipping"]), nontrivial=True, sample={"component": "inner", "inner": kind, "arch": c["spec"]["arch"], "clipping": c["clipping"], "steps": nsteps}, kind="inner:" + kind)
        if ok:
            ctx.validated()
        else:
            ctx.mismatch("inner", {k: v for k, v in c.items() if not k.startswith("_")}, "trajectory of the DP run", "plain optimizer fed the model's release",
                         oracle=lambda cc: release_oracle(dict(script_to_cfg(cc), inner=kind)))


# --------------------------------------------------------------------------- property oracle: NumPy formula
def release_oracle(cfg):
    """C03 on the implementation: p.grad after one logical step vs
    (Σ_i min(1, C/(‖g_i‖+1e-6))·g_i + z)/(E·k) computed in NumPy from micro-batch gradients."""
    s = cfg["spec"]
    x, y = R.gen_data(s, cfg["B"], random.Random(cfg["dseed"]))
    mg = R.micro_grads(s, x, y) if cfg["B"] > 0 else []
    empty_shapes = [tuple(p.shape) for p in R.build(s).parameters() if p.requires_grad]
    P = len(mg[0]) if mg else len(empty_shapes)
    if cfg.get("C") is None and not mg:
        cfg["C"] = 1.0
    if cfg.get("C") is None:
        norms = sorted(R.flat_norm(g) for g in mg)
        cfg["C"] = float(norms[len(norms) // 2] * cfg.get("Cq", 0.8))
        if not cfg["C"] > 0:   # every per-sample gradient vanishes (dead ReLUs): the property needs max_grad_norm > 0
            cfg["C"] = 1.0
    C = cfg["C"]
    clipping = cfg["clipping"]
    Cs = [C / math.sqrt(P) * (1 + 0.5 * (k % 2)) for k in range(P)] if clipping == "per_layer" else C
    E = cfg.get("E") or cfg["B"]
    e = R.EngineRun(s, x, y, gsm_mode=cfg["gsm_mode"], clipping=clipping, C=Cs, reduction=cfg["reduction"], max_phys=cfg.get("max_phys"), accum=cfg.get("accum", 1),
                    sigma=1.0, noise="count", ebs=E, col=cfg.get("col", False), inner=cfg.get("inner", "sgd"), closure=cfg.get("closure", False))
    # an empty logical batch (Poisson sampling) releases pure noise: (0 + z)/(E·k)
    ref = R.np_clipped_sum(mg, clipping, Cs) if mg else [np.zeros(sh) for sh in empty_shapes]
    # noise: the last P numbered draws with parameter-shaped sizes belong to the releasing step
    shapes = [tuple(np.asarray(t).shape) for t in ref]
    draws = [(i + 1, sz) for i, (std, sz, _) in enumerate(e.noise_calls)]
    zs = [n for n, sz in draws if len(sz) > 0 or True][-(P + (1 if clipping == "adaptive" else 0)):][:P]
    k = e.k_last
    if len(zs) != P or len(e.grad) != P:
        return (f"C03:release:noise-draws:{cfg['gsm_mode']}:{clipping}", f"the releasing step requested {len(zs)} noise tensors for {P} parameters and released {len(e.grad)} gradients "
                f"(batch of {cfg['B']} samples, gsm={cfg['gsm_mode']}, clipping={clipping})", {"failing_input": dict(cfg)})
    worst = 0.0
    for t, zi, got in zip(ref, zs, e.grad):
        want = t + zi
        if cfg["reduction"] == "mean":
            want = want / (E * k)
        sc = max(1.0, float(np.abs(want).max()))
        worst = max(worst, float(np.abs(want - got).max()) / sc)
    if worst <= 1e-9:
        return None
    key = C2.diagnose_key(dict(cfg, C=C), x, y, None).replace("C02:", "C03:release:").replace("C03:release:sensitivity:", "C03:release:")
    return (key, f"p.grad after the step differs from (Σ clip·g + z)/(E·k) by {worst:.3g} (relative); config: arch={s['arch']} rank={R.input_rank(s)} bias={s['bias']} gsm={cfg['gsm_mode']} "
            f"clipping={clipping} reduction={cfg['reduction']} max_phys={cfg.get('max_phys')} accum={cfg.get('accum', 1)} E={E} inner={cfg.get('inner', 'sgd')} loss-shape={'[B,1]' if cfg.get('col') else '[B]'}",
            {"relative_error": worst, "failing_input": dict(cfg)})


def plain_step_oracle(cfg):
    """σ = 0, huge C, E = B: the DP step must coincide with the plain non-private optimizer step."""
    s = cfg["spec"]
    x, y = R.gen_data(s, cfg["B"], random.Random(cfg["dseed"]))
    kind = cfg.get("inner", "sgd")
    e = R.EngineRun(s, x, y, gsm_mode=cfg["gsm_mode"], clipping=cfg["clipping"], C=[1e9] * len(list(R.build(s).parameters())) if cfg["clipping"] == "per_layer" else 1e9,
                    reduction="mean", max_phys=cfg.get("max_phys"), sigma=1.0, noise="zero", ebs=cfg["B"], inner=kind, lr=0.1, closure=cfg.get("closure", False))
    dp = e.values()
    m = R.build(s)
    o = R.make_inner(kind, list(m.parameters()), 0.1)
    o.zero_grad()
    R.PerSampleLoss(s["loss"], "mean")(m(x), y).backward()
    o.step()
    worst = max(float(np.abs(a - p.detach().numpy()).max()) for a, p in zip(dp, m.parameters()))
    if worst <= 1e-9:
        return None
    return (f"C03:plain-step:{cfg['gsm_mode']}:{cfg['clipping']}:{kind}", f"σ=0, C=1e9, E=B: parameters after the DP step differ from the plain {kind} step by {worst:.3g} (arch={s['arch']}, gsm={cfg['gsm_mode']}, max_phys={cfg.get('max_phys')})",
            {"abs_error": worst, "failing_input": dict(cfg, oracle="plain")})


def with_epsilon_forwarding_oracle(rng):
    """make_private_with_epsilon is make_private with the calibrated sigma: for random user options
    (loss_reduction, batch_first, clipping, grad_sample_mode, poisson_sampling, max_grad_norm, noise_generator)
    the two entry points must configure module, optimizer and loader identically.  Real code vs real code."""
    from opacus import PrivacyEngine

    gsm = rng.choice(["hooks", "functorch", "ew"])
    per_layer = rng.random() < 0.35
    kw = dict(loss_reduction=rng.choice(["mean", "sum"]), batch_first=rng.random() < 0.6, clipping="per_layer" if per_layer else "flat",
              grad_sample_mode=gsm, poisson_sampling=rng.random() < 0.6,
              max_grad_norm=[rng.choice([0.5, 1.5]), rng.choice([0.7, 2.0])] if per_layer else rng.choice([0.5, 1.0, 3.0]))
    use_gen = rng.random() < 0.4
    N, bs = rng.choice([(40, 4), (60, 5), (63, 7)])

    def setup():
        torch.manual_seed(3)
        m = nn.Linear(3, 2)
        o = torch.optim.SGD(m.parameters(), lr=0.1)
        ds = torch.utils.data.TensorDataset(torch.zeros(N, 3), torch.zeros(N, dtype=torch.long))
        return m, o, torch.utils.data.DataLoader(ds, batch_size=bs)

    def facts(m, o, dl):
        return {
            "module_class": type(m).__name__, "module.loss_reduction": getattr(m, "loss_reduction", None), "module.batch_first": getattr(m, "batch_first", None),
            "grad_accumulation_allowed": getattr(m, "grad_accumulation_allowed", None),
            "optimizer_class": type(o).__name__, "optimizer.loss_reduction": o.loss_reduction, "optimizer.expected_batch_size": o.expected_batch_size,
            "optimizer.max_grad_norm": o.max_grad_norm, "optimizer.noise_multiplier": o.noise_multiplier, "optimizer.generator": o.generator is not None,
            "loader_class": type(dl).__name__, "len(loader)": len(dl), "loader.sample_rate": getattr(dl, "sample_rate", None),
        }

    from opacus.accountants.utils import get_noise_multiplier

    # the sigma the with-epsilon entry point is specified to calibrate (same call it makes)
    sigma = get_noise_multiplier(target_epsilon=3.0, target_delta=1e-5, sample_rate=1 / (-(-N // bs)), epochs=2, accountant="rdp")

    def attempt(fn):
        try:
            r = fn()
            return facts(r[0], r[1], r[-1])
        except Exception as e:  # an option combination the engine refuses: both entry points must refuse it alike
            return {"raises": type(e).__name__}

    m, o, dl = setup()
    g1 = torch.Generator().manual_seed(1) if use_gen else None
    fa = attempt(lambda: PrivacyEngine(accountant="rdp").make_private_with_epsilon(module=m, optimizer=o, data_loader=dl, target_epsilon=3.0, target_delta=1e-5, epochs=2, noise_generator=g1, **kw))
    m, o, dl = setup()
    g2 = torch.Generator().manual_seed(1) if use_gen else None
    fb = attempt(lambda: PrivacyEngine(accountant="rdp").make_private(module=m, optimizer=o, data_loader=dl, noise_multiplier=sigma, noise_generator=g2, **kw))
    if set(fa) != set(fb):
        fa, fb = {"outcome": str(fa)[:200]}, {"outcome": str(fb)[:200]}
    diff = sorted(k for k in fa if fa[k] != fb[k])
    if diff:
        return (f"C03:with-epsilon-forwarding:{diff[0]}", f"make_private_with_epsilon({kw}) configures {{{', '.join(f'{k}={fa[k]!r}' for k in diff)}}} where make_private with the same options and the "
                f"calibrated sigma configures {{{', '.join(f'{k}={fb[k]!r}' for k in diff)}}}", {"failing_input": {"oracle": "forwarding", "kwargs": {k: v for k, v in kw.items()}}, "with_epsilon": str(fa), "make_private": str(fb)})
    return None


def gen_release_cfg(rng, thorough=False):
    cfg = C2.gen_search_cfg(rng, thorough)
    while cfg["gsm_mode"] == "ghost" and cfg["spec"]["arch"] == "tied":
        cfg = C2.gen_search_cfg(rng, thorough)   # ghost clipping refuses tied parameters by design (C02 checks that it does): nothing to release
    cfg["E"] = rng.randint(1, 9)
    cfg["inner"] = rng.choice(["sgd", "sgd", "momentum", "adam"])
    cfg["accum"] = 1
    if cfg["max_phys"] is None and cfg["gsm_mode"] in ("hooks", "functorch") and rng.random() < 0.4:
        cfg["accum"] = 2
    cfg["closure"] = cfg["accum"] == 1 and cfg["max_phys"] is None and cfg["gsm_mode"] != "ghost" and rng.random() < 0.3
    return cfg


D12_WITNESS = {"N": 98, "bs": 2, "poisson": False}


def regenerate(ctx):
    from .. import regen
    from . import release_trans as T
    regen.regenerate(ctx, T, "Opacus.Generated.Release", "release arithmetic (optimizers/optimizer.py, ddp*.py)")


def run(ctx):
    regenerate(ctx)
    torch.set_num_threads(2)
    with rig.default_dtype(torch.float64):
        run_table(ctx)
        bv, _ = C2.detect_bias_variant()
        lv, _ = C2.detect_loss_variant()
        ctx.variant["linear_bias_norm_3d"] = bv
        ctx.variant["ghost_loss_broadcast"] = lv
        ev = "asCoded" if real_engine_ebs(98, 2, False)[0] == 1 else "other"
        ctx.variant["expected_batch_size"] = ev
        ctx.log(f"variants on this tree: 3-D bias norm sampler {bv}, [B,1] loss broadcast {lv}, expected_batch_size(98,2) {ev}")
        # 1. correspondence
        run_ebs(ctx)
        run_steps(ctx, [gen_step_case(ctx.rng) for _ in range(ctx.n(110, 2200))], bv, lv)
        gs = [gen_step_case(ctx.rng, ghost=True) for _ in range(ctx.n(40, 800))]
        for c in gs[::6]:
            if c["spec"]["arch"] == "mlp":
                c["col"] = True
        run_steps(ctx, gs, bv, lv)
        run_inner(ctx, ctx.n(9, 120))
        # 2. Lean counterexample witnesses on the real code
        res = ebs_oracle(D12_WITNESS)
        ctx.count("witness:D12")
        if res:
            ctx.property_failure(res[0], res[1], dict(res[2], failing_input=D12_WITNESS))
        for name, w in (("D1", C2.D1_WITNESS), ("D11", C2.D11_WITNESS)):
            res = release_oracle(dict(w, E=3, inner="sgd", accum=1))
            ctx.count("witness:" + name)
            if res:
                ctx.property_failure(res[0], res[1], res[2])
        # 3. failing-input search on the real engine: independent NumPy formula, plain-step equivalence
        for i in range(ctx.n(60, 1200)):
            cfg = gen_release_cfg(ctx.rng, ctx.thorough)
            try:
                res = release_oracle(cfg)
            except Exception as e:
                # the unchanged tree takes every generated step without raising: an exception is a failure to release
                ctx.count("search:engine-raised:" + type(e).__name__)
                ctx.property_failure(f"C03:release:engine-raised:{type(e).__name__}:{cfg['gsm_mode']}:{cfg['clipping']}",
                                     f"one logical step raised {type(e).__name__}: {str(e)[:200]} (arch={cfg['spec']['arch']}, gsm={cfg['gsm_mode']}, clipping={cfg['clipping']}, max_phys={cfg.get('max_phys')}, accum={cfg.get('accum')})",
                                     {"failing_input": dict(cfg)})
                continue
            ctx.count(f"search:release:{cfg['gsm_mode']}:{cfg['clipping']}" + (":bmm" if cfg["max_phys"] else "") + (":accum" if cfg["accum"] > 1 else ""))
            ctx.count("search:inner:" + cfg["inner"])
            if res:
                ctx.property_failure(res[0], res[1], res[2])
        # an EMPTY logical batch (Poisson sampling) must release pure noise (0 + z)/(E·k), one draw per parameter
        # (ew: torch's ExpandedWeights rejects empty batches; adaptive: finding D21)
        # every run: ghost clipping over a layer WITHOUT a norm sampler that is applied twice in the forward pass (its per-sample
        # norm has to cover both uses)
        for i in range(ctx.n(4, 40)):
            cfg = next(c for c in (gen_release_cfg(ctx.rng, ctx.thorough) for _ in range(300)) if c["gsm_mode"] == "ghost")
            cfg["spec"] = dict(cfg["spec"], arch="lnre")
            cfg["spec"].pop("rank", None)
            cfg["C"] = None
            ctx.count("search:release:ghost:reused-layer")
            try:
                res = release_oracle(cfg)
            except Exception as e:
                res = (f"C03:release:engine-raised:{type(e).__name__}:ghost:flat:reused-layer", f"ghost clipping over a reused LayerNorm raised {type(e).__name__}: {str(e)[:200]}", {"failing_input": dict(cfg)})
            if res:
                ctx.property_failure(res[0], res[1], res[2])
        # every run: ghost clipping over LONG sequences (3-D activations [B, T, d] with T just above a power of two up to 2048, and
        # embeddings over T tokens): the norm samplers contract over the whole sequence; an implementation that works in blocks of
        # positions must still pair every block with every other one (seeded C03-h: blocks of 512 paired only with themselves)
        longT = [65, 130, 260, 520, 1030, 2050]
        for i in range(ctx.n(3, 12)):
            cfg = next(c for c in (gen_release_cfg(ctx.rng, ctx.thorough) for _ in range(300)) if c["gsm_mode"] == "ghost")
            T = longT[(ctx.rng.randrange(2) + 2 * i) % len(longT)] if not ctx.thorough else longT[i % len(longT)]
            arch = ["seq", "lin", "embseq"][i % 3]
            cfg["spec"] = dict(cfg["spec"], arch=arch, T=T, I=min(cfg["spec"].get("I", 2), 3))
            if arch == "lin":
                cfg["spec"]["rank"] = 3
            else:
                cfg["spec"].pop("rank", None)
            ctx.count("search:release:ghost:long-sequence")
            try:
                res = release_oracle(cfg)
            except Exception as e:
                res = (f"C03:release:engine-raised:{type(e).__name__}:ghost:flat:long-sequence", f"ghost clipping over a sequence of {T} positions raised {type(e).__name__}: {str(e)[:200]}", {"failing_input": dict(cfg)})
            if res:
                ctx.property_failure(res[0], res[1], res[2])
        combos = [("hooks", "flat"), ("functorch", "flat"), ("hooks", "per_layer"), ("ghost", "flat"), ("functorch", "per_layer")]
        for i in range(ctx.n(10, 120)):
            cfg = gen_release_cfg(ctx.rng, ctx.thorough)
            mode, clip = combos[i % len(combos)]
            if cfg["spec"]["arch"] == "tied" or (mode == "ghost" and cfg["gsm_mode"] != "ghost"):
                # ghost needs a ghost-safe architecture: take the generator's own ghost configurations only
                if mode == "ghost":
                    cfg = next(c for c in (gen_release_cfg(ctx.rng, ctx.thorough) for _ in range(200)) if c["gsm_mode"] == "ghost")
                else:
                    continue
            if mode != "ghost" and cfg["gsm_mode"] == "ghost":
                cfg["spec"].pop("rank", None)
            if mode == "functorch":
                # torch.func itself rejects empty batches through conv / norm layers ("expected groups to be greater than 0"): dense models only
                cfg["spec"] = dict(cfg["spec"], arch=ctx.rng.choice(["mlp", "lin"]))
                cfg["spec"].pop("rank", None)
            cfg.update(gsm_mode=mode, clipping=clip)
            cfg.update(B=0, E=ctx.rng.randint(2, 6), max_phys=None, accum=1, closure=False, C=1.0)
            ctx.count(f"search:release-empty-batch:{cfg['gsm_mode']}:{cfg['clipping']}")
            try:
                res = release_oracle(cfg)
            except Exception as e:
                res = (f"C03:release:engine-raised:{type(e).__name__}:{cfg['gsm_mode']}:{cfg['clipping']}:empty-batch",
                       f"a logical step on an empty batch raised {type(e).__name__}: {str(e)[:200]}", {"failing_input": dict(cfg)})
            if res:
                ctx.property_failure(res[0], res[1], res[2])
        for i in range(ctx.n(16, 300)):
            cfg = gen_release_cfg(ctx.rng, ctx.thorough)
            if cfg["gsm_mode"] == "ghost" and (cfg["spec"]["arch"] in ("seq", "embseq") or cfg["spec"].get("rank") == 3) and cfg["spec"]["bias"] and bv == "asCoded":
                cfg["spec"]["bias"] = False   # with C=1e9 the wrong norm is harmless anyway; keep the run about the plain step
            try:
                res = plain_step_oracle(cfg)
            except Exception as e:
                ctx.count("search:engine-raised:" + type(e).__name__)
                ctx.property_failure(f"C03:plain-step:engine-raised:{type(e).__name__}:{cfg['gsm_mode']}:{cfg['clipping']}",
                                     f"σ=0 / huge-C step raised {type(e).__name__}: {str(e)[:200]} (arch={cfg['spec']['arch']}, gsm={cfg['gsm_mode']})", {"failing_input": dict(cfg, oracle="plain")})
                continue
            ctx.count("search:plain-step:" + cfg["gsm_mode"])
            if res:
                ctx.property_failure(res[0], res[1], res[2])
        # 4. make_private_with_epsilon forwards every user option to make_private (real vs real)
        with rig.default_dtype(torch.float32):
            for i in range(ctx.n(10, 120)):
                res = with_epsilon_forwarding_oracle(ctx.rng)
                ctx.count("search:with-epsilon-forwarding")
                if res:
                    ctx.property_failure(res[0], res[1], res[2])


def replay(ctx, rp):
    with rig.default_dtype(torch.float64):
        c = rp.get("failing_input") or rp.get("case")
        res = None
        if isinstance(c, dict) and "N" in c and "bs" in c:
            res = ebs_oracle(c)
        elif isinstance(c, dict) and "script" in c:
            res = release_oracle(script_to_cfg(c))
        elif isinstance(c, dict) and c.get("oracle") == "plain":
            res = plain_step_oracle(c)
        elif isinstance(c, dict) and "spec" in c:
            res = release_oracle(dict(c))
        elif isinstance(c, dict) and "table_rows_changed" in c:
            res = table_oracle(extract_table())
        if res:
            print("REPRODUCED:", res[0], res[1])
            ctx.violations.append(res[0])
        else:
            print("not reproduced on this tree")
