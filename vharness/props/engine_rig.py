"""Drive the real DP optimizer / GradSampleModule / accountant objects through an op sequence in
the exact *token setting* (DESIGN §2.4a) and render the observable state after every op in the same
canonical format as lean/Drivers/Engine.lean, so that the two streams can be compared textually.

Token setting: one bias-free float64 `nn.Linear(d, 1)` with zero weights, loss = Σ outputs, sample
`t` is the one-hot row `e_t`; so the per-sample gradient of token `t` *is* `e_t`, clip factors are
exactly 1.0 (|e_t| = 1 < C), sums of gradients are integer vectors whose coordinate `t` is the
multiplicity of token `t`.  `torch.normal` is patched (from here, not in /repo) to return the
1-based call number on every coordinate; the last coordinate carries no token, so a released
gradient decodes into (token multiset, noise id).  Inner optimizer: SGD(lr=1) on zero weights.
"""
from __future__ import annotations

import torch
import torch.nn as nn

from .. import rig
from ..core import f2h

Q = 0.001  # sample rate handed to the accountant hook


def bits(x: float) -> int:
    return int(f2h(x), 16)


def unbits(n: int) -> float:
    from ..core import h2f
    return h2f("%016x" % n)


class OutCriterion:
    """criterion for the ghost-clipping loss wrapper: per-sample loss = the model output"""

    def __init__(self, reduction="sum"):
        self.reduction = reduction

    def __call__(self, out, target):
        per = out.flatten(1).sum(dim=1)
        if self.reduction == "none":
            return per
        return per.sum() if self.reduction == "sum" else per.mean()


def toks_str(ts):
    return ",".join(str(t) for t in sorted(ts))


class RealEngine:
    def __init__(self, kind: str, accum_allowed: bool, gdp: bool, sigma: float, clip: float, n_tokens: int, noise_mode="count", acct="auto", via_engine=False, clipping="flat", prewrapped=False):
        from opacus.accountants import GaussianAccountant, RDPAccountant, PRVAccountant
        from opacus.optimizers import DPOptimizer
        from opacus.optimizers.optimizer_fast_gradient_clipping import DPOptimizerFastGradientClipping

        self.kind, self.d = kind, n_tokens + 1
        self.next = 0
        self.events = []
        self.noise_calls = 0
        base = rig.TokenModel(self.d)
        self.w = base.fc.weight
        self.inner = torch.optim.SGD([self.w], lr=1.0)
        if acct == "auto":
            acct = "gdp" if gdp else "rdp"
        if via_engine:
            # the real wiring: PrivacyEngine.make_private attaches the accountant hook with
            # sample_rate = 1 / len(data_loader) (= Q) and forbids accumulation under Poisson sampling
            from opacus import PrivacyEngine
            self.pe = PrivacyEngine(accountant=acct)
            ds = torch.utils.data.TensorDataset(torch.zeros(1000, self.d), torch.zeros(1000))
            dl = torch.utils.data.DataLoader(ds, batch_size=1)
            if prewrapped and kind == "std":
                # a GradSampleModule built by the user (a supported input of make_private, e.g. to pass strict=False)
                from opacus import GradSampleModule
                base = GradSampleModule(base, loss_reduction="sum")
            kw = dict(module=base, optimizer=self.inner, data_loader=dl, noise_multiplier=sigma,
                      max_grad_norm=([clip] if clipping == "per_layer" else clip), clipping=clipping,
                      loss_reduction="sum", poisson_sampling=not accum_allowed)
            if kind == "std":
                self.model, self.opt, _ = self.pe.make_private(**kw)
            else:
                self.model, self.opt, self.crit, _ = self.pe.make_private(grad_sample_mode="ghost", criterion=OutCriterion("sum"), **kw)
            self.acct = self.pe.accountant
        else:
            if kind == "std":
                from opacus import GradSampleModule
                self.model = GradSampleModule(base, loss_reduction="sum")
            else:
                from opacus.grad_sample.grad_sample_module_fast_gradient_clipping import GradSampleModuleFastGradientClipping
                self.model = GradSampleModuleFastGradientClipping(base, loss_reduction="sum", max_grad_norm=clip, use_ghost_clipping=True)
            if not accum_allowed:
                self.model.forbid_grad_accumulation()
            from opacus.optimizers import DPPerLayerOptimizer
            cls = (DPPerLayerOptimizer if clipping == "per_layer" else DPOptimizer) if kind == "std" else DPOptimizerFastGradientClipping
            self.opt = cls(self.inner, noise_multiplier=sigma, max_grad_norm=([clip] if (clipping == "per_layer" and kind == "std") else clip), expected_batch_size=None, loss_reduction="sum")
            self.acct = {"gdp": GaussianAccountant, "rdp": RDPAccountant, "prv": PRVAccountant}[acct]()
            self.opt.attach_step_hook(self.acct.get_optimizer_hook_fn(sample_rate=Q))
            if kind == "ghost":
                from opacus.utils.fast_gradient_clipping_utils import DPLossFastGradientClipping
                self.crit = DPLossFastGradientClipping(self.model, self.opt, OutCriterion("sum"), loss_reduction="sum")
        # observers
        real_acct_step = self.acct.step

        def acct_step(*, noise_multiplier, sample_rate):
            r = real_acct_step(noise_multiplier=noise_multiplier, sample_rate=sample_rate)
            k = round(sample_rate / Q)
            assert abs(sample_rate - Q * k) < 1e-15, sample_rate
            self.events.append(f"A:{bits(noise_multiplier)}:{k}")
            return r

        self.acct.step = acct_step
        real_inner_step = self.inner.step

        def inner_step(*a, **k):
            g = self.w.grad.detach().reshape(-1)
            nz = float(g[-1])
            mult = (g[:-1] - nz).round().to(torch.int64).tolist()
            assert torch.equal(g[:-1] - nz, (g[:-1] - nz).round()), "non-integer release"
            toks = [t for t, m in enumerate(mult) for _ in range(int(m))]
            assert all(m >= 0 for m in mult), mult
            self.events.append("I:" + toks_str(toks))
            self.last_noise_in_release = nz
            return real_inner_step(*a, **k)

        self.inner.step = inner_step
        self.noise_mode = noise_mode

    # ------------------------------------------------------------------ ops
    def _batch(self, n):
        x = torch.zeros(n, self.d, dtype=torch.float64)
        for i in range(n):
            x[i, self.next + i] = 1.0
        self.next += n
        return x

    def do(self, op):
        """returns the canonical line for this op"""
        self.events = []
        out = "ok"
        try:
            with rig.patched_normal(self.noise_mode) as log:
                log.calls_hook = None
                name = op[0]
                if name in ("fwdbwd", "fwdbwd_t"):
                    x = self._batch(op[1]) if name == "fwdbwd" else op[1]
                    if self.kind == "std":
                        self.model(x).sum().backward()
                    else:
                        self.crit(self.model(x), None).backward()
                elif name == "step":
                    n_inner = len([e for e in self.events if e.startswith("I:")])
                    before = len(log.calls)
                    ls_before = self.opt._is_last_step_skipped
                    self.opt.step()
                    released = any(e.startswith("I:") for e in self.events)
                    out = "released" if released else "skipped"
                elif name == "ozg":
                    self.opt.zero_grad()
                elif name == "mzg":
                    self.model.zero_grad()
                elif name == "sig":
                    self.opt.signal_skip_step(do_skip=bool(op[1]))
                elif name == "sigma":
                    self.opt.noise_multiplier = unbits(op[1])
                elif name == "clip":
                    self.opt.max_grad_norm = unbits(op[1])
                    if self.kind == "ghost":
                        self.model.max_grad_norm = unbits(op[1])
                else:
                    raise ValueError(op)
        except (ValueError, AttributeError, RuntimeError) as e:
            out = rig.map_exc(e)
            m = str(e)
            if "have to stay constant" in m:
                out = "err:gdp-heterogeneous"
            elif isinstance(e, AttributeError) and "NoneType" in m and "data" in m:
                out = "err:no-grad-sample"
        finally:
            # noise requests made during this op: one block per add_noise (one request per parameter)
            ev_noise = []
            for (std, size, gen) in log.calls:
                ev_noise.append(("N", std, size))
            self.last_noise_calls = log.calls
        # put noise events first in the order they happened relative to A / I: add_noise precedes the hook
        ev = [f"N:{f2h(std)}" for (_, std, _) in ev_noise] + self.events
        return self.render(out, ev)

    # ------------------------------------------------------------------ observation
    def _decode_rows(self, t):
        rows = []
        if t.shape[0] == 0:
            return rows
        for r in t.reshape(t.shape[0], -1):
            nzs = torch.nonzero(r).reshape(-1).tolist()
            assert len(nzs) == 1 and float(r[nzs[0]]) == 1.0, r
            rows.append(nzs[0])
        return rows

    def render(self, out, ev):
        p = self.w
        gs = getattr(p, "grad_sample", None)
        if gs is None:
            gss = ""
        else:
            ents = gs if isinstance(gs, list) else [gs]
            gss = "/".join(f"{toks_str(self._decode_rows(t))}:{int(hasattr(t, '_processed'))}" for t in ents)
        sg = getattr(p, "summed_grad", None)
        if sg is None:
            sm = "none"
        else:
            v = sg.detach().reshape(-1)
            assert float(v[-1]) == 0.0 or self.kind == "ghost", v
            mult = v[:-1] - v[-1]
            assert torch.equal(mult, mult.round())
            toks = [t for t, m in enumerate(mult.tolist()) for _ in range(int(m))]
            sm = f"{toks_str(toks)}:{int(hasattr(sg, '_processed'))}"
        q = "".join(str(int(b)) for b in self.opt._step_skip_queue)
        hist = ",".join(f"{bits(s)}:{round(r / Q)}:{n}" for (s, r, n) in self.acct.history)
        return f"out={out};gs={gss};sum={sm};ls={int(self.opt._is_last_step_skipped)};q={q};hist={hist};ev={' '.join(ev)}"


def model_lines(cfg, ops):
    """request lines for lean/Drivers/Engine.lean"""
    kind, acc, gdp, sigma, clip = cfg
    lines = [f"new {kind} {int(acc)} {int(gdp)} {bits(sigma)} {bits(clip)}"]
    for op in ops:
        if op[0] in ("step", "ozg", "mzg"):
            lines.append(op[0])
        else:
            lines.append(f"{op[0]} {int(op[1])}")
    return lines


def canon_model_line(line: str) -> str:
    """the model prints `N:<sigma bits>:<clip bits>`; the implementation shows only the product std
    handed to torch.normal — rewrite the model event into that observable"""
    head, ev = line.rsplit(";ev=", 1)
    out = []
    for e in ev.split():
        if e.startswith("N:"):
            _, s, c = e.split(":")
            std = unbits(int(s)) * unbits(int(c))
            if std == 0:      # _generate_noise: std == 0 ⇒ zeros, no draw requested
                continue
            out.append("N:" + f2h(std))
        else:
            out.append(e)
    return head + ";ev=" + " ".join(out)


def run_real(cfg, ops, **kw):
    kind, acc, gdp, sigma, clip = cfg
    n_tokens = sum(op[1] for op in ops if op[0] == "fwdbwd")
    eng = RealEngine(kind, acc, gdp, sigma, clip, n_tokens, **kw)
    lines = [eng.render("ok", [])]
    for op in ops:
        lines.append(eng.do(op))
    return lines


# --------------------------------------------------------------------------- BatchMemoryManager
class _FixedBatches(torch.utils.data.Sampler):
    def __init__(self, batches):
        self.batches = batches

    def __iter__(self):
        return iter([list(b) for b in self.batches])

    def __len__(self):
        return len(self.batches)


class _OneHot(torch.utils.data.Dataset):
    def __init__(self, n, d):
        self.n, self.d = n, d

    def __len__(self):
        return self.n

    def __getitem__(self, i):
        x = torch.zeros(self.d, dtype=torch.float64)
        x[i] = 1.0
        return x, torch.tensor(i)


def run_real_bmm(cfg, sizes, max_physical, acct="rdp", use_bmm=True, batches=None, poisson=None, zg2=False):
    """Train on logical batches of the given sizes (token ids consecutive) through the real
    BatchMemoryManager / BatchSplittingSampler + DataLoader; returns the canonical lines after
    (fetch = the sampler's signal), forward/backward, step, zero_grad of every physical batch, and the
    physical batch sizes seen."""
    from opacus.data_loader import wrap_collate_with_empty
    from opacus.utils.batch_memory_manager import BatchMemoryManager
    from torch.utils.data._utils.collate import default_collate

    kind, acc, gdp, sigma, clip = cfg
    # `batches`: explicit index lists (any order, repeats allowed: a with-replacement sampler);
    # `poisson` = (n, sample_rate, seed, epochs): the real UniformWithReplacementSampler
    if poisson is not None:
        n_tokens = poisson[0]
    elif batches is not None:
        n_tokens = max([i for b in batches for i in b], default=0) + 1
    else:
        n_tokens = sum(sizes)
    eng = RealEngine(kind, acc, gdp, sigma, clip, n_tokens, acct=acct, via_engine=True)
    if batches is None:
        batches, start = [], 0
        for n in sizes:
            batches.append(list(range(start, start + n)))
            start += n
    ds = _OneHot(max(n_tokens, 1), eng.d)
    collate = wrap_collate_with_empty(collate_fn=default_collate, sample_empty_shapes=[(0, eng.d), (0,)], dtypes=[torch.float64, torch.int64])
    if poisson is not None:
        from opacus.utils.uniform_sampler import UniformWithReplacementSampler
        n, q, seed, epochs = poisson
        bs = UniformWithReplacementSampler(num_samples=n, sample_rate=q, generator=torch.Generator().manual_seed(seed))
    else:
        bs = _FixedBatches(batches)
    dl = torch.utils.data.DataLoader(ds, batch_sampler=bs, collate_fn=collate)
    lines, phys = [eng.render("ok", [])], []

    def loop(loader):
        for _ in range(poisson[3] if poisson is not None else 1):
            for x, idx in loader:
                phys.append(idx.tolist())
                lines.append(eng.render("ok", []))                      # ↔ model op `sig b`
                lines.append(eng.do(("fwdbwd_t", x)))
                lines.append(eng.do(("step",)))
                lines.append(eng.do(("ozg",)))
                if zg2:      # a loop that clears at the bottom AND at the top of every iteration: zero_grad twice between steps
                    eng.do(("ozg",))

    if use_bmm:
        with BatchMemoryManager(data_loader=dl, max_physical_batch_size=max_physical, optimizer=eng.opt) as loader:
            loop(loader)
    else:
        loop(dl)
    return lines, phys
