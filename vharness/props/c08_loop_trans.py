"""Translator tie for C08: the two `while` loops of `get_noise_multiplier` (opacus/accountants/utils.py) →
lean/OpacusLean/Generated/CalibLoops.lean, one *iteration* of each in continuation-passing form over ℝ:

    growIter   eps target maxSigma  hi epsHi     log  stop raise cont
    bisectIter eps target tol       lo hi epsHi  log  stop cont

`eps : ℝ → ℝ` is the accountant (σ ↦ ε of the history `[(σ, sample_rate, steps)]`), `log` the list of σ it has been asked
about (most recent first), `stop` what happens when the loop guard fails, `raise` the `ValueError` exit, `cont` the next
iteration with the new loop state.  Statement order inside an iteration is kept (the ε query happens *before* the MAX_SIGMA
test).  `Props/C08.lean` proves the model's `doubling` / `bisect` unfold to exactly these iterations, and the initial
`sigma_low, sigma_high` and the returned variable to be `0, 10` and `sigma_high`.

Subset: a `while <cmp>:` whose body is assignments of arithmetic (+ - * /) over the loop state, ε queries –
`accountant.history = [(σ, sample_rate, steps)]` followed by `v = accountant.get_epsilon(…)`, or `v = f(σ)` for a nested helper
`f` that does exactly that –, `if <cmp>: raise …`, and `if <cmp>: assignments else: assignments`.
"""
from __future__ import annotations

import ast
from pathlib import Path

from .. import core
from ..pytrans import Untranslatable, find_function

GEN_FILE = core.LEAN / "OpacusLean" / "Generated" / "CalibLoops.lean"
CONST = {"target_epsilon": "target", "epsilon_tolerance": "tol", "MAX_SIGMA": "maxSigma"}


class Loop:
    def __init__(self, state, helpers):
        self.state = state            # python names of the loop-carried variables, in the order of the Lean parameters
        self.lean = {v: n for v, n in state}
        self.helpers = helpers        # nested helper name -> parameter name (σ ↦ ε)
        self.pending = None           # σ of the last `accountant.history = [(σ, …)]`

    def expr(self, n):
        if isinstance(n, ast.Name):
            if n.id in self.lean:
                return self.lean[n.id]
            if n.id in CONST:
                return CONST[n.id]
            raise Untranslatable("name " + n.id)
        if isinstance(n, ast.Constant) and isinstance(n.value, (int, float)) and not isinstance(n.value, bool) and n.value >= 0 and float(n.value).is_integer():
            return f"({int(n.value)} : ℝ)"
        if isinstance(n, ast.BinOp):
            op = {ast.Add: "+", ast.Sub: "-", ast.Mult: "*", ast.Div: "/"}.get(type(n.op))
            if op:
                return f"({self.expr(n.left)} {op} {self.expr(n.right)})"
        raise Untranslatable("expression " + ast.unparse(n)[:80])

    def cond(self, n):
        if isinstance(n, ast.Compare) and len(n.ops) == 1:
            op = {ast.Lt: "<", ast.Gt: ">", ast.LtE: "≤", ast.GtE: "≥"}.get(type(n.ops[0]))
            if op:
                return f"{self.expr(n.left)} {op} {self.expr(n.comparators[0])}"
        raise Untranslatable("condition " + ast.unparse(n)[:80])

    def eps_query(self, v):
        """σ (Lean term) if the expression `v` is an ε query, else None"""
        if isinstance(v, ast.Call):
            f = ast.unparse(v.func)
            if f.endswith(".get_epsilon") and self.pending is not None:
                s, self.pending = self.pending, None
                return s
            if isinstance(v.func, ast.Name) and v.func.id in self.helpers and len(v.args) == 1 and not v.keywords:
                return self.expr(v.args[0])
        return None

    def bind(self, name):
        if name not in self.lean:
            self.lean[name] = name.rstrip("_") + "_v"
        return self.lean[name]

    def block(self, stmts, ind, tail):
        pad = "  " * ind
        if not stmts:
            return pad + tail()
        s, rest = stmts[0], stmts[1:]
        if isinstance(s, ast.Assign) and len(s.targets) == 1 and isinstance(s.targets[0], ast.Tuple) and isinstance(s.value, ast.Tuple) \
                and len(s.targets[0].elts) == len(s.value.elts) and all(isinstance(e, ast.Name) for e in s.targets[0].elts):
            # `a, b = x, y`: sequential bindings are the same thing when no right-hand side reads a name bound earlier in the same statement
            names = [e.id for e in s.targets[0].elts]
            for i, v in enumerate(s.value.elts):
                if {n.id for n in ast.walk(v) if isinstance(n, ast.Name)} & set(names[:i]):
                    raise Untranslatable("simultaneous assignment " + ast.unparse(s)[:80])
            seq = [ast.Assign(targets=[ast.Name(id=n)], value=v) for n, v in zip(names, s.value.elts)]
            return self.block(seq + rest, ind, tail)
        if isinstance(s, ast.Assign) and len(s.targets) == 1:
            t, v = s.targets[0], s.value
            if ast.unparse(t).endswith(".history") and isinstance(v, ast.List) and len(v.elts) == 1 and isinstance(v.elts[0], ast.Tuple) and len(v.elts[0].elts) == 3:
                e = v.elts[0].elts
                if ast.unparse(e[1]) != "sample_rate" or ast.unparse(e[2]) != "steps":
                    raise Untranslatable("history entry " + ast.unparse(v)[:80])
                self.pending = self.expr(e[0])
                return self.block(rest, ind, tail)
            if isinstance(t, ast.Name):
                q = self.eps_query(v)
                if q is not None:
                    name = self.bind(t.id)
                    return f"{pad}let log := {q} :: log\n{pad}let {name} := eps {q}\n{self.block(rest, ind, tail)}"
                e = self.expr(v)
                name = self.bind(t.id)
                return f"{pad}let {name} := {e}\n{self.block(rest, ind, tail)}"
        if isinstance(s, ast.If):
            if len(s.body) == 1 and isinstance(s.body[0], ast.Raise) and not s.orelse:
                return f"{pad}if {self.cond(s.test)} then raise log else\n{self.block(rest, ind, tail)}"
            saved = dict(self.lean)
            then = self.block(list(s.body) + rest, ind + 1, tail)
            self.lean = dict(saved)
            els = self.block(list(s.orelse) + rest, ind + 1, tail)
            self.lean = saved
            return f"{pad}if {self.cond(s.test)} then\n{then}\n{pad}else\n{els}"
        raise Untranslatable("loop statement " + ast.unparse(s)[:100])

    def iteration(self, w):
        def tail():
            return "cont " + " ".join(self.lean[v] for v, _ in self.state) + " log"
        body = self.block(list(w.body), 2, tail)
        return f"  if {self.cond(w.test)} then\n{body}\n  else stop log"


def translate():
    tree = ast.parse((Path(core.REPO) / "opacus/accountants/utils.py").read_text())
    fn = find_function(tree, "get_noise_multiplier")
    helpers = {}
    for s in fn.body:
        if isinstance(s, ast.FunctionDef) and len(s.args.args) == 1:
            b = [x for x in s.body if not (isinstance(x, ast.Expr) and isinstance(x.value, ast.Constant))]
            if (len(b) == 2 and isinstance(b[0], ast.Assign) and ast.unparse(b[0].targets[0]).endswith(".history")
                    and ast.unparse(b[0].value) == f"[({s.args.args[0].arg}, sample_rate, steps)]"
                    and isinstance(b[1], ast.Return) and ast.unparse(b[1].value.func).endswith(".get_epsilon")):
                helpers[s.name] = s.args.args[0].arg
    whiles = [s for s in fn.body if isinstance(s, ast.While)]
    if len(whiles) != 2 or any(w.orelse for w in whiles):
        raise Untranslatable(f"{len(whiles)} while loops in get_noise_multiplier")
    # initial values and the returned variable
    init = {}
    for s in fn.body:
        if isinstance(s, ast.Assign) and len(s.targets) == 1:
            t, v = s.targets[0], s.value
            pairs = list(zip(t.elts, v.elts)) if isinstance(t, ast.Tuple) and isinstance(v, ast.Tuple) else [(t, v)]
            for a, b in pairs:
                if isinstance(a, ast.Name) and a.id in ("sigma_low", "sigma_high") and isinstance(b, ast.Constant) and isinstance(b.value, int):
                    init[a.id] = b.value
    ret = [s for s in fn.body if isinstance(s, ast.Return)]
    if set(init) != {"sigma_low", "sigma_high"} or len(ret) != 1 or not isinstance(ret[0].value, ast.Name):
        raise Untranslatable("initial sigma_low / sigma_high or the return statement")
    grow = Loop([("sigma_high", "hi"), ("eps_high", "epsHi")], helpers).iteration(whiles[0])
    bis = Loop([("sigma_low", "lo"), ("sigma_high", "hi"), ("eps_high", "epsHi")], helpers).iteration(whiles[1])
    out = ["import Mathlib.Data.Real.Basic",
           "/-! GENERATED by vharness/props/c08_loop_trans.py from opacus/accountants/utils.py::get_noise_multiplier – do not edit. -/",
           "namespace Opacus.Generated.Calib", "",
           "/-- one iteration of `while eps_high > target_epsilon: …` -/",
           "noncomputable def growIter {α : Type} (eps : ℝ → ℝ) (target maxSigma hi epsHi : ℝ) (log : List ℝ)",
           "    (stop raise : List ℝ → α) (cont : ℝ → ℝ → List ℝ → α) : α :=", grow, "",
           "/-- one iteration of `while target_epsilon - eps_high > epsilon_tolerance: …` -/",
           "noncomputable def bisectIter {α : Type} (eps : ℝ → ℝ) (target tol lo hi epsHi : ℝ) (log : List ℝ)",
           "    (stop : List ℝ → α) (cont : ℝ → ℝ → ℝ → List ℝ → α) : α :=", bis.replace("raise log", "stop log"), "",
           f"def initLow : Nat := {init['sigma_low']}", f"def initHigh : Nat := {init['sigma_high']}",
           f'def returned : String := "{ret[0].value.id}"', "", "end Opacus.Generated.Calib"]
    return "\n".join(out) + "\n"


if __name__ == "__main__":
    print(translate(), end="")
