"""Translator: opacus/schedulers/{noise_scheduler,grad_clip_scheduler}.py  →  Lean definitions.

The scheduler classes are tiny pure functions of (live value, gamma, step_size, base, f, last_epoch).
On every run their source is parsed (`ast`) and re-emitted as Lean definitions in
`lean/OpacusLean/Generated/Schedulers.lean`; `Props/C17.lean` proves the generated definitions equal to
the hand-written model (`Opacus.Sched.value`, `stepS`, `construct`) the C17 theorems are about.  A change of
the code (a different condition, a swapped operand order that matters, `get` before the increment, no
`step()` in the constructor, …) changes the generated text and breaks `generated_*_eq_model`.

Supported Python subset (anything else raises Untranslatable – the run then reports the broken tie):
  get_*:      `return e` | `if c: return e  else: return e`
  e:          self.optimizer.<attr> | self.gamma | self.base_* | self.<fn>(self.last_epoch) | e * e
  c:          self.last_epoch == 0 | self.last_epoch % self.step_size != 0 | c or c | c and c
  step:       `self.last_epoch += k` ; `v = self.get_*()` ; `self.optimizer.<attr> = v`   (any order – order is translated)
  __init__:   argument checks (`if …: raise`) are skipped; `self.optimizer = optimizer`, `self.last_epoch = last_epoch`,
              other `self.x = x` parameter captures, `super().__init__(…)`, `self.step()`
"""
from __future__ import annotations

import ast
from pathlib import Path

from .. import core


class Untranslatable(Exception):
    pass


FILES = {
    "noise": ("opacus/schedulers/noise_scheduler.py", "noise_multiplier", "get_noise_multiplier",
              {"_NoiseScheduler": "base", "ExponentialNoise": "exp", "StepNoise": "step", "LambdaNoise": "lam"}),
    "clip": ("opacus/schedulers/grad_clip_scheduler.py", "max_grad_norm", "get_max_grad_norm",
             {"_GradClipScheduler": "base", "ExponentialGradClip": "exp", "StepGradClip": "step", "LambdaGradClip": "lam"}),
}
GEN_FILE = core.LEAN / "OpacusLean" / "Generated" / "Schedulers.lean"


def _attr_chain(n):
    out = []
    while isinstance(n, ast.Attribute):
        out.append(n.attr)
        n = n.value
    if isinstance(n, ast.Name):
        out.append(n.id)
        return list(reversed(out))
    raise Untranslatable(ast.dump(n)[:80])


class Getter:
    """symbolic evaluation of a getter (and of the argument-less helper methods it calls): locals are substituted,
    `if` / conditional expressions become Lean if-then-else, helper methods are inlined"""

    def __init__(self, attr, methods, depth=0):
        self.attr, self.methods, self.depth = attr, methods, depth
        self.env = {}

    def helper(self, n, kind):
        if (isinstance(n, ast.Call) and isinstance(n.func, ast.Attribute) and isinstance(n.func.value, ast.Name) and n.func.value.id == "self"
                and not n.args and not n.keywords and n.func.attr in self.methods and n.func.attr not in ("step",)):
            if self.depth > 3:
                raise Untranslatable("helper nesting")
            return Getter(self.attr, self.methods, self.depth + 1).block(strip_doc(self.methods[n.func.attr].body), kind)
        return None

    def value(self, n):
        if isinstance(n, ast.Name) and n.id in self.env:
            return self.env[n.id][0]
        if isinstance(n, ast.Attribute):
            ch = _attr_chain(n)
            if ch == ["self", "optimizer", self.attr]:
                return "live"
            if ch == ["self", "gamma"]:
                return "gamma"
            if ch == ["self", "last_epoch"]:
                return "lastEpoch"
            if len(ch) == 2 and ch[0] == "self" and ch[1].startswith("base_"):
                return "base"
            if ch == ["self", "step_size"]:
                return "(stepSize : Int)"
            raise Untranslatable("attribute " + ".".join(ch))
        if isinstance(n, ast.BinOp) and isinstance(n.op, ast.Mult):
            return f"({self.value(n.left)} * {self.value(n.right)})"
        if isinstance(n, ast.BinOp) and isinstance(n.op, ast.Mod):
            return f"({self.value(n.left)} % {self.value(n.right)})"
        if isinstance(n, ast.IfExp):
            return f"(if {self.cond(n.test)} then {self.value(n.body)} else {self.value(n.orelse)})"
        h = self.helper(n, "value")
        if h is not None:
            return f"({h})"
        if isinstance(n, ast.Call) and isinstance(n.func, ast.Attribute) and _attr_chain(n.func)[0] == "self" and len(n.args) == 1 and not n.keywords:
            if self.value(n.args[0]) == "lastEpoch":
                return "(f lastEpoch)"
        if isinstance(n, ast.Constant) and isinstance(n.value, int) and not isinstance(n.value, bool):
            return str(n.value)
        raise Untranslatable(ast.dump(n)[:120])

    def cond(self, n):
        if isinstance(n, ast.Name) and n.id in self.env and self.env[n.id][1] == "cond":
            return self.env[n.id][0]
        if isinstance(n, ast.Constant) and isinstance(n.value, bool):
            return "True" if n.value else "False"
        if isinstance(n, ast.BoolOp):
            op = " ∨ " if isinstance(n.op, ast.Or) else " ∧ "
            return "(" + op.join(self.cond(v) for v in n.values) + ")"
        if isinstance(n, ast.UnaryOp) and isinstance(n.op, ast.Not):
            return f"(¬ {self.cond(n.operand)})"
        if isinstance(n, ast.IfExp):
            return f"(if {self.cond(n.test)} then {self.cond(n.body)} else {self.cond(n.orelse)})"
        if isinstance(n, ast.Compare) and len(n.ops) == 1:
            a, b = self.value(n.left), self.value(n.comparators[0])
            if isinstance(n.ops[0], ast.Eq):
                return f"({a} = {b})"
            if isinstance(n.ops[0], ast.NotEq):
                return f"({a} ≠ {b})"
        h = self.helper(n, "cond")
        if h is not None:
            return f"({h})"
        raise Untranslatable(ast.dump(n)[:120])

    def any(self, n, kind):
        return self.value(n) if kind == "value" else self.cond(n)

    def block(self, stmts, kind):
        if not stmts:
            raise Untranslatable("getter falls off its end")
        s, rest = stmts[0], stmts[1:]
        if isinstance(s, ast.Return):
            return self.any(s.value, kind)
        if isinstance(s, ast.Assign) and len(s.targets) == 1 and isinstance(s.targets[0], ast.Name):
            try:
                self.env[s.targets[0].id] = (self.value(s.value), "value")
            except Untranslatable:
                self.env[s.targets[0].id] = (self.cond(s.value), "cond")
            return self.block(rest, kind)
        if isinstance(s, ast.If):
            saved = dict(self.env)
            then = self.block(strip_doc(s.body) + rest, kind)
            self.env = dict(saved)
            els = self.block(strip_doc(s.orelse) + rest, kind)
            self.env = saved
            return f"if {self.cond(s.test)} then {then} else {els}"
        raise Untranslatable("getter statement: " + ast.dump(s)[:140])


def strip_doc(body):
    return [s for s in body if not (isinstance(s, ast.Expr) and isinstance(s.value, ast.Constant) and isinstance(s.value.value, str))
            and not isinstance(s, ast.Pass)]


def getter(fn, attr, methods=None):
    return Getter(attr, methods or {}).block(strip_doc(fn.body), "value")


def step_fn(fn, attr, getname):
    """the base class's step(): a sequence of lets over (live, lastEpoch)"""
    lets = []
    for s in strip_doc(fn.body):
        if isinstance(s, ast.AugAssign) and isinstance(s.op, ast.Add) and _attr_chain(s.target) == ["self", "last_epoch"] and isinstance(s.value, ast.Constant):
            lets.append(f"let lastEpoch := lastEpoch + {int(s.value.value)}")
        elif (isinstance(s, ast.Assign) and len(s.targets) == 1 and isinstance(s.targets[0], ast.Name) and isinstance(s.value, ast.Call)
              and isinstance(s.value.func, ast.Attribute) and _attr_chain(s.value.func) == ["self", getname] and not s.value.args):
            lets.append(f"let {s.targets[0].id}_ := get lastEpoch live")
        elif (isinstance(s, ast.Assign) and len(s.targets) == 1 and isinstance(s.targets[0], ast.Attribute)
              and _attr_chain(s.targets[0]) == ["self", "optimizer", attr] and isinstance(s.value, ast.Name)):
            lets.append(f"let live := {s.value.id}_")
        elif (isinstance(s, ast.Assign) and len(s.targets) == 1 and isinstance(s.targets[0], ast.Attribute)
              and _attr_chain(s.targets[0]) == ["self", "optimizer", attr] and isinstance(s.value, ast.Call)
              and isinstance(s.value.func, ast.Attribute) and _attr_chain(s.value.func) == ["self", getname] and not s.value.args):
            lets.append("let live := get lastEpoch live")          # written without the intermediate local
        elif (isinstance(s, ast.Assign) and len(s.targets) == 1 and isinstance(s.targets[0], ast.Attribute) and _attr_chain(s.targets[0]) == ["self", "last_epoch"]
              and isinstance(s.value, ast.BinOp) and isinstance(s.value.op, ast.Add) and isinstance(s.value.left, ast.Attribute)
              and _attr_chain(s.value.left) == ["self", "last_epoch"] and isinstance(s.value.right, ast.Constant)):
            lets.append(f"let lastEpoch := lastEpoch + {int(s.value.right.value)}")   # `self.last_epoch = self.last_epoch + 1`
        else:
            raise Untranslatable("step statement: " + ast.dump(s)[:160])
    return lets


def init_fn(fn):
    """the base class's __init__: which last_epoch it starts from and whether (and when) it calls step()"""
    lets = []
    for s in strip_doc(fn.body):
        if isinstance(s, ast.If) and all(isinstance(x, ast.Raise) for x in strip_doc(s.body)) and not s.orelse:
            continue   # argument validation
        if isinstance(s, ast.Assign) and len(s.targets) == 1 and isinstance(s.targets[0], ast.Attribute):
            ch = _attr_chain(s.targets[0])
            if ch == ["self", "last_epoch"] and isinstance(s.value, ast.Name) and s.value.id == "last_epoch":
                lets.append("let lastEpoch := lastEpoch0")
                continue
            if ch == ["self", "optimizer"]:
                continue
        if isinstance(s, ast.Expr) and isinstance(s.value, ast.Call) and isinstance(s.value.func, ast.Attribute) and _attr_chain(s.value.func) == ["self", "step"]:
            lets.append("let (live, lastEpoch) := step get live lastEpoch")
            continue
        raise Untranslatable("__init__ statement: " + ast.dump(s)[:160])
    return lets


def sub_init(fn, attr, tag, K):
    """a concrete scheduler's __init__: parameter captures are skipped, `self.base_* = optimizer.<attr>` binds base,
    `super().__init__(optimizer, last_epoch=last_epoch)` runs the base constructor – in source order"""
    lets, called = [], False
    for s in strip_doc(fn.body):
        if isinstance(s, ast.Assign) and len(s.targets) == 1 and isinstance(s.targets[0], ast.Attribute):
            ch = _attr_chain(s.targets[0])
            if len(ch) == 2 and ch[0] == "self" and isinstance(s.value, ast.Name) and s.value.id == ch[1]:
                continue   # self.gamma = gamma, self.step_size = step_size, self.noise_lambda = noise_lambda, …
            if len(ch) == 2 and ch[0] == "self" and ch[1].startswith("base_") and isinstance(s.value, ast.Attribute) and _attr_chain(s.value) == ["optimizer", attr]:
                lets.append("let base := live")
                continue
        if (isinstance(s, ast.Expr) and isinstance(s.value, ast.Call) and isinstance(s.value.func, ast.Attribute) and s.value.func.attr == "__init__"
                and isinstance(s.value.func.value, ast.Call) and isinstance(s.value.func.value.func, ast.Name) and s.value.func.value.func.id == "super"):
            kw = {k.arg: k.value for k in s.value.keywords}
            if not (len(s.value.args) == 1 and isinstance(s.value.args[0], ast.Name) and s.value.args[0].id == "optimizer"
                    and set(kw) == {"last_epoch"} and isinstance(kw["last_epoch"], ast.Name) and kw["last_epoch"].id == "last_epoch"):
                raise Untranslatable("super().__init__ arguments: " + ast.dump(s)[:160])
            lets.append(f"let (live, lastEpoch) := {tag}BaseInit {tag}BaseStep (fun e l => {tag}Get{K} l gamma base stepSize f e) live lastEpoch")
            called = True
            continue
        raise Untranslatable("__init__ statement: " + ast.dump(s)[:160])
    if not called:
        raise Untranslatable("constructor never runs the base constructor")
    return lets


def default_last_epoch(fn):
    names = [a.arg for a in fn.args.args + fn.args.kwonlyargs]
    defaults = dict(zip([a.arg for a in fn.args.args][-len(fn.args.defaults):] if fn.args.defaults else [], fn.args.defaults))
    defaults.update({a.arg: d for a, d in zip(fn.args.kwonlyargs, fn.args.kw_defaults) if d is not None})
    if "last_epoch" not in names or "last_epoch" not in defaults:
        raise Untranslatable("__init__ has no defaulted last_epoch")
    d = defaults["last_epoch"]
    v = ast.literal_eval(d)
    return int(v)


def translate():
    out = ["/-! GENERATED by vharness/props/c17_trans.py from opacus/schedulers/*.py – do not edit. -/", "namespace Opacus.Generated.Sched", ""]
    for tag, (rel, attr, getname, classes) in FILES.items():
        tree = ast.parse((Path(core.REPO) / rel).read_text())
        found = {c.name: c for c in tree.body if isinstance(c, ast.ClassDef)}
        for cname, kind in classes.items():
            if cname not in found:
                raise Untranslatable(f"class {cname} not found in {rel}")
            fns = {f.name: f for f in found[cname].body if isinstance(f, ast.FunctionDef)}
            if kind == "base":
                lets = step_fn(fns["step"], attr, getname)
                out.append(f"/-- `{cname}.step` -/")
                out.append(f"def {tag}BaseStep {{R : Type}} (get : Int → R → R) (live : R) (lastEpoch : Int) : R × Int :=")
                out += ["  " + l for l in lets] + ["  (live, lastEpoch)", ""]
                ilets = init_fn(fns["__init__"])
                out.append(f"/-- `{cname}.__init__` (argument checks skipped) -/")
                out.append(f"def {tag}BaseInit {{R : Type}} (step : (Int → R → R) → R → Int → R × Int) (get : Int → R → R) (live : R) (lastEpoch0 : Int) : R × Int :=")
                out += ["  " + l for l in ilets] + ["  (live, lastEpoch)", ""]
                out.append(f"def {tag}DefaultLastEpoch : Int := {default_last_epoch(fns['__init__'])}")
                out.append("")
            else:
                if getname not in fns:
                    raise Untranslatable(f"{cname}.{getname} not found")
                if "step" in fns:
                    raise Untranslatable(f"{cname} overrides step()")
                body = getter(fns[getname], attr, fns)
                out.append(f"/-- `{cname}.{getname}` -/")
                K = kind.capitalize()
                out.append(f"def {tag}Get{K} {{R : Type}} [Mul R] (live gamma base : R) (stepSize : Nat) (f : Int → R) (lastEpoch : Int) : R :=")
                out.append(f"  {body}")
                out.append("")
                clets = sub_init(fns["__init__"], attr, tag, K)
                out.append(f"/-- `{cname}.__init__`: what it captures and when it runs the base constructor; returns (live, last_epoch, base) -/")
                out.append(f"def {tag}Construct{K} {{R : Type}} [Mul R] (gamma : R) (stepSize : Nat) (f : Int → R) (live : R) (lastEpoch0 : Int) : R × Int × R :=")
                out += ["  let base := live", "  let lastEpoch := lastEpoch0"] + ["  " + l for l in clets] + ["  (live, lastEpoch, base)", ""]
    out.append("end Opacus.Generated.Sched")
    return "\n".join(out) + "\n"


if __name__ == "__main__":
    print(translate())
