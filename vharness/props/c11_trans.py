"""Translator tie for C11: `zero_grad` of `DPOptimizer` and of `DPOptimizerFastGradientClipping` →
lean/OpacusLean/Generated/ZeroGrad.lean, as the effect on one parameter's `(grad_sample, summed_grad)` given
`_is_last_step_skipped`, plus whether the inner optimizer's `zero_grad` is called.

Subset: `for p in self.params:` loops (any number, also through a local alias of `self.params`) containing only `p.<attr> = None`, possibly under `if self._is_last_step_skipped:` /
`if not self._is_last_step_skipped:` (with optional `else`); the logging `if set_to_none is False:` block is skipped; the
inner call must be `self.original_optimizer.zero_grad(set_to_none)`.
`Props/C11.lean` proves the generated effect equal to the engine model's `optZero` (the step the no-double-release and
no-stale-state theorems quantify over).
"""
from __future__ import annotations

import ast
from pathlib import Path

from .. import core
from ..pytrans import Untranslatable, find_function

GEN_FILE = core.LEAN / "OpacusLean" / "Generated" / "ZeroGrad.lean"
ATTR = {"p.grad_sample": ("gradSample", "[]"), "p.summed_grad": ("summedGrad", "none")}
SITES = [("opacus/optimizers/optimizer.py", "DPOptimizer", "flat"),
         ("opacus/optimizers/optimizer_fast_gradient_clipping.py", "DPOptimizerFastGradientClipping", "ghost")]


class Z:
    def __init__(self):
        self.inner = 0
        self.aliases = {"self.params"}

    def block(self, stmts, ind):
        pad = "  " * ind
        out = []
        for s in stmts:
            if isinstance(s, ast.Expr) and isinstance(s.value, ast.Constant):
                continue
            if isinstance(s, ast.Assign) and len(s.targets) == 1 and ast.unparse(s.targets[0]) in ATTR \
                    and isinstance(s.value, ast.Constant) and s.value.value is None:
                name, empty = ATTR[ast.unparse(s.targets[0])]
                out.append(f"{pad}let {name} := {empty}")
                continue
            if isinstance(s, ast.Assign) and len(s.targets) == 1 and isinstance(s.targets[0], ast.Name) and ast.unparse(s.value) in self.aliases:
                self.aliases.add(s.targets[0].id)          # `params = self.params`
                continue
            if isinstance(s, ast.For) and ast.unparse(s.target) == "p" and ast.unparse(s.iter) in self.aliases and not s.orelse:
                out += self.block(s.body, ind)              # the loop touches only `p`'s own attributes: per parameter it is its body
                continue
            if isinstance(s, ast.If) and "set_to_none" in ast.unparse(s.test) and all(isinstance(b, ast.Expr) for b in s.body) and not s.orelse:
                continue                                    # logging only
            if isinstance(s, ast.Expr) and ast.unparse(s.value) == "self.original_optimizer.zero_grad(set_to_none)" and ind == 1:
                self.inner += 1
                continue
            if isinstance(s, ast.If):
                t = ast.unparse(s.test)
                if t in ("self._is_last_step_skipped", "not self._is_last_step_skipped"):
                    cond = "lastSkipped" if t.startswith("self") else "!lastSkipped"
                    then = "\n".join(self.block(s.body, ind + 1) + [f"{pad}  (gradSample, summedGrad)"])
                    els = "\n".join(self.block(s.orelse, ind + 1) + [f"{pad}  (gradSample, summedGrad)"])
                    out.append(f"{pad}let (gradSample, summedGrad) := if {cond} then\n{then}\n{pad}  else\n{els}")
                    continue
            raise Untranslatable("zero_grad statement " + ast.unparse(s)[:100])
        return out


def site(rel, cls):
    fn = find_function(ast.parse((Path(core.REPO) / rel).read_text()), "zero_grad", cls=cls)
    z = Z()
    body = z.block(fn.body, 1)
    return "\n".join(body + ["  (gradSample, summedGrad)"]), z.inner == 1


def init_effect():
    """`DPOptimizer.__init__`: the protocol state a NEW optimizer starts from – `self._step_skip_queue = []`, `self._is_last_step_skipped = False`
    and, for every parameter, `p.summed_grad = None` (unconditionally: an accumulator left behind by an earlier optimizer on the same
    parameters must not be inherited).  Anything else about these three (a guard, another value) is outside the subset."""
    fn = find_function(ast.parse((Path(core.REPO) / SITES[0][0]).read_text()), "__init__", cls="DPOptimizer")
    queue = skipped = summed = None
    for s in fn.body:
        u = ast.unparse(s)
        if u.startswith("self._step_skip_queue ="):
            queue = u in ("self._step_skip_queue = []", "self._step_skip_queue = list()")
        elif u.startswith("self._is_last_step_skipped ="):
            skipped = u == "self._is_last_step_skipped = False"
        elif "summed_grad" in u:
            ok = isinstance(s, ast.For) and ast.unparse(s.target) == "p" and ast.unparse(s.iter) in ("self.params", "params") and not s.orelse \
                and [ast.unparse(b) for b in s.body if not (isinstance(b, ast.Expr) and isinstance(b.value, ast.Constant))] == ["p.summed_grad = None"]
            summed = ok if summed is None else False
    if not (queue and skipped and summed):
        raise Untranslatable(f"DPOptimizer.__init__: fresh skip queue {queue}, cleared skip marker {skipped}, unconditional `p.summed_grad = None` for every parameter {summed}")
    return ["/-- `DPOptimizer.__init__`: the protocol state a new optimizer starts from (whatever an earlier optimizer left on the parameters) -/",
            "def initSummed {β : Type} (left : Option β) : Option β := none", "def initQueue : List Bool := []", "def initLastSkipped : Bool := false", ""]


def translate():
    out = ["/-! GENERATED by vharness/props/c11_trans.py from DPOptimizer.zero_grad / DPOptimizerFastGradientClipping.zero_grad – do not edit. -/",
           "set_option linter.unusedVariables false", "namespace Opacus.Generated.ZeroGrad", ""]
    for rel, cls, name in SITES:
        body, inner = site(rel, cls)
        out += [f"/-- `{cls}.zero_grad`: one parameter's `(grad_sample, summed_grad)` afterwards (`[]` / `none` = `None`) -/",
                f"def {name} {{α β : Type}} (lastSkipped : Bool) (gradSample : List α) (summedGrad : Option β) : List α × Option β :=",
                body, f"def {name}CallsInner : Bool := {'true' if inner else 'false'}", ""]
    out += init_effect()
    out.append("end Opacus.Generated.ZeroGrad")
    return "\n".join(out) + "\n"


if __name__ == "__main__":
    print(translate(), end="")
