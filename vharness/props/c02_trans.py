"""Translator tie for C02: the per-sample clip factor as written at its five sites →
lean/OpacusLean/Generated/ClipFactor.lean (real arithmetic, elementwise: every tensor in the expression has one entry per
sample, so the expression is a function of that sample's norm `n` and the bound `C`), plus the order of every `.norm(p, …)`
that feeds it.  `Props/C02.lean` proves each generated factor equal to the model's `clipFactor C n` – the function the
sensitivity theorems are about – and every norm order equal to 2.

  optimizers/optimizer.py            DPOptimizer.clip_and_accumulate            per_sample_clip_factor = …   (non-empty branch)
  optimizers/perlayeroptimizer.py    DPPerLayerOptimizer.clip_and_accumulate    per_sample_clip_factor = …
  optimizers/ddp_perlayeroptimizer.py _clip_and_accumulate_parameter            per_sample_clip_factor = …
  optimizers/adaclipoptimizer.py     AdaClipDPOptimizer.clip_and_accumulate     per_sample_clip_factor = …
  grad_sample/grad_sample_module_fast_gradient_clipping.py  get_clipping_coef   return …

Subset: + - * / on names / `self.max_grad_norm` / float and int literals; `e.clamp(max=k)`, `e.clamp(min=k)`,
`e.clamp(min=a, max=b)`, `e.clamp_max(k)`, `torch.clamp(e, …)`; the candidate assignment is the one whose value is not a
`torch.zeros(…)` placeholder (the explicit empty-batch branch); a call to a helper of the same class / module is followed
into the helper (its parameters bound to the call's arguments).
"""
from __future__ import annotations

import ast
from pathlib import Path

from .. import core
from ..pytrans import Untranslatable, find_function

GEN_FILE = core.LEAN / "OpacusLean" / "Generated" / "ClipFactor.lean"

SITES = [
    ("opacus/optimizers/optimizer.py", "DPOptimizer", "clip_and_accumulate", "flat"),
    ("opacus/optimizers/perlayeroptimizer.py", "DPPerLayerOptimizer", "clip_and_accumulate", "perLayer"),
    ("opacus/optimizers/ddp_perlayeroptimizer.py", None, "_clip_and_accumulate_parameter", "ddpPerLayer"),
    ("opacus/optimizers/adaclipoptimizer.py", "AdaClipDPOptimizer", "clip_and_accumulate", "adaClip"),
    ("opacus/grad_sample/grad_sample_module_fast_gradient_clipping.py", "GradSampleModuleFastGradientClipping", "get_clipping_coef", "ghost"),
]
BOUND = {"self.max_grad_norm", "max_grad_norm"}
NORM = {"per_sample_norms", "norm_sample", "per_sample_norm"}


def lit(v):
    if isinstance(v, bool) or not isinstance(v, (int, float)) or v != v or v in (float("inf"), float("-inf")):
        raise Untranslatable(f"literal {v!r}")
    if isinstance(v, int):
        return f"({v} : ℝ)" if v >= 0 else f"(-{-v} : ℝ)"
    r = repr(abs(v))
    if "e" in r:
        m, e = r.split("e")
        r = f"{m}e{int(e)}"
    return f"({r} : ℝ)" if v >= 0 else f"(-{r} : ℝ)"


def clamp(e, kw):
    lo, hi = kw.get("min"), kw.get("max")
    if lo is not None:
        e = f"(max {e} {lo})"
    if hi is not None:
        e = f"(min {e} {hi})"
    if lo is None and hi is None:
        raise Untranslatable("clamp without bounds")
    return e


def expr(n, local):
    src = ast.unparse(n)
    if isinstance(n, ast.Name) and n.id in local and n.id not in NORM:
        return local[n.id]
    if src in BOUND:
        return "C"
    if src in NORM:
        return "n"
    if isinstance(n, ast.Name) and n.id in local:
        return local[n.id]
    if src in local:
        return local[src]
    if isinstance(n, ast.Constant):
        return lit(n.value)
    if isinstance(n, ast.UnaryOp) and isinstance(n.op, ast.USub):
        return f"(-{expr(n.operand, local)})"
    if isinstance(n, ast.BinOp):
        op = {ast.Add: "+", ast.Sub: "-", ast.Mult: "*", ast.Div: "/"}.get(type(n.op))
        if op:
            return f"({expr(n.left, local)} {op} {expr(n.right, local)})"
    if isinstance(n, ast.Call):
        kws = {k.arg: expr(k.value, local) for k in n.keywords}
        if isinstance(n.func, ast.Attribute) and n.func.attr in ("clamp", "clamp_max", "clamp_min"):
            recv = n.func.value
            if ast.unparse(recv) == "torch" and n.func.attr == "clamp" and n.args:
                base, pos = expr(n.args[0], local), n.args[1:]
            else:
                base, pos = expr(recv, local), n.args
            if n.func.attr == "clamp_max" and len(pos) == 1:
                kws["max"] = expr(pos[0], local)
            elif n.func.attr == "clamp_min" and len(pos) == 1:
                kws["min"] = expr(pos[0], local)
            elif pos:
                for name, a in zip(("min", "max"), pos):
                    if not (isinstance(a, ast.Constant) and a.value is None):
                        kws[name] = expr(a, local)
            return clamp(base, kws)
    raise Untranslatable("clip-factor expression " + src[:100])


def norm_orders(fns):
    out = []
    for fn in fns:
        for c in ast.walk(fn):
            if isinstance(c, ast.Call) and isinstance(c.func, ast.Attribute) and c.func.attr == "norm":
                p = c.args[0] if c.args else next((k.value for k in c.keywords if k.arg == "p"), None)
                if p is None:
                    out.append(2)          # torch's default: the 2-norm
                elif isinstance(p, ast.Constant) and isinstance(p.value, int) and p.value >= 0:
                    out.append(p.value)
                else:
                    raise Untranslatable("norm order " + ast.unparse(c)[:80])
    return out


def helper_of(call, tree, cls):
    """the definition a call `self.m(…)` / `f(…)` refers to (same class / same module), or None"""
    f = call.func
    try:
        if isinstance(f, ast.Attribute) and ast.unparse(f.value) == "self" and cls is not None:
            return find_function(tree, f.attr, cls=cls)
        if isinstance(f, ast.Name):
            return find_function(tree, f.id)
    except Untranslatable:
        return None
    return None


def site_factor(fn, tree, cls, env, visited, depth=0):
    """the clip-factor expression of `fn`: the value assigned to `per_sample_clip_factor` (else the returned value) that is not
    the empty-batch placeholder; a call to a helper of the same class / module is followed into that helper"""
    visited.append(fn)
    cands = [s.value for s in ast.walk(fn) if isinstance(s, ast.Assign) and len(s.targets) == 1
             and ast.unparse(s.targets[0]) == "per_sample_clip_factor" and not ast.unparse(s.value).startswith("torch.zeros(")]
    if not cands:
        cands = [s.value for s in ast.walk(fn) if isinstance(s, ast.Return) and s.value is not None and not ast.unparse(s.value).startswith("torch.zeros(")]
    if len(cands) != 1:
        raise Untranslatable(f"{len(cands)} candidate clip-factor expressions in {fn.name}")
    c = cands[0]
    local = dict(env)
    for s in ast.walk(fn):                      # plain locals that name a translatable sub-expression
        if isinstance(s, ast.Assign) and len(s.targets) == 1 and isinstance(s.targets[0], ast.Name) and s.value is not c \
                and s.targets[0].id not in NORM:
            try:
                local[s.targets[0].id] = expr(s.value, local)
            except Untranslatable:
                pass
    if isinstance(c, ast.Call) and depth < 3:
        h = helper_of(c, tree, cls)
        if h is not None:
            params = [a.arg for a in h.args.args if a.arg != "self"]
            henv = dict(env)
            for name, a in list(zip(params, c.args)) + [(k.arg, k.value) for k in c.keywords]:
                try:
                    henv[name] = expr(a, local)
                except Untranslatable:
                    pass
            return site_factor(h, tree, cls, henv, visited, depth + 1)
    return expr(c, local)


def translate():
    out = ["import Mathlib.Data.Real.Basic",
           "/-! GENERATED by vharness/props/c02_trans.py from the five clip-factor sites – do not edit. -/",
           "namespace Opacus.Generated.ClipFactor", ""]
    orders = []
    for rel, cls, name, lean in SITES:
        tree = ast.parse((Path(core.REPO) / rel).read_text())
        fn = find_function(tree, name, cls=cls)
        visited = []
        out += [f"/-- `{rel}` `{(cls + '.') if cls else ''}{name}`: the clip factor of a sample with norm `n` under the bound `C` -/",
                f"noncomputable def {lean} (C n : ℝ) : ℝ :=", "  " + site_factor(fn, tree, cls, {}, visited), ""]
        if lean == "ghost":
            visited.append(find_function(tree, "get_norm_sample", cls=cls))
        orders.append((lean, norm_orders(visited)))
    out += ["/-- the order `p` of every `.norm(p, …)` call in those functions (for the ghost module: in `get_norm_sample`) -/",
            "def normOrders : List (String × List Nat) :=",
            "  [" + ", ".join(f'("{l}", [{", ".join(map(str, o))}])' for l, o in orders) + "]", "",
            "end Opacus.Generated.ClipFactor"]
    return "\n".join(out) + "\n"


if __name__ == "__main__":
    print(translate(), end="")
