"""C16 — checkpoint and resume preserve the privacy ledger and the training trajectory.

Obligations (Lean, unbounded; `OpacusLean.Props.C16` over `OpacusLean.Model.Checkpoint`): load restores
history / parameters / inner-optimizer state / scheduler states for every engine state; ε continuity for
every conversion function; mismatching, empty or key-less accountant states are rejected; for every
configuration, history, cut point between logical steps and continuation the resumed run is observably the
uninterrupted run provided the fresh optimizer's live σ, C equal the saved ones (always true without
schedulers; full statement for the repaired variant); the Exponential-scheduler counterexample (finding
D8); a cut inside a virtual step loses the accumulated gradients; `state_dict()` does not alias, `load`
does (as coded).

Correspondence: the `Float` instance of the same Lean machine (driver C16) against real
`PrivacyEngine.make_private` objects (token model, patched `torch.normal`) through random op sequences
with `save_checkpoint → fresh engine/model/optimizer/schedulers → load_checkpoint` at random cut points;
live σ/C, accountant history, scheduler epochs bit-for-bit, clip bounds recovered from released gradients
to 1e-9.  Search: the property itself on real training (tanh MLP, momentum SGD / Adam, rdp / gdp / prv,
pinned noise generator): resumed vs uninterrupted state dicts, ε, parameters.
"""
from __future__ import annotations

import io
import itertools

import torch

from .. import core, rig
from ..core import f2h, h2f
from . import c16_rig as R

PID = "C16"
MODULES = ["OpacusLean.Props.C16"]
THEOREMS = [
    "Opacus.C16.acct_step_val",
    "Opacus.C16.load_restores_saved_state",
    "Opacus.C16.load_restores_history",
    "Opacus.C16.eps_continuous_across_save",
    "Opacus.C16.mechanism_mismatch_rejected",
    "Opacus.C16.empty_state_rejected",
    "Opacus.C16.step_refines",
    "Opacus.C16.run_refines",
    "Opacus.C16.resume_obs",
    "Opacus.C16.resume_bisimulation_partial",
    "Opacus.C16.resume_bisimulation_no_schedulers",
    "Opacus.C16.resume_bisimulation_repaired",
    "Opacus.C16.exp_scheduler_resume_counterexample",
    "Opacus.C16.cut_inside_virtual_step_counterexample",
    "Opacus.C16.history_not_aliased_on_save",
    "Opacus.C16.load_aliases_history_asCoded",
    "Opacus.C16.load_aliasing_witness",
    "Opacus.C16.generated_load_state_dict_eq_model",
    "Opacus.C16.generated_load_none_rejected",
    "Opacus.C16.generated_checkpoint_keys_eq_model",
]
RULE = (
    "case = (accountant, inner optimizer, sigma0, C0, sample rate, noise schedule, clip schedule, op sequence over "
    "{log b, skip b, ns, cs, save, load, sd, sdhist, loadsd, loadinto m, loadbad k}) drawn from VERIF_SEED; "
    "non-trivial iff a logical step precedes a save AND a logical step follows the matching load (a cut inside a real "
    "history); distinct by (accountant, optimizer, schedule kinds, op sequence)"
)
TRUSTED = [
    "the translator vharness/props/c16_trans.py (Python `ast` -> the guard clauses of IAccountant.load_state_dict in Python's exception semantics, what IAccountant.state_dict stores, and the (key, component, conditional) tables of PrivacyEngine.save_checkpoint / load_checkpoint; subset in its docstring, anything else is reported as a broken tie) is trusted to render those four functions faithfully; a state dict is modelled by the presence and value of its two keys `history` and `mechanism`",
    "torch.save / torch.load round-trip python floats, ints, tuples, tensors and module-level functions exactly (modelled as value copy)",
    "the training step is a deterministic function of (parameters, inner optimizer state, batches with their clip bounds, sigma, C, noise generator state): `train` is a parameter of the Lean machine; checked by the oracle on real training (bitwise equal parameters)",
    "epsilon is a function of the accountant's class and history only (checked on the real accountants at every load)",
]
PARTIAL = [
    "aliasing of the loaded state_dict (`self.history = state_dict['history']`, no copy) is proved for the model as coded (load_aliasing_witness) but is NOT part of the correspondence verdict: a defensive copy on load would be harmless for the property",
    "resume ≡ uninterrupted is proved under the explicit proviso that the fresh optimizer's live sigma and C equal the saved values (finding D8: they are not persisted); full statement proved only for the repaired variant",
    "cut points are those between logical steps (pending summed_grad / skip queue are not persisted; counterexample theorem for a cut inside a virtual step)",
    "secure_mode, distributed and ghost-clipping engines are not exercised; adaptive clipping only by the search (finding: its live clip bound is not persisted either)",
]

MECHS = ["rdp", "gdp", "prv"]


# --------------------------------------------------------------------------- generation
def gen_spec(rng, allow_lambda=True, allow_obj=False):
    k = rng.choice(["none", "none", "exp", "step", "lam", "exp"])
    if k == "lam" and not allow_lambda:
        k = "exp"
    if k == "none":
        return ("none",)
    if k == "exp":
        return ("exp", rng.choice([0.5, 0.9, 0.99, 1.0, 1.1, 2.0, 0.7071067811865476]))
    if k == "step":
        return ("step", rng.choice([0.5, 0.9, 1.25, 0.3]), rng.choice([1, 2, 3]))
    return ("lam", rng.choice(sorted(R.LAMBDAS) + (["obj", "obj"] if allow_obj else [])))


def gen_case(rng, max_ops, extras=True):
    mech = rng.choice(MECHS)
    cfg = {
        "mech": mech, "opt": rng.choice(["sgdm", "adam", "sgd"]),
        "sigma0": rng.choice([0.0, 0.5, 1.0, 1.1, 2.0, 3.3]) if rng.random() < 0.9 else rng.uniform(0.1, 4),
        "c0": rng.choice([0.1, 1.0, 1.5, 2.0, 10.0]) if rng.random() < 0.9 else rng.uniform(0.1, 4),
        "nb": rng.choice([3, 7, 10, 16, 49]),
        # GDP cannot follow a changing sigma: mostly keep its noise schedule off, sometimes not (error branch)
        "ns": ("none",) if (mech == "gdp" and rng.random() < 0.8) else gen_spec(rng),
        "cs": gen_spec(rng), "kind": "token", "seed": rng.randrange(1000),
    }
    if rng.random() < 0.5:
        # structured half: history | save | (anything) | load | continuation – a cut inside a real
        # history (the random half below reaches this shape only rarely)
        def seg(b, need_log):
            out, pend, logged = [], 0, False
            for _ in range(rng.randint(1, max(2, max_ops // 3))):
                r = rng.random()
                if r < 0.45:
                    out.append(f"log {b}"); b += 1; pend = 0; logged = True
                elif r < 0.6 and pend < 3:
                    out.append(f"skip {b}"); b += 1; pend += 1
                elif r < 0.8:
                    out.append("ns")
                else:
                    out.append("cs")
            if need_log and not logged:
                out.append(f"log {b}"); b += 1
            return out, b
        pre, b = seg(0, True)
        mid, b = seg(b, False) if rng.random() < 0.4 else ([], b)
        post, b = seg(b, True)
        ops = pre + ["save"] + mid + ["load"] + post
        if extras and rng.random() < 0.5:
            ops.insert(rng.randint(len(pre) + len(mid) + 2, len(ops)), "sd")
        return {"cfg": cfg, "ops": ops}
    ops, b, pend = [], 0, 0
    n = rng.randint(3, max_ops)
    saved = False
    sd = False
    ret = False
    for _ in range(n):
        r = rng.random()
        if r < 0.34:
            ops.append(f"log {b}"); b += 1; pend = 0
        elif r < 0.44 and pend < 5:
            ops.append(f"skip {b}"); b += 1; pend += 1
        elif r < 0.56:
            ops.append("ns")
        elif r < 0.66:
            ops.append("cs")
        elif r < 0.78:
            ops.append("save"); saved = True
        elif r < 0.90 and saved:
            ops.append("load"); pend = 0; ret = True; sd = False
        elif extras and saved and r < 0.93:
            ops.append("loadinto " + rng.choice([m for m in MECHS if m != mech]))
        elif extras and saved and r < 0.95:
            ops.append("loadbad " + rng.choice(["empty", "nohist", "nomech", "none"]))
        elif extras:
            x = rng.choice(["sd", "sdhist", "loadsd"])
            if x == "sd":
                sd = True
            if (x in ("sdhist", "loadsd") and not sd) or (x == "dicthist" and not ret):
                x = "sd"; sd = True
            ops.append(x)
    return {"cfg": cfg, "ops": ops}


def cut_case(rng, kind="mlp", adaptive=False):
    """oracle scenario: ops1 | save → fresh → load | ops2"""
    mech = rng.choice(MECHS)
    cfg = {
        "mech": mech, "opt": rng.choice(["sgdm", "adam", "sgd"]), "lrdecay": rng.choice([None, 0.5, 0.8]),
        "sigma0": rng.choice([0.6, 1.0, 1.3, 2.0]), "c0": rng.choice([0.5, 1.0, 2.0]),
        "nb": rng.choice([7, 10, 16]),
        "ns": ("none",) if mech == "gdp" else gen_spec(rng, allow_obj=True),     # oracle scenarios only: the model tabulates pure functions
        "cs": gen_spec(rng, allow_obj=True), "kind": kind, "seed": rng.randrange(1000),
    }
    if adaptive:
        cfg.update(clipping="adaptive", ns=("none",), cs=("none",), mech=rng.choice(["rdp", "prv"]))
    ops, b = [], 0
    for _ in range(rng.randint(2, 9)):
        r = rng.random()
        if r < 0.5:
            ops.append(f"log {b}"); b += 1
        elif r < 0.6:
            # a whole virtual step: skipped physical batches followed by the releasing one
            for _ in range(rng.randint(1, 2)):
                ops.append(f"skip {b}"); b += 1
            ops.append(f"log {b}"); b += 1
        elif r < 0.8:
            ops.append("ns")
        else:
            ops.append("cs")
    ops.append(f"log {b}")
    cuts = [i for i in range(len(ops) + 1) if i == 0 or not ops[i - 1].startswith("skip")]
    cut = rng.choice(cuts)
    # periodic checkpointing: earlier checkpoints written by the same run (never loaded) must not influence the one resumed from
    early = sorted(rng.sample(range(1, cut), rng.randint(1, min(2, cut - 1)))) if cut >= 2 and rng.random() < 0.6 else []
    return {"cfg": cfg, "ops": ops, "cut": cut, "early_saves": early}


# --------------------------------------------------------------------------- model side
def spec_line(spec, nsteps):
    if spec[0] == "none":
        return "none"
    if spec[0] == "exp":
        return f"exp {f2h(spec[1])}"
    if spec[0] == "step":
        return f"step {f2h(spec[1])} {spec[2]}"
    tab = [R.LAMBDAS[spec[1]](e) for e in range(nsteps + 2)]
    return f"lam {len(tab)} " + " ".join(f2h(v) for v in tab)


def parse_hist(tok, i):
    assert tok[i] == "H"
    k = int(tok[i + 1]); i += 2
    h = []
    for _ in range(k):
        h.append((h2f(tok[i]), h2f(tok[i + 1]), int(tok[i + 2]))); i += 3
    return h, i


def parse_pend(tok, i):
    k = int(tok[i]); i += 1
    out = []
    for _ in range(k):
        out.append((int(tok[i]), h2f(tok[i + 1]))); i += 2
    return out, i


def parse_obs(line):
    """driver reply → dict (or the error / ok string)"""
    if line.startswith("err:") or line in ("ok", "bad-op", "bad-state"):
        return line
    tok = line.split()
    if tok[0] == "H":
        return parse_hist(tok, 0)[0]
    o = {"S": h2f(tok[1]), "C": h2f(tok[3])}
    o["H"], i = parse_hist(tok, 4)
    o["N"] = None if tok[i + 1] == "-" else int(tok[i + 1])
    o["K"] = None if tok[i + 3] == "-" else int(tok[i + 3])
    o["I"] = int(tok[i + 5])
    o["P"], i = parse_pend(tok, i + 7)
    assert tok[i] == "L"
    o["L"] = int(tok[i + 1]); i += 2
    if i < len(tok):
        bs, i = parse_pend(tok, i)
        o["last"] = (bs, h2f(tok[i]), h2f(tok[i + 1]))
    else:
        o["last"] = None
    return o


def same_axes(model_pairs, real_pairs):
    """model: [(batch id, clip)], real: [(axis, clip recovered)]"""
    m = sorted((b % R.D_TOK, c) for b, c in model_pairs)
    if real_pairs is None or len(m) != len(real_pairs):
        return False
    return all(a == ra and core.close(c, rc, 1e-9) for (a, c), (ra, rc) in zip(m, sorted(real_pairs)))


def agree(op, mo, ro, opt):
    """model observation vs real observation for one op"""
    if isinstance(mo, str) or isinstance(ro, str):
        return mo == ro
    if isinstance(mo, list) or isinstance(ro, list):
        return mo == ro
    if (mo["S"], mo["C"], mo["H"], mo["N"], mo["K"]) != (ro["S"], ro["C"], ro["H"], ro["N"], ro["K"]):
        return False
    if opt == "adam":
        if mo["I"] != ro["I"]:
            return False
    elif opt == "sgdm":
        if (mo["I"] > 0) != (ro["I"] > 0):
            return False
    if not same_axes(mo["P"], ro["P"]):
        return False
    if op.startswith("log "):
        if mo["last"] is None or ro["last"] is None:
            return False
        bs, s, c = mo["last"]
        axes, std = ro["last"]
        if not same_axes(bs, axes):
            return False
        if s * c != std:   # single IEEE multiplication on both sides
            return False
    return True


_Q = {}


def real_q(nb):
    """the sample rate make_private hands to the accountant for a loader of `nb` batches"""
    if nb not in _Q:
        _Q[nb] = R.RealEng({"mech": "rdp", "opt": "sgd", "sigma0": 1.0, "c0": 1.0, "nb": nb, "ns": ("none",), "cs": ("none",)}).sample_rate
    return _Q[nb]


def run_cases(ctx, cases, variant):
    lines, index = [], []
    for ci, c in enumerate(cases):
        cfg = c["cfg"]
        n = len(c["ops"])
        q = real_q(cfg["nb"])
        lines.append(f"new {cfg['mech']} {f2h(cfg['sigma0'])} {f2h(cfg['c0'])} {f2h(q)} {spec_line(cfg['ns'], n)} {spec_line(cfg['cs'], n)}")
        index.append(ci)
        for o in c["ops"]:
            lines.append(f"load {variant}" if o == "load" else ("loadbad empty" if o == "loadbad none" else o))
            index.append(ci)
    replies = ctx.lean_driver("C16", lines)
    per = {}
    for ci, rep in zip(index, replies):
        per.setdefault(ci, []).append(rep)
    for ci, c in enumerate(cases):
        cfg = c["cfg"]
        model = [parse_obs(x) for x in per[ci]]
        real = R.RealEng(cfg)
        impl = [real.obs()]
        ok = agree("new", model[0], impl[0], cfg["opt"])
        upto = 0
        for k, o in enumerate(c["ops"]):
            if not ok:
                break
            ro = real.do(o)
            impl.append(ro)
            upto = k + 1
            ok = agree(o, model[k + 1], ro, cfg["opt"])
            if isinstance(ro, str) and ro == "err:gdp-heterogeneous":
                break   # a refused GDP step ends the generated run on both sides
        ops = c["ops"][:upto]
        seen_log = cut = False
        state = 0   # 0: nothing, 1: log seen, 2: save after log, 3: load after that
        for o in ops:
            if o.startswith("log"):
                if state == 0:
                    state = 1
                elif state == 3:
                    cut = True
            elif o == "save" and state >= 1:
                state = max(state, 2)
            elif o == "load" and state >= 2:
                state = 3
        ctx.case((cfg["mech"], cfg["opt"], tuple(cfg["ns"]), tuple(cfg["cs"]), tuple(c["ops"])), nontrivial=cut, sample=c,
                 kind=f"{cfg['mech']}/{cfg['opt']}/{cfg['ns'][0]}/{cfg['cs'][0]}")
        for o in ops:
            ctx.count("op:" + o.split()[0])
        for r_ in impl:
            if isinstance(r_, str) and r_.startswith("err:"):
                ctx.count(r_)
        if ok:
            ctx.validated()
        else:
            ctx.mismatch("checkpoint", c, [str(x) for x in impl[-3:]], per[ci][max(0, upto - 2):upto + 1], oracle=case_oracle,
                         note=f"first disagreement at op #{upto - 1} ({c['ops'][upto - 1] if upto else 'new'})")


# --------------------------------------------------------------------------- property oracles (real code only)
def tdiff(a, b):
    """max abs difference between two nested state-dict-like structures (inf on structural mismatch)"""
    if isinstance(a, torch.Tensor) or isinstance(b, torch.Tensor):
        if not (isinstance(a, torch.Tensor) and isinstance(b, torch.Tensor)) or a.shape != b.shape:
            return float("inf")
        return float((a.double() - b.double()).abs().max()) if a.numel() else 0.0
    if isinstance(a, dict) and isinstance(b, dict):
        if set(a) != set(b):
            return float("inf")
        return max([tdiff(a[k], b[k]) for k in a] + [0.0])
    if isinstance(a, (list, tuple)) and isinstance(b, (list, tuple)):
        if len(a) != len(b):
            return float("inf")
        return max([tdiff(x, y) for x, y in zip(a, b)] + [0.0])
    if hasattr(a, "state") and hasattr(b, "state") and callable(getattr(a, "state")) and callable(getattr(b, "state")):
        return 0.0 if a.state() == b.state() else float("inf")      # stateful schedule objects: compared by their state
    if callable(a) and callable(b):
        return 0.0 if a is b else float("inf")
    if isinstance(a, float) and isinstance(b, float):
        return abs(a - b)
    return 0.0 if a == b else float("inf")


def snapshot(e, eps=True):
    d = {
        "history": e.history(),
        "module": {k: v.clone() for k, v in e.model._module.state_dict().items()},
        "optimizer": e.opt.state_dict(),
        "ns": None if e.nsched is None else dict(e.nsched.state_dict()),
        "cs": None if e.csched is None else dict(e.csched.state_dict()),
        "live": e.live(),
    }
    import copy
    d["optimizer"] = copy.deepcopy(d["optimizer"])
    if eps and d["history"] and all(s >= 0.3 for s, _, _ in d["history"]):
        d["eps"] = float(e.pe.get_epsilon(1e-5))
    return d


def resume_oracle(scn, eps=True, carry_live=False):
    """Property on real training: checkpoint after ops[:cut], resume in fresh objects, continue with
    ops[cut:]; everything must equal the uninterrupted run.
    carry_live: the user carries the optimizer's live (sigma, C) next to the checkpoint and writes them into the
    fresh optimizer before load_checkpoint – the proviso of the Lean resume theorem, and the only protocol under which a run with
    Exponential / Step schedulers can be resumed at all while finding D8 stands.  Then NOTHING may differ."""
    cfg, ops, cut = scn["cfg"], scn["ops"], scn["cut"]
    sig = f"{cfg['opt']}:{cfg['mech']}"
    a = R.RealEng(cfg)
    for i, o in enumerate(ops[:cut]):
        if i in scn.get("early_saves", ()):
            a.do("save")   # an earlier checkpoint of the same run
        if isinstance(a.do(o), str):
            return None   # GDP with a changing sigma: not a resumable history
    at_save = snapshot(a, eps)
    a.do("save")
    blob, gstate = a.saved, a.gen_state
    # resumed
    b = R.RealEng(cfg)
    if carry_live:
        # fresh objects first (a Lambda scheduler's constructor already writes base * lambda(0) into the optimizer),
        # then the carried live values, then load_checkpoint
        b.carry_live = (at_save["live"][0], at_save["live"][1])
    b.saved, b.gen_state = blob, gstate
    r = b.do("load")
    if isinstance(r, str):
        return (f"C16:load-raises:{r}", f"load_checkpoint of a checkpoint written by save_checkpoint of the same configuration raised ({r})", {})
    after_load = snapshot(b, eps)
    info = {"cut": cut, "live_at_save": at_save["live"], "live_after_load": after_load["live"]}
    for key, what in (("history", "accountant history"), ("module", "module parameters"), ("optimizer", "inner optimizer state_dict"),
                      ("ns", "noise scheduler state"), ("cs", "clip scheduler state")):
        d = tdiff(at_save[key], after_load[key])
        if d != 0.0:
            return (f"C16:load-restores:{key}", f"{what} after load differs from the value at save (max abs diff {d})",
                    dict(info, at_save=str(at_save[key])[:400], after_load=str(after_load[key])[:400]))
    if "eps" in at_save and at_save.get("eps") != after_load.get("eps"):
        return ("C16:eps-discontinuous", f"epsilon at save {at_save['eps']} != epsilon after load {after_load.get('eps')}", info)
    live_bad = tdiff(list(at_save["live"]), list(after_load["live"])) != 0.0
    # continue both
    for o in ops[cut:]:
        ra, rb = a.do(o), b.do(o)
        if isinstance(ra, str) or isinstance(rb, str):
            if ra != rb and not live_bad:
                return (f"C16:resume-trajectory:{sig}", f"op {o!r}: uninterrupted → {ra if isinstance(ra, str) else 'ok'}, resumed → {rb if isinstance(rb, str) else 'ok'}", info)
            break
    fa, fb = snapshot(a, eps), snapshot(b, eps)
    dh = tdiff(fa["history"], fb["history"])
    dp = tdiff(fa["module"], fb["module"])
    do_ = tdiff(fa["optimizer"], fb["optimizer"])
    dl = tdiff(list(fa["live"]), list(fb["live"]))
    de = 0.0 if fa.get("eps") == fb.get("eps") else float("inf")
    if max(dh, dp, do_, dl, de) == 0.0:
        return None
    info.update(history_uninterrupted=fa["history"], history_resumed=fb["history"], eps_uninterrupted=fa.get("eps"), eps_resumed=fb.get("eps"),
                param_diff=dp, optimizer_state_diff=do_, live_uninterrupted=fa["live"], live_resumed=fb["live"])
    if carry_live:
        return (f"C16:resume-trajectory:live-values-carried:{sig}", f"fresh optimizer given the live (sigma, C) = {at_save['live']} of the save point before load_checkpoint, schedulers {cfg['ns'][0]}/{cfg['cs'][0]}: "
                f"live values after load {after_load['live']}; the resumed run differs from the uninterrupted one: history Δ{dh}, parameters Δ{dp}, live Δ{dl}, epsilon {'equal' if de == 0 else 'differs'}", info)
    if live_bad or dl != 0.0:
        if cfg.get("clipping") == "adaptive":
            return ("C16:resume-adaclip-live-clip",
                    f"adaptive clipping: the live max_grad_norm {at_save['live'][1]} at save is not persisted; the resumed run restarts from {after_load['live'][1]} (final parameters differ by {dp})", info)
        kinds = sorted({cfg["ns"][0], cfg["cs"][0]} - {"none"})
        if kinds:
            return ("C16:resume-scheduler-live-value",
                    f"live (sigma, C) at save {at_save['live']} vs after save → fresh objects → load {after_load['live']}: schedulers {kinds} continue from the fresh optimizer's values "
                    f"(final history uninterrupted {fa['history'][-2:]} vs resumed {fb['history'][-2:]}, parameters differ by {dp})", info)
    return (f"C16:resume-trajectory:{sig}", f"resumed run differs from the uninterrupted run: history Δ{dh}, parameters Δ{dp}, optimizer state Δ{do_}, epsilon {'equal' if de == 0 else 'differs'}", info)


def reject_oracle(cfg):
    """a state of another mechanism, or an empty one, must be rejected"""
    a = R.RealEng(cfg)
    a.do("log 0")
    a.do("save")
    for m in MECHS:
        if m != cfg["mech"]:
            r = a.do("loadinto " + m)
            if r != "err:mechanism-mismatch":
                return (f"C16:mismatch-accepted:{cfg['mech']}->{m}", f"a {cfg['mech']} accountant state was loaded into a {m} engine: {str(r)[:120]}", {})
    for k in ("empty", "none", "nohist", "nomech"):
        r = a.do("loadbad " + k)
        if not (isinstance(r, str) and r.startswith("err:") and r != "err:mechanism-mismatch"):
            return (f"C16:empty-accepted:{k}", f"an accountant state_dict that is {k} was accepted by load_checkpoint: {str(r)[:120]}", {})
    return None


def alias_oracle(cfg):
    """state_dict() must not alias the live history"""
    a = R.RealEng(cfg)
    a.do("log 0"); a.do("log 1")
    before = a.do("sd")
    a.do("log 2"); a.do("log 3")
    after = a.do("sdhist")
    if before != after:
        return ("C16:state-dict-aliases-history", f"accountant.state_dict()['history'] changed from {before} to {after} when training continued", {})
    return None


def regen_oracle(cfg):
    """save → fresh → load → train → save(checkpoint_dict = the dict load returned) → fresh → load:
    the second-generation checkpoint must restore the state at the SECOND save (ledger, parameters)"""
    a = R.RealEng(cfg)
    for o in ("log 0", "log 1", "save", "load", "log 2", "log 3", "log 4"):
        r = a.do(o)
        if isinstance(r, str) and r.startswith("err"):
            return None
    at_save = snapshot(a, False)
    r = a.do("saveret")
    if isinstance(r, str) and r.startswith("err"):
        return ("C16:regen:save-raises", f"save_checkpoint(checkpoint_dict=<dict returned by load_checkpoint>) raised {r}", {})
    r = a.do("load")
    if isinstance(r, str):
        return ("C16:regen:load-raises", f"loading the second-generation checkpoint raised {r}", {})
    after = snapshot(a, False)
    for key, what in (("history", "accountant history"), ("module", "module parameters"), ("optimizer", "inner optimizer state_dict")):
        d = tdiff(at_save[key], after[key])
        if d != 0.0:
            return (f"C16:regen:{key}", f"second-generation checkpoint (save_checkpoint(checkpoint_dict=<dict returned by load_checkpoint>)): {what} after load "
                    f"differs from the value at the save (max abs diff {d}): at save {str(at_save[key])[:200]}, after load {str(after[key])[:200]}", {})
    return None


def case_oracle(case):
    """oracle used when a correspondence case disagrees: evaluate the property around that case"""
    cfg = dict(case["cfg"])
    for orc in (reject_oracle, alias_oracle, regen_oracle):
        res = orc(cfg)
        if res:
            return res
    plain = [o for o in case["ops"] if o.split()[0] in ("log", "skip", "ns", "cs")]
    cuts = [i for i in range(len(plain) + 1) if i == 0 or not plain[i - 1].startswith("skip")]
    for kind in ("token", "mlp"):
        for cut in cuts:
            res = resume_oracle({"cfg": dict(cfg, kind=kind), "ops": plain, "cut": cut}, eps=False)
            if res and res[0] != "C16:resume-scheduler-live-value":
                return (res[0], res[1], dict(res[2], scenario={"cfg": dict(cfg, kind=kind), "ops": plain, "cut": cut}))
            res = resume_oracle({"cfg": dict(cfg, kind=kind), "ops": plain, "cut": cut}, eps=False, carry_live=True)
            if res:
                return (res[0], res[1], dict(res[2], scenario={"cfg": dict(cfg, kind=kind), "ops": plain, "cut": cut, "carry_live": True}))
    return None


def lambda_pickle_oracle():
    """save_checkpoint with a Lambda scheduler built on an (unpicklable) lambda"""
    from opacus import schedulers as S
    cfg = {"mech": "rdp", "opt": "sgd", "sigma0": 1.0, "c0": 1.0, "nb": 10, "ns": ("none",), "cs": ("none",), "kind": "token"}
    a = R.RealEng(cfg)
    a.nsched = S.LambdaNoise(a.opt, noise_lambda=lambda e: 1.0 / (1 + e))
    try:
        a.pe.save_checkpoint(path=io.BytesIO(), module=a.model, optimizer=a.opt, noise_scheduler=a.nsched)
    except Exception as e:  # noqa
        return ("C16:save-lambda-scheduler-unpicklable",
                f"save_checkpoint(noise_scheduler=LambdaNoise(noise_lambda=<lambda>)) raises {type(e).__name__}: the scheduler's state_dict contains the function object", {"error": str(e)[:200]})
    return None


# --------------------------------------------------------------------------- run
WITNESS = {"cfg": {"mech": "rdp", "opt": "sgdm", "sigma0": 1.0, "c0": 1.0, "nb": 10, "ns": ("exp", 2.0), "cs": ("none",), "kind": "token", "seed": 0},
           "ops": ["log 0", "ns", "log 1", "ns", "log 2", "ns", "log 3"], "cut": 6}


def detect_variant(ctx):
    """replay of Lean `exp_scheduler_resume_counterexample` on the real code"""
    a = R.RealEng(WITNESS["cfg"])
    for o in WITNESS["ops"][:6]:
        a.do(o)
    a.do("save")
    a.do("load")
    r = a.do("log 3")
    s = r["H"][-1][0]
    return ("repaired" if s == 8.0 else "asCoded"), s


def regenerate(ctx):
    from .. import regen
    from . import c16_trans as T
    regen.regenerate(ctx, T, "Opacus.Generated.CheckpointKeys", "accountant state_dict / load_state_dict, save_checkpoint / load_checkpoint keys")


def run(ctx):
    regenerate(ctx)
    torch.set_num_threads(2)
    with rig.default_dtype(torch.float64):
        variant, s = detect_variant(ctx)
        ctx.variant["resume"] = variant
        ctx.log(f"resume variant implemented by this tree: {variant} (witness step accounted at sigma={s}; uninterrupted 8.0)")
        # 1. correspondence
        n = ctx.n(140, 2500)
        cases = [gen_case(ctx.rng, ctx.n(14, 30)) for _ in range(n)]
        if ctx.thorough:   # exhaustive small scope: every op sequence of length ≤ 4 around one save/load
            for mech in MECHS:
                for L in range(1, 5):
                    for pre in itertools.product(["log", "skip", "ns", "cs"], repeat=L):
                        if pre[-1] == "skip":
                            continue
                        ops, b = [], 0
                        for o in pre:
                            if o in ("log", "skip"):
                                ops.append(f"{o} {b}"); b += 1
                            else:
                                ops.append(o)
                        cfg = {"mech": mech, "opt": "adam", "sigma0": 1.1, "c0": 1.5, "nb": 10,
                               "ns": ("none",) if mech == "gdp" else ("step", 0.5, 2), "cs": ("exp", 0.9), "kind": "token", "seed": 1}
                        cases.append({"cfg": cfg, "ops": ops + ["save", "load", f"log {b}", "cs", "ns", f"log {b + 1}"]})
            ctx.extra["exhaustive_small_scope"] = "all op prefixes of length ≤ 4 over {log, skip, ns, cs} (not ending inside a virtual step) × 3 accountants, then save/load/continue"
        run_cases(ctx, cases, variant)
        # 2. replay of the Lean witnesses on the real code + known findings
        res = resume_oracle(dict(WITNESS, cfg=dict(WITNESS["cfg"])), eps=True)
        if res:
            ctx.property_failure(res[0], res[1], dict(res[2], failing_input=WITNESS))
        elif variant == "asCoded":
            ctx.notes.append("variant detection says asCoded but the oracle did not reproduce D8 on the witness")
        res = lambda_pickle_oracle()
        if res:
            ctx.property_failure(res[0], res[1], dict(res[2], failing_input={"oracle": "lambda_pickle"}))
        # 3. failing-input search on real training
        nprv = 0
        for i in range(ctx.n(45, 600)):
            scn = cut_case(ctx.rng, kind="mlp" if i % 4 else "token", adaptive=(i % 15 == 14))
            use_eps = scn["cfg"]["mech"] != "prv" or nprv < ctx.n(3, 40)
            nprv += scn["cfg"]["mech"] == "prv" and use_eps
            res = resume_oracle(scn, eps=use_eps)
            ctx.count("search:resume:" + scn["cfg"]["mech"] + ":" + scn["cfg"]["opt"] + (":adaptive" if scn["cfg"].get("clipping") else ""))
            if res:
                ctx.property_failure(res[0], res[1], dict(res[2], failing_input=scn))
            if not scn["cfg"].get("clipping") and {scn["cfg"]["ns"][0], scn["cfg"]["cs"][0]} != {"none"}:
                res = resume_oracle(scn, eps=False, carry_live=True)
                ctx.count("search:resume:live-values-carried")
                if res:
                    ctx.property_failure(res[0], res[1], dict(res[2], failing_input=dict(scn, carry_live=True)))
        # every run: Lambda schedules given as stateful callable OBJECTS (saved with the scheduler's state_dict), stepped before
        # and after the cut, resumed under the carried-live-values protocol
        for i in range(ctx.n(4, 40)):
            scn = cut_case(ctx.rng, kind="token")
            which = "ns" if (i % 2 == 0 and scn["cfg"]["mech"] != "gdp") else "cs"
            scn["cfg"][which] = ("lam", "obj")
            scn["cfg"].pop("clipping", None)
            b0 = sum(o.split()[0] in ("log", "skip") for o in scn["ops"])
            scn["ops"] = [which, f"log {b0}", which] + scn["ops"] + [which, f"log {b0 + 1}"]
            scn["cut"] = 3 + scn["cut"]
            ctx.count("search:resume:stateful-schedule-object")
            res = resume_oracle(scn, eps=False, carry_live=True)
            if res:
                ctx.property_failure(res[0], res[1], dict(res[2], failing_input=dict(scn, carry_live=True)))
        for mech in MECHS:
            for orc in (reject_oracle, alias_oracle, regen_oracle):
                cfg = {"mech": mech, "opt": "sgdm", "sigma0": 1.0, "c0": 1.0, "nb": 10, "ns": ("none",), "cs": ("none",), "kind": "token", "seed": 3}
                res = orc(cfg)
                ctx.count("search:" + orc.__name__)
                if res:
                    ctx.property_failure(res[0], res[1], dict(res[2], failing_input={"oracle": orc.__name__, "cfg": cfg}))


def replay(ctx, rp):
    torch.set_num_threads(2)
    with rig.default_dtype(torch.float64):
        fi = rp.get("failing_input") or rp.get("case")
        res = None
        if "oracle" in fi:
            res = {"lambda_pickle": lambda: lambda_pickle_oracle(), "reject_oracle": lambda: reject_oracle(fi["cfg"]),
                   "alias_oracle": lambda: alias_oracle(fi["cfg"]), "regen_oracle": lambda: regen_oracle(fi["cfg"])}[fi["oracle"]]()
        elif "scenario" in rp:
            res = resume_oracle(rp["scenario"], eps=False, carry_live=bool(rp["scenario"].get("carry_live")))
        elif "cut" in fi:
            res = resume_oracle(fi, eps=not fi.get("carry_live"), carry_live=bool(fi.get("carry_live")))
        else:
            res = case_oracle(fi)
        if res:
            print("REPRODUCED:", res[0], res[1])
            ctx.violations.append(res[0])
        else:
            print("not reproduced on this tree")
