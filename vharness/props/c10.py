"""C10 — splitting logical batches with BatchMemoryManager changes nothing but memory.

Obligations (Lean, unbounded): `chunks_partition`, `chunks_bounded` (`chunk_size_le_max`),
`signals_shape`, `splitSizes_sum` for the `numpy.array_split` scheme of `BatchSplittingSampler`;
`bmm_refines_unsplit_one` / `bmm_refines_unsplit`: for every sequence of logical batches and every
max physical size ≥ 1, the protocol machine run through the split sampler ends in the same state
(same releases, one noise block and one accountant record per logical batch, same history) as the
unsplit run – standard and ghost optimizers, empty batches included.

Correspondence: (a) chunk contents and skip signals of the model vs the real
`BatchSplittingSampler` for random (n, max); (b) the protocol machine vs a real training loop through
the real `BatchMemoryManager` + `DataLoader` + `PrivacyEngine.make_private` objects, state compared
after every fetch / backward / step / zero_grad.

Oracle (real vs real): the run through the memory manager and the run without it, on the same logical
batches and the same (call-numbered) noise, release the same token multisets with the same noise ids
and leave the same accountant history; physical batches ≤ max and partition the logical batch.
"""
from __future__ import annotations

import torch

from .. import rig
from . import engine_check as EC
from . import engine_rig as E

PID = "C10"
MODULES = ["OpacusLean.Props.C10"]
THEOREMS = [
    "Opacus.C10.splitSizes_sum",
    "Opacus.C10.chunk_size_le_max",
    "Opacus.C10.chunks_partition",
    "Opacus.C10.chunks_bounded",
    "Opacus.C10.signals_shape",
    "Opacus.C10.logical_any",
    "Opacus.C10.bmm_refines_unsplit_one",
    "Opacus.C10.bmm_refines_unsplit",
    "Opacus.C10.optZeroGrad_idempotent",
    "Opacus.C10.modZeroGrad_idempotent",
    "Opacus.C10.generated_iter_eq_model",
    "Opacus.C10.generated_iter_partition_bounded",
]
RULE = (
    "sampler cases = (n, max_physical) with n in 0..200; engine cases = (optimizer kind, accountant, logical batch sizes incl. 0, max_physical) "
    "from VERIF_SEED; non-trivial iff some logical batch is split into ≥ 2 physical batches; distinct by the whole tuple "
    "(thorough: every (n, max) with n ≤ 64, max ≤ 16)"
)
TRUSTED = [
    "the translator vharness/props/c10_trans.py (Python `ast` -> what BatchSplittingSampler.__iter__ yields for one logical batch, with the skip signal sent before each physical batch; subset in its docstring, anything else is reported as a broken tie) is trusted to render the generator faithfully; numpy.array_split and math.ceil(a / b) on ints below 2^53 are rendered as the model's takeChunks/splitSizes and ceilDiv (numpy is outside the repository; that rendering is what the sampler correspondence compares on every run)",
    "token setting: clip factors are exactly 1 and sums are integer vectors, so split and unsplit runs are compared exactly (float summation order is C03's tolerance question)",
    "DataLoader with num_workers=0 advances the batch sampler lazily (one signal right before each physical batch); prefetching only queues signals earlier, FIFO order is what the machine models",
]
PARTIAL = ["GDP accountant: refinement proved for run-length-encoding accountants (rdp/prv); with GDP a refused step leaves different flags in the split and unsplit runs"]


class _RecOpt:
    def __init__(self):
        self.signals = []

    def signal_skip_step(self, do_skip=True):
        self.signals.append(bool(do_skip))


def real_split(n, m, idx=None):
    from opacus.utils.batch_memory_manager import BatchSplittingSampler
    opt = _RecOpt()
    s = BatchSplittingSampler(sampler=[list(range(n)) if idx is None else list(idx)], max_batch_size=m, optimizer=opt)
    chunks = [list(map(int, c)) for c in s]
    return chunks, opt.signals


def sampler_cases(ctx):
    pairs = set()
    if ctx.thorough:
        pairs |= {(n, m) for n in range(0, 65) for m in range(1, 17)}
        ctx.extra["exhaustive_small_scope"] = "every (n, max) with n ≤ 64, max ≤ 16"
    while len(pairs) < ctx.n(160, 3000):
        n = ctx.rng.choice([0, 1, 2, 3, 5, 8, 13, 64, 100]) if ctx.rng.random() < 0.3 else ctx.rng.randint(0, 200)
        m = ctx.rng.choice([1, 2, 3, n or 1, max(n - 1, 1), n + 1, 2 * n + 1]) if ctx.rng.random() < 0.4 else ctx.rng.randint(1, 70)
        pairs.add((n, m))
    pairs = sorted(pairs)
    replies = ctx.lean_driver("Engine", [f"split {n} {m}" for n, m in pairs])
    for (n, m), rep in zip(pairs, replies):
        chunks, signals = real_split(n, m)
        impl = " ".join(f"{len(c)}:{int(b)}" for c, b in zip(chunks, signals)) + " | " + " ".join(",".join(map(str, c)) for c in chunks)
        k = len(chunks)
        ctx.case(("split", n, m), nontrivial=k >= 2, sample={"n": n, "max": m, "chunks": [len(c) for c in chunks]}, kind="sampler:k=" + ("1" if k == 1 else "2" if k == 2 else "3+"))
        if impl.strip() != rep.strip() or len(signals) != len(chunks):
            ctx.mismatch("batch-splitting-sampler", {"n": n, "max": m}, impl, rep, oracle=split_oracle)
        else:
            ctx.validated()
        res = split_oracle({"n": n, "max": m})
        if res:
            ctx.property_failure(res[0], res[1], dict(res[2], failing_input={"n": n, "max": m}))
        # the same split applied to arbitrary index content (shuffled, with repeats: a with-replacement sampler):
        # the model's positions select from the logical batch
        if n:
            idx = [ctx.rng.randrange(max(1, n // 2)) for _ in range(n)] if ctx.rng.random() < 0.5 else ctx.rng.sample(range(3 * n), n)
            pos = [[int(t) for t in c.split(",") if t != ""] for c in rep.split("|")[1].split()] if "|" in rep else []
            want = [[idx[i] for i in c] for c in pos]
            got, _ = real_split(n, m, idx)
            ctx.count("sampler:arbitrary-index-content")
            if [c for c in got if c] != [c for c in want if c]:
                res = split_oracle({"n": n, "max": m, "idx": idx})
                if res:
                    ctx.property_failure(res[0], res[1], dict(res[2], failing_input={"n": n, "max": m, "idx": idx}))
                else:
                    ctx.mismatch("batch-splitting-sampler", {"n": n, "max": m, "idx": idx}, got, want, oracle=split_oracle)
            else:
                ctx.validated()


def split_oracle(case):
    n, m = case["n"], case["max"]
    chunks, signals = real_split(n, m, case.get("idx"))
    flat = [i for c in chunks for i in c]
    if case.get("idx") is not None:
        if sorted(flat) != sorted(case["idx"]):
            return ("C10:chunks-do-not-partition", f"logical batch {case['idx']}, max={m}: physical batches {chunks} are not a partition of it (as a multiset)", {})
    elif flat != list(range(n)):
        return ("C10:chunks-do-not-partition", f"n={n}, max={m}: physical batches {chunks} do not partition the logical batch in order", {})
    if any(len(c) > m for c in chunks):
        return ("C10:chunk-exceeds-max", f"n={n}, max={m}: physical batch sizes {[len(c) for c in chunks]}", {})
    if signals != [True] * (len(chunks) - 1) + [False]:
        return ("C10:skip-signals", f"n={n}, max={m}: skip signals {signals} for {len(chunks)} physical batches", {})
    return None


def model_ops_for(sizes, m):
    """ops the training loop performs, derived from the (already validated) real split"""
    ops = []
    for n in sizes:
        chunks, signals = real_split(n, m)
        for c, b in zip(chunks, signals):
            ops += [("sig", int(b)), ("fwdbwd", len(c)), ("step",), ("ozg",)]
    return ops


def bmm_oracle(case):
    cfg, sizes, m, acct = tuple(case["cfg"]), case["sizes"], case["max"], case.get("acct", "rdp")
    kw = {"batches": case.get("batches"), "poisson": tuple(case["poisson"]) if case.get("poisson") else None, "zg2": bool(case.get("zg2"))}
    with rig.default_dtype(torch.float64):
        a, phys = E.run_real_bmm(cfg, sizes, m, acct=acct, use_bmm=True, **kw)
        b, logical = E.run_real_bmm(cfg, sizes, m, acct=acct, use_bmm=False, **kw)
    # the physical batches of each logical batch partition it (multiset; consumed greedily in order)
    k = 0
    for lb in logical:
        got = list(phys[k]) if k < len(phys) else []
        k += 1
        while len(got) < len(lb) and k < len(phys):
            got += phys[k]
            k += 1
        if sorted(got) != sorted(lb):
            return ("C10:chunks-do-not-partition", f"logical batch {lb} (max_physical {m}) reached the model as physical batches covering {got}", {"physical": phys, "logical": logical})
    if k != len(phys):
        return ("C10:chunks-do-not-partition", f"{len(phys) - k} physical batches beyond the logical ones", {"physical": phys, "logical": logical})
    ra, rb = EC.released_tokens(a), EC.released_tokens(b)
    ha, hb = EC.parse_line(a[-1])["hist"], EC.parse_line(b[-1])["hist"]
    na = [e for l in a for e in EC.parse_line(l)["events"] if e[0] in "NA"]
    nb = [e for l in b for e in EC.parse_line(l)["events"] if e[0] in "NA"]
    if any(len(p) > m for p in phys):
        return ("C10:chunk-exceeds-max", f"physical batch sizes {[len(p) for p in phys]} with max {m}", {})
    if ra != rb or ha != hb or na != nb:
        return (f"C10:bmm-changes-training:{cfg[0]}", f"logical batch sizes {sizes}, max_physical {m}: with BatchMemoryManager releases {ra} noise/accounting {na} history {ha}; without: {rb} {nb} {hb}", {"with_bmm": a[-3:], "without": b[-3:]})
    return None


def engine_cases(ctx):
    cfgs = [(("std", False, False, 1.5, 2.0), "rdp"), (("ghost", False, False, 1.5, 2.0), "rdp"), (("std", True, False, 1.5, 2.0), "prv"), (("ghost", True, False, 0.0, 2.0), "rdp")]
    cases = []
    for i in range(ctx.n(36, 500)):
        cfg, acct = cfgs[i % len(cfgs)]
        sizes = [ctx.rng.choice([0, 1, 2, 3, 4, 5, 7, 9]) for _ in range(ctx.rng.randint(1, 4))]
        m = ctx.rng.choice([1, 2, 3, 4, 5, 100])
        cases.append((cfg, acct, sizes, m))
    lines, spans = [], []
    for cfg, acct, sizes, m in cases:
        ml = E.model_lines(cfg, model_ops_for(sizes, m))
        spans.append((len(lines), len(lines) + len(ml)))
        lines += ml
    replies = ctx.lean_driver("Engine", lines)
    for (cfg, acct, sizes, m), (a, b) in zip(cases, spans):
        model = [E.canon_model_line(x) for x in replies[a:b]]
        real, phys = E.run_real_bmm(cfg, sizes, m, acct=acct)
        split = any(n > m for n in sizes)
        case = {"cfg": cfg, "acct": acct, "sizes": sizes, "max": m}
        ctx.case(("bmm", cfg, acct, tuple(sizes), m), nontrivial=split, sample=case, kind=f"engine:{cfg[0]}/{acct}")
        res = bmm_oracle(case)
        if res:
            ctx.property_failure(res[0], res[1], dict(res[2], failing_input=case))
        if real != model:
            diff = next((i for i, (r, mm) in enumerate(zip(real, model)) if r != mm), min(len(real), len(model)))
            ctx.mismatch("bmm-engine", case, real[max(0, diff - 1): diff + 1], model[max(0, diff - 1): diff + 1], oracle=bmm_oracle, note=f"first differing line {diff}")
        else:
            ctx.validated()


def loader_options_oracle(seed):
    """wrap_data_loader hands every option of the original loader on to the splitting loader: same dataset object, and the
    same num_workers / collate_fn / pin_memory / timeout / worker_init_fn / generator / prefetch_factor / persistent_workers"""
    from opacus.utils.batch_memory_manager import wrap_data_loader
    g = torch.Generator().manual_seed(seed)
    ds = torch.utils.data.TensorDataset(torch.zeros(12, 2))
    coll = lambda b: torch.utils.data.default_collate(b)   # noqa: E731
    init = lambda i: None                                   # noqa: E731
    for nw in (0, 2):
        kw = dict(num_workers=nw, collate_fn=coll, pin_memory=False, timeout=3 if nw else 0, worker_init_fn=init, generator=g)
        if nw:
            kw.update(prefetch_factor=3, persistent_workers=True)
        dl = torch.utils.data.DataLoader(ds, batch_size=4, **kw)
        w = wrap_data_loader(data_loader=dl, max_batch_size=2, optimizer=_RecOpt())
        for name in ("dataset", "num_workers", "collate_fn", "pin_memory", "timeout", "worker_init_fn", "generator", "prefetch_factor", "persistent_workers"):
            a, b = getattr(dl, name), getattr(w, name)
            if (a is not b) and a != b:
                return ("C10:loader-option-dropped:" + name, f"wrap_data_loader: the splitting loader has {name}={b!r}, the original loader {a!r} (num_workers={nw})", {"failing_input": {"oracle": "loader-options", "seed": seed}})
    return None


def sampler_kind_cases(ctx):
    """real vs real only (the protocol machine numbers tokens consecutively): logical batches with shuffled and
    repeated indices, and the real Poisson sampler with a limit around its expected batch size"""
    cfgs = [(("std", False, False, 1.5, 2.0), "rdp"), (("ghost", False, False, 1.5, 2.0), "rdp")]
    for i in range(ctx.n(16, 200)):
        cfg, acct = cfgs[i % 2]
        if i % 2 == 0:
            nb = ctx.rng.randint(1, 3)
            batches = []
            for _ in range(nb):
                n = ctx.rng.choice([0, 2, 3, 5, 7, 9])
                batches.append([ctx.rng.randrange(6) for _ in range(n)] if ctx.rng.random() < 0.6 else ctx.rng.sample(range(12), n))
            m = ctx.rng.choice([1, 2, 3, 4])
            case = {"cfg": cfg, "acct": acct, "sizes": [len(b) for b in batches], "max": m, "batches": batches, "zg2": ctx.rng.random() < 0.5}
            kind, split = "repeated-or-shuffled-indices" + ("/zero_grad-twice" if case["zg2"] else ""), any(len(b) > m for b in batches)
        else:
            n = ctx.rng.choice([12, 20, 30])
            ebs = ctx.rng.choice([3, 4, 6])
            m = ebs + ctx.rng.choice([-1, 0, 0, 1, 2])
            case = {"cfg": cfg, "acct": acct, "sizes": [], "max": m, "poisson": [n, ebs / n, ctx.rng.randrange(1 << 30), 3]}
            kind, split = "poisson-sampler", True
        ctx.case(("bmm-sampler", cfg, acct, str(case.get("batches")), str(case.get("poisson")), m), nontrivial=split, sample=case, kind=f"engine:{cfg[0]}/{kind}")
        ctx.count("search:" + kind)
        res = bmm_oracle(case)
        if res:
            ctx.property_failure(res[0], res[1], dict(res[2], failing_input=case))


def regenerate(ctx):
    from .. import regen
    from . import c10_trans as T
    regen.regenerate(ctx, T, "Opacus.Generated.BatchSplit", "BatchSplittingSampler.__iter__ (utils/batch_memory_manager.py)")


def run(ctx):
    regenerate(ctx)
    with rig.default_dtype(torch.float64):
        sampler_cases(ctx)
        engine_cases(ctx)
        sampler_kind_cases(ctx)
        res = loader_options_oracle(ctx.rng.randrange(1 << 30))
        ctx.count("search:loader-options")
        if res:
            ctx.property_failure(res[0], res[1], res[2])


def replay(ctx, rp):
    c = rp.get("failing_input") or rp.get("case")
    res = loader_options_oracle(c["seed"]) if c.get("oracle") == "loader-options" else (bmm_oracle(c) if "sizes" in c else split_oracle(c))
    if res:
        print("REPRODUCED:", res[0], res[1])
        ctx.violations.append(res[0])
    else:
        print("not reproduced on this tree")
