"""Translator tie for C10: `BatchSplittingSampler.__iter__` (opacus/utils/batch_memory_manager.py) →
lean/OpacusLean/Generated/BatchSplit.lean, as what ONE logical batch of the wrapped sampler turns into: the list of
`(physical batch, skip signal sent right before it)` pairs, in order.

Subset: the generator is one `for <batch> in self.sampler:` loop whose body carries nothing from one logical batch to the next
(every local it reads is assigned earlier in the same iteration).  Statements of the body:
  * `self.optimizer.signal_skip_step(do_skip=<True|False>)` (keyword, positional, or the default `True`) – remembered;
  * `yield e` – emits `(e, <the remembered signal>)`; a `yield` with no signal since the last one, or a signal that is
    never followed by a `yield`, is outside the subset (the pairing is what the property is about);
  * `name = e` – a `let`;  `for x in NAME[:-1]: signal; yield x` – `NAME.dropLast.map (·, signal)`;
  * `if <batch is empty>: …; continue` – the two arms of an `if batch.length == 0` (tests `len(b) == 0`, `not b`,
    `len(b) < 1`, `not len(b)`).
Expressions: the batch variable, `[]`, `np.array_split(b, k)` → `arraySplit b k` (numpy's scheme is the model's
`takeChunks b (splitSizes b.length k)`; numpy itself is outside the repository, its behaviour is compared by the
correspondence on every run), `math.ceil(len(b) / self.max_batch_size)` / `-(-len(b) // m)` / `(len(b) + m - 1) // m` → `ceilDiv`,
`[s.tolist() for s in X]` / `[list(s) for s in X]` / `list(X)` → `X` (a change of container), `X[-1]` → `X.getLast?` (Python raises
on an empty list: the generated function is `Option`-valued, `none` = raise), local names.
`Props/C10.lean` proves the generated function equal to the model's `splitBatch` for every batch and every max size ≥ 1
(`generated_iter_eq_model`), so the partition / bound / signal-shape / refinement theorems are about what the source says now.
"""
from __future__ import annotations

import ast
from pathlib import Path

from .. import core
from ..pytrans import Untranslatable, find_function

GEN_FILE = core.LEAN / "OpacusLean" / "Generated" / "BatchSplit.lean"
REL = "opacus/utils/batch_memory_manager.py"
SIG = "self.optimizer.signal_skip_step"


class T:
    def __init__(self, batch):
        self.batch = batch
        self.locals = {}          # python local -> lean identifier
        self.n = 0

    # ---- expressions -------------------------------------------------------------------------------------------
    def is_len_batch(self, e):
        return isinstance(e, ast.Call) and ast.unparse(e.func) == "len" and len(e.args) == 1 and ast.unparse(e.args[0]) == self.batch

    def nat(self, e):
        """a natural-number expression"""
        if self.is_len_batch(e):
            return "batch.length"
        if ast.unparse(e) == "self.max_batch_size":
            return "maxSize"
        if isinstance(e, ast.Name) and e.id in self.locals and self.locals[e.id][1] == "nat":
            return self.locals[e.id][0]
        if isinstance(e, ast.Call) and ast.unparse(e.func) in ("math.ceil", "int") and len(e.args) == 1:
            a = e.args[0]
            if ast.unparse(e.func) == "math.ceil" and isinstance(a, ast.BinOp) and isinstance(a.op, ast.Div):
                # true division of two non-negative ints below 2^53 then ceil = ceiling division (no integer is hit by rounding)
                return f"(ceilDiv {self.nat(a.left)} {self.nat(a.right)})"
            if ast.unparse(e.func) == "int":
                return self.nat(a)
        if isinstance(e, ast.UnaryOp) and isinstance(e.op, ast.USub) and isinstance(e.operand, ast.BinOp) and isinstance(e.operand.op, ast.FloorDiv) \
                and isinstance(e.operand.left, ast.UnaryOp) and isinstance(e.operand.left.op, ast.USub):
            return f"(ceilDiv {self.nat(e.operand.left.operand)} {self.nat(e.operand.right)})"      # -(-a // b)
        if isinstance(e, ast.BinOp) and isinstance(e.op, ast.FloorDiv):
            return f"({self.nat(e.left)} / {self.nat(e.right)})"
        if isinstance(e, ast.BinOp) and isinstance(e.op, ast.Add):
            return f"({self.nat(e.left)} + {self.nat(e.right)})"
        if isinstance(e, ast.BinOp) and isinstance(e.op, ast.Sub):
            return f"({self.nat(e.left)} - {self.nat(e.right)})"     # truncated: only meaningful when left >= right (as in a + m - 1)
        if isinstance(e, ast.Constant) and isinstance(e.value, int) and not isinstance(e.value, bool) and e.value >= 0:
            return str(e.value)
        raise Untranslatable("integer expression " + ast.unparse(e)[:80])

    def chunks(self, e):
        """an expression denoting a list of index lists"""
        if isinstance(e, ast.Name) and e.id in self.locals and self.locals[e.id][1] == "chunks":
            return self.locals[e.id][0]
        if isinstance(e, ast.Call) and ast.unparse(e.func) in ("np.array_split", "numpy.array_split") and len(e.args) == 2 and not e.keywords \
                and ast.unparse(e.args[0]) == self.batch:
            return f"(arraySplit batch {self.nat(e.args[1])})"
        if isinstance(e, ast.ListComp) and len(e.generators) == 1 and not e.generators[0].ifs and isinstance(e.generators[0].target, ast.Name):
            v = e.generators[0].target.id
            if ast.unparse(e.elt) in (f"{v}.tolist()", f"list({v})", v):
                return self.chunks(e.generators[0].iter)
        if isinstance(e, ast.Call) and ast.unparse(e.func) == "list" and len(e.args) == 1:
            return self.chunks(e.args[0])
        raise Untranslatable("chunk-list expression " + ast.unparse(e)[:80])

    def one(self, e):
        """an expression denoting ONE physical batch, as `Option (List α)` (none = Python raises)"""
        if isinstance(e, ast.List) and not e.elts:
            return "(some [])"
        if isinstance(e, ast.Name) and e.id == self.batch:
            return "(some batch)"
        if isinstance(e, ast.Name) and e.id in self.locals and self.locals[e.id][1] == "one":
            return self.locals[e.id][0]
        if isinstance(e, ast.Subscript) and ast.unparse(e.slice) == "-1":
            return f"({self.chunks(e.value)}).getLast?"
        if isinstance(e, ast.Call) and ast.unparse(e.func) == "list" and len(e.args) == 1:
            return self.one(e.args[0])
        if isinstance(e, ast.Call) and isinstance(e.func, ast.Attribute) and e.func.attr == "tolist" and not e.args:
            return self.one(e.func.value)
        raise Untranslatable("physical-batch expression " + ast.unparse(e)[:80])

    def all_but_last(self, e):
        if isinstance(e, ast.Subscript) and ast.unparse(e.slice) == ":-1":
            return f"({self.chunks(e.value)}).dropLast"
        raise Untranslatable("loop range " + ast.unparse(e)[:80])

    # ---- statements --------------------------------------------------------------------------------------------
    @staticmethod
    def signal(s):
        """the Bool of a `signal_skip_step` call statement, or None"""
        if isinstance(s, ast.Expr) and isinstance(s.value, ast.Call) and ast.unparse(s.value.func) == SIG:
            c = s.value
            v = c.args[0] if c.args else next((k.value for k in c.keywords if k.arg == "do_skip"), None)
            if len(c.args) + len(c.keywords) > 1:
                raise Untranslatable("signal_skip_step arguments")
            if v is None:
                return "true"
            if isinstance(v, ast.Constant) and isinstance(v.value, bool):
                return "true" if v.value else "false"
            raise Untranslatable("signal_skip_step argument " + ast.unparse(v)[:60])
        return None

    def empty_test(self, t):
        u = ast.unparse(t)
        b = self.batch
        return u in (f"len({b}) == 0", f"not {b}", f"len({b}) < 1", f"not len({b})", f"0 == len({b})", f"len({b}) <= 0")

    def block(self, stmts, pending=None):
        """→ (lets, emits): `lets` = list of (name, expr) bindings in order, `emits` = list of `Option (List (List α × Bool))` terms"""
        emits, lets = [], []
        i = 0
        while i < len(stmts):
            s = stmts[i]
            i += 1
            if isinstance(s, ast.Expr) and isinstance(s.value, ast.Constant):
                continue
            sg = self.signal(s)
            if sg is not None:
                if pending is not None:
                    raise Untranslatable("two skip signals without a physical batch between them")
                pending = sg
                continue
            if isinstance(s, ast.Expr) and isinstance(s.value, ast.Yield):
                if pending is None:
                    raise Untranslatable("a physical batch is yielded without a skip signal before it")
                emits.append(f"(({self.one(s.value.value)}).map fun c => [(c, {pending})])")
                pending = None
                continue
            if isinstance(s, ast.Assign) and len(s.targets) == 1 and isinstance(s.targets[0], ast.Name):
                name = s.targets[0].id
                for kind, f in (("chunks", self.chunks), ("nat", self.nat), ("one", self.one)):
                    try:
                        ex = f(s.value)
                    except Untranslatable:
                        continue
                    self.n += 1
                    ident = f"{name}_{self.n}"
                    lets.append((ident, ex))
                    self.locals[name] = (ident, kind)
                    break
                else:
                    raise Untranslatable("assignment " + ast.unparse(s)[:100])
                continue
            if isinstance(s, ast.For) and isinstance(s.target, ast.Name) and not s.orelse:
                rng = self.all_but_last(s.iter)
                if pending is not None:
                    raise Untranslatable("skip signal pending at a loop")
                x = s.target.id
                body = [b for b in s.body if not (isinstance(b, ast.Expr) and isinstance(b.value, ast.Constant))]
                if len(body) == 2 and self.signal(body[0]) is not None and isinstance(body[1], ast.Expr) and isinstance(body[1].value, ast.Yield) \
                        and ast.unparse(body[1].value.value) in (x, f"{x}.tolist()", f"list({x})"):
                    emits.append(f"(some ({rng}.map fun c => (c, {self.signal(body[0])})))")
                    continue
                raise Untranslatable("inner loop body " + ast.unparse(s)[:100])
            if isinstance(s, ast.If) and self.empty_test(s.test) and not s.orelse and s.body and isinstance(s.body[-1], ast.Continue):
                if pending is not None:
                    raise Untranslatable("skip signal pending at the emptiness test")
                saved = dict(self.locals)
                l1, e1 = self.block(s.body[:-1])
                self.locals = saved
                l2, e2 = self.block(stmts[i:])
                emits.append("(if batch.length == 0 then\n      " + self.render(l1, e1, 3) + "\n    else\n      " + self.render(l2, e2, 3) + ")")
                return lets, emits
            raise Untranslatable("statement " + ast.unparse(s)[:100])
        if pending is not None:
            raise Untranslatable("a skip signal is sent with no physical batch after it")
        return lets, emits

    @staticmethod
    def render(lets, emits, ind):
        pad = "  " * ind
        out = "".join(f"let {n} := {e}\n{pad}" for n, e in lets)
        return out + "catOpt [" + (",\n" + pad + "  ").join(emits) + "]"


def translate():
    src = (Path(core.REPO) / REL).read_text()
    fn = find_function(ast.parse(src), "__iter__", cls="BatchSplittingSampler")
    body = [b for b in fn.body if not (isinstance(b, ast.Expr) and isinstance(b.value, ast.Constant))]
    if len(body) != 1 or not isinstance(body[0], ast.For) or ast.unparse(body[0].iter) != "self.sampler" or not isinstance(body[0].target, ast.Name) or body[0].orelse:
        raise Untranslatable("__iter__ is not a single `for <batch> in self.sampler:` loop")
    t = T(body[0].target.id)
    lets, emits = t.block(body[0].body)
    out = ["import OpacusLean.Model.Engine",
           "/-! GENERATED by vharness/props/c10_trans.py from BatchSplittingSampler.__iter__ – do not edit. -/",
           "set_option linter.unusedVariables false", "namespace Opacus.Generated.BatchSplit", "open Opacus.Engine", "",
           "/-- `numpy.array_split(batch, k)` in the model's rendering -/",
           "def arraySplit {α : Type} (batch : List α) (k : Nat) : List (List α) := takeChunks batch (splitSizes batch.length k)",
           "/-- concatenation of the emitted pieces; `none` (a Python exception) is absorbing -/",
           "def catOpt {β : Type} : List (Option (List β)) → Option (List β)",
           "  | [] => some []", "  | none :: _ => none", "  | some x :: r => (catOpt r).map (x ++ ·)", "",
           "/-- one logical batch of the wrapped sampler ↦ the physical batches yielded for it, each with the skip signal sent right before it -/",
           "def iterOne {α : Type} (batch : List α) (maxSize : Nat) : Option (List (List α × Bool)) :=",
           "  " + T.render(lets, emits, 1), "", "end Opacus.Generated.BatchSplit"]
    return "\n".join(out) + "\n"


if __name__ == "__main__":
    print(translate(), end="")
