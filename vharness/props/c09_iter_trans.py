"""Translator tie for C09: `UniformWithReplacementSampler.__iter__` and `DistributedUniformWithReplacementSampler.__iter__`
(opacus/utils/uniform_sampler.py) → lean/OpacusLean/Generated/SamplerIter.lean, as functions of the uniform draws
`u : batch → position → R` (what `torch.rand(n, generator=self.generator)` returns for that batch; torch's generator is outside the
repository – the correspondence reproduces the draws from a cloned generator on every run).

Subset.  The epoch loop is `n = self.steps; while n > 0: BODY; n -= 1` or `for _ in range(self.steps | self.num_batches): BODY`
(→ `(List.range steps).map fun b => BODY`).  BODY is straight-line: assignments of
  * a mask   `torch.rand(self.num_samples, generator=self.generator) < self.sample_rate`      (exactly ONE draw of exactly `num_samples`
             uniforms from the sampler's own generator per batch; `>`-flipped forms accepted),
  * positions `<mask>.nonzero(as_tuple=False).reshape(-1)` / `.nonzero().flatten()` / `.view(-1)` / `torch.where(<mask>)[0]`,
  * `.tolist()` (a change of container), `<shard>[<positions>]` (positions mapped through the rank's shard),
and one unconditional `yield` (a conditional yield drops batches – that is finding D15, repaired: outside the subset).
Before the loop the distributed sampler may bind `indices` to `torch.randperm(self.total_size, generator=g)` / `torch.arange(self.total_size)`
(both: "a permutation of range(total_size)", the model's `perm`) and must slice it `[self.rank : self.total_size : self.num_replicas]`
(→ the model's `shard perm W rank`) and assert `len(indices) == self.num_samples`.
`Props/C09.lean` proves the generated functions equal to the model's `epoch` / `distEpoch .repaired` (`generated_iter_eq_model`).
"""
from __future__ import annotations

import ast
from pathlib import Path

from .. import core
from ..pytrans import Untranslatable, find_function

GEN_FILE = core.LEAN / "OpacusLean" / "Generated" / "SamplerIter.lean"
REL = "opacus/utils/uniform_sampler.py"


def _nodoc(stmts):
    return [s for s in stmts if not (isinstance(s, ast.Expr) and isinstance(s.value, ast.Constant))]


class Body:
    def __init__(self, n_expr, shard=None):
        self.n = n_expr          # lean term for the number of positions drawn per batch
        self.shard = shard       # python name of the shard variable (distributed) or None
        self.vals = {}           # python local -> (kind, lean identifier)
        self.draws = 0
        self.lets = []
        self.k = 0

    def fresh(self, name):
        self.k += 1
        return f"{name}_{self.k}"

    def expr(self, e):
        """→ (kind, lean term); kinds: mask, pos (ascending positions), idx (dataset indices)"""
        if isinstance(e, ast.Name) and e.id in self.vals:
            return self.vals[e.id]
        if isinstance(e, ast.Compare) and len(e.ops) == 1:
            a, op, b = e.left, e.ops[0], e.comparators[0]
            if isinstance(op, ast.Gt):
                a, b, op = b, a, ast.Lt()
            if isinstance(op, ast.Lt) and ast.unparse(b) == "self.sample_rate" and isinstance(a, ast.Call) and ast.unparse(a.func) == "torch.rand":
                kws = {k.arg: ast.unparse(k.value) for k in a.keywords}
                if len(a.args) == 1 and ast.unparse(a.args[0]) == "self.num_samples" and kws == {"generator": "self.generator"}:
                    self.draws += 1
                    return ("mask", "(fun i => decide (u b i < q))")
                raise Untranslatable("torch.rand arguments " + ast.unparse(a)[:80])
        if isinstance(e, ast.Call) and isinstance(e.func, ast.Attribute):
            recv, meth = e.func.value, e.func.attr
            if meth == "nonzero" and not e.args and all(k.arg == "as_tuple" and ast.unparse(k.value) == "False" for k in e.keywords):
                k, t = self.expr(recv)
                if k == "mask":
                    return ("pos", f"((List.range {self.n}).filter {t})")
            if meth in ("reshape", "view") and len(e.args) == 1 and ast.unparse(e.args[0]) == "-1" or meth == "flatten" and not e.args:
                k, t = self.expr(recv)
                if k in ("pos", "idx"):
                    return (k, t)
            if meth == "tolist" and not e.args:
                k, t = self.expr(recv)
                if k in ("pos", "idx"):
                    return (k, t)
        if isinstance(e, ast.Subscript):
            if isinstance(e.value, ast.Call) and ast.unparse(e.value.func) == "torch.where" and len(e.value.args) == 1 and ast.unparse(e.slice) == "0":
                k, t = self.expr(e.value.args[0])
                if k == "mask":
                    return ("pos", f"((List.range {self.n}).filter {t})")
            if self.shard and isinstance(e.value, ast.Name) and e.value.id == self.shard:
                k, t = self.expr(e.slice)
                if k == "pos":
                    return ("idx", f"({t}.map fun k => shardL.getD k 0)")
        raise Untranslatable("expression " + ast.unparse(e)[:100])

    def run(self, stmts):
        out = None
        for s in _nodoc(stmts):
            if out is not None:
                raise Untranslatable("statement after the yield: " + ast.unparse(s)[:80])
            if isinstance(s, ast.Assign) and len(s.targets) == 1 and isinstance(s.targets[0], ast.Name):
                kind, t = self.expr(s.value)
                ident = self.fresh(s.targets[0].id)
                self.lets.append((ident, t))
                self.vals[s.targets[0].id] = (kind, ident)
                continue
            if isinstance(s, ast.Expr) and isinstance(s.value, ast.Yield):
                kind, t = self.expr(s.value.value)
                want = "idx" if self.shard else "pos"
                if kind != want:
                    raise Untranslatable(f"yields {kind}, expected {want}")
                out = t
                continue
            raise Untranslatable("loop statement " + ast.unparse(s)[:100])
        if out is None:
            raise Untranslatable("the loop body never yields")
        if self.draws != 1:
            raise Untranslatable(f"{self.draws} uniform draws per batch")
        return "".join(f"    let {n} := {t}\n" for n, t in self.lets) + f"    {out}"


def epoch_loop(stmts):
    """→ (steps attribute, body statements) for the two loop shapes"""
    stmts = _nodoc(stmts)
    if len(stmts) == 1 and isinstance(stmts[0], ast.For) and not stmts[0].orelse and isinstance(stmts[0].iter, ast.Call) and ast.unparse(stmts[0].iter.func) == "range" \
            and len(stmts[0].iter.args) == 1 and ast.unparse(stmts[0].iter.args[0]) in ("self.steps", "self.num_batches"):
        return stmts[0].body
    if len(stmts) == 2 and isinstance(stmts[0], ast.Assign) and isinstance(stmts[0].targets[0], ast.Name) and ast.unparse(stmts[0].value) in ("self.steps", "self.num_batches") \
            and isinstance(stmts[1], ast.While) and not stmts[1].orelse:
        c = stmts[0].targets[0].id
        w = stmts[1]
        body = _nodoc(w.body)
        if ast.unparse(w.test) in (f"{c} > 0", f"0 < {c}", f"{c} >= 1") and body and ast.unparse(body[-1]) in (f"{c} -= 1", f"{c} = {c} - 1") \
                and not any(isinstance(n, ast.Name) and n.id == c for b in body[:-1] for n in ast.walk(b)):
            return body[:-1]
    raise Untranslatable("epoch loop shape")


def uniform():
    fn = find_function(ast.parse((Path(core.REPO) / REL).read_text()), "__iter__", cls="UniformWithReplacementSampler")
    body = epoch_loop(fn.body)
    return Body("N").run(body)


def distributed():
    fn = find_function(ast.parse((Path(core.REPO) / REL).read_text()), "__iter__", cls="DistributedUniformWithReplacementSampler")
    stmts = _nodoc(fn.body)
    perm = shard = None
    asserted = False
    i = 0
    while i < len(stmts) and not isinstance(stmts[i], (ast.For, ast.While)) and not (isinstance(stmts[i], ast.Assign) and ast.unparse(stmts[i].value) in ("self.steps", "self.num_batches")):
        s = stmts[i]
        i += 1
        if isinstance(s, ast.If) and ast.unparse(s.test) == "self.shuffle":
            def last_assign(block):
                a = [x for x in block if isinstance(x, ast.Assign) and isinstance(x.targets[0], ast.Name)]
                return a[-1] if a else None
            a1, a2 = last_assign(s.body), last_assign(s.orelse)
            if not (a1 and a2 and a1.targets[0].id == a2.targets[0].id and isinstance(a1.value, ast.Call) and ast.unparse(a1.value.func) == "torch.randperm"
                    and ast.unparse(a1.value.args[0]) == "self.total_size" and ast.unparse(a2.value) == "torch.arange(self.total_size)"):
                raise Untranslatable("shuffle branch")
            perm = a1.targets[0].id
            continue
        if isinstance(s, ast.Assign) and isinstance(s.targets[0], ast.Name) and isinstance(s.value, ast.Subscript) and perm and ast.unparse(s.value.value) == perm \
                and ast.unparse(s.value.slice) == "self.rank:self.total_size:self.num_replicas":
            shard = s.targets[0].id
            continue
        if isinstance(s, ast.Assert) and shard and ast.unparse(s.test) in (f"len({shard}) == self.num_samples", f"self.num_samples == len({shard})"):
            asserted = True
            continue
        raise Untranslatable("statement before the epoch loop: " + ast.unparse(s)[:100])
    if not (perm and shard and asserted):
        raise Untranslatable("the rank's shard (perm[rank : total_size : W], asserted to have num_samples entries) is not built before the loop")
    body = epoch_loop(stmts[i:])
    return Body("shardL.length", shard=shard).run(body)


def translate():
    u, d = uniform(), distributed()
    out = ["import OpacusLean.Model.Sampler",
           "/-! GENERATED by vharness/props/c09_iter_trans.py from UniformWithReplacementSampler.__iter__ / DistributedUniformWithReplacementSampler.__iter__ – do not edit. -/",
           "set_option linter.unusedVariables false", "namespace Opacus.Generated.SamplerIter", "open Opacus.Sampler", "",
           "section", "variable {R : Type} [LT R] [DecidableLT R]", "",
           "/-- `UniformWithReplacementSampler.__iter__`: the batches of one epoch, given the uniforms `u batch position` -/",
           "def uniformIter (steps : Nat) (q : R) (N : Nat) (u : Nat → Nat → R) : List (List Nat) :=",
           "  (List.range steps).map fun b =>", u, "",
           "/-- `DistributedUniformWithReplacementSampler.__iter__` on one rank; `perm` = the (shuffled or identity) order of `range(total_size)` -/",
           "def distIter (steps : Nat) (q : R) (perm : List Nat) (W rank : Nat) (u : Nat → Nat → R) : List (List Nat) :=",
           "  let shardL := shard perm W rank", "  (List.range steps).map fun b =>", d, "", "end", "", "end Opacus.Generated.SamplerIter"]
    return "\n".join(out) + "\n"


if __name__ == "__main__":
    print(translate(), end="")
