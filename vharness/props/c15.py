"""C15 — validation accepts only sample-independent models; ModuleValidator.fix is safe and faithful.

Obligations (Lean, unbounded over module trees): see THEOREMS.  The model
(`OpacusLean/Model/Validate.lean`) covers `trainable_modules`, `ModuleValidator.validate / fix /
_replace_sub_module`, the registered validators and fixers, `clone_module`, `get_submodule`,
`GradSampleModule.validate` and `make_private`'s parameter-set check.

Tie to the code, every run:
 (b) the single-layer verdict table (type × affine × track_running_stats × trainable × training) and
     the registries' key sets are extracted from the running code into
     `OpacusLean/Generated/ValidatorTable.lean` and re-checked by `lake build`;
 (a) random module trees over the layer zoo: model (driver C15) vs real `validate / is_valid /
     GradSampleModule.validate / make_private / fix` — error classes in order, trainable names,
     every node / parameter / buffer of the fixed tree (type, flags, names, requires_grad, object
     provenance, values bit-for-bit), argument untouched;
 (c) the trusted semantic table (`couples`, `updatesStats`) is compared with the real torch layers by
     perturbing one row of a batch.
Then the Lean counterexample witnesses are replayed on the real code, and a property oracle searches
the real code for accepted-but-coupled models and unfaithful fixes.
"""
from __future__ import annotations

import copy
import itertools
import json
import os
import re

import torch
import torch.nn as nn

from .. import core, rig
from . import c15_zoo as zoo

PID = "C15"
MODULES = ["OpacusLean.Props.C15"]
THEOREMS = [
    "Opacus.C15.generated_registry_matches_model",
    "Opacus.C15.generated_table_complete",
    "Opacus.C15.generated_table_matches_model",
    "Opacus.C15.makePrivate_ok_iff",
    "Opacus.C15.rejects_eval",
    "Opacus.C15.rejects_foreign_optimizer_params",
    "Opacus.C15.rejects_unsupported_layers",
    "Opacus.C15.rejects_trainable_with_buffers",
    "Opacus.C15.accepts_implies_independent_general",
    "Opacus.C15.accepts_implies_independent",
    "Opacus.C15.makePrivate_accepts_implies_independent",
    "Opacus.C15.accepts_implies_independent_partial",
    "Opacus.C15.accepts_implies_independent_asCoded_fails",
    "Opacus.C15.bn_affine_false_counterexample",
    "Opacus.C15.bn_frozen_counterexample",
    "Opacus.C15.in_trs_no_affine_counterexample",
    "Opacus.C15.fix_then_validate_ok",
    "Opacus.C15.fix_pure",
    "Opacus.C15.fix_then_old_optimizer_rejected",
    "Opacus.C15.fix_preserves_other_params",
    "Opacus.C15.replace_root",
    "Opacus.C15.replace_root_lstm",
    "Opacus.C15.bn_default_groups_valid",
    "Opacus.C15.fixed_in_keeps_buffers_counterexample",
    "Opacus.C15.fix_kwargs_counterexample",
    "Opacus.C15.replacement_keeps_mode",
    "Opacus.C15.replacement_as_built",
]
RULE = (
    "case = random module tree over the layer zoo (BatchNorm1d/2d/3d/SyncBatchNorm, InstanceNorm1d/2d/3d with any affine / "
    "track_running_stats, LSTM, MultiheadAttention, GroupNorm, LayerNorm, Linear, Conv1d/2d/3d, nested Sequential / ModuleList / "
    "ModuleDict / parameter-owning Box containers, root-level replaceable layer; random frozen parameters, eval-mode roots and "
    "children, flags flipped after construction) × operation (validate, make_private with a parameter subset ± a foreign "
    "parameter, fix with every keyword combination); non-trivial iff the tree contains a layer with a registered validator "
    "or the operation is rejected; distinct by (tree shape with types / flags / frozen pattern, operation, arguments)"
)
TRUSTED = [
    "semantic table couples/updatesStats per (layer type, mode, track_running_stats flag, buffers present) is hand-written; it is compared with the real torch layers on every run (one row of a batch perturbed, other rows and buffers observed)",
    "a model is sample-independent iff none of its modules couples samples or updates running statistics (forward = composition of the submodules' forwards with per-sample glue)",
    "module trees, not DAGs: a module / parameter object registered twice is not modelled; tensor shapes are not modelled (load_state_dict size mismatches)",
]
PARTIAL = []

V_AS_CODED = {"walkAll": 0, "kwIN": 0, "kwLSTM": 0, "kwMHA": 0, "inDropBuffers": 0, "keepMode": 0}
LEAN_TY = {
    "BatchNorm1d": "bn1", "BatchNorm2d": "bn2", "BatchNorm3d": "bn3", "SyncBatchNorm": "syncbn",
    "InstanceNorm1d": "in1", "InstanceNorm2d": "in2", "InstanceNorm3d": "in3", "LSTM": "lstm",
    "MultiheadAttention": "mha", "GroupNorm": "gn", "LayerNorm": "ln", "Linear": "linear",
    "NonDynamicallyQuantizableLinear": "ndqLinear", "Conv1d": "conv1", "Conv2d": "conv2", "Conv3d": "conv3",
    "Sequential": "seq", "ModuleList": "mlist", "ModuleDict": "mdict", "Box": "box", "DPLSTM": "dplstm",
    "DPLSTMCell": "dplstmCell", "RNNLinear": "rnnLinear", "DPMultiheadAttention": "dpmha",
    "SequenceBias": "seqBias", "Dropout": "dropout",
}
TY_ORDER = list(LEAN_TY)
LEAN_ERR = {"IllegalModuleConfigurationError": "illegalConfig", "ShouldReplaceModuleError": "shouldReplace"}
GEN_FILE = core.LEAN / "OpacusLean" / "Generated" / "ValidatorTable.lean"


def vbits(v):
    return "".join(str(int(v[k])) for k in ("walkAll", "kwIN", "kwLSTM", "kwMHA", "inDropBuffers", "keepMode"))


def opacus():
    from opacus import GradSampleModule, PrivacyEngine
    from opacus.validators import ModuleValidator
    return ModuleValidator, GradSampleModule, PrivacyEngine


# =========================================================================== real-code adapters
def real_validate(m):
    MV, GSM, _ = opacus()
    errs = MV.validate(m, strict=False)
    cls = [type(e).__name__ for e in errs]
    from opacus.utils.module_utils import trainable_modules
    tm = [n if n else "^" for n, _ in trainable_modules(m)]
    gsm = len(GSM.validate(m, strict=False))
    # the two other public faces of the same verdict must agree with it
    ok = MV.is_valid(m)
    try:
        MV.validate(m, strict=True)
        strict = "ok"
    except Exception as e:  # noqa: BLE001
        strict = type(e).__name__
    consistent = (ok == (not cls)) and (strict == ("ok" if not cls else "UnsupportedModuleError"))
    return {"mv": cls, "gsm": gsm, "tm": tm, "consistent": consistent}


def exc_str(e):
    n = type(e).__name__
    if n == "UnsupportedModuleError":
        inner = e.args[0] if e.args and isinstance(e.args[0], list) else []
        return n + ":" + (",".join(type(x).__name__ for x in inner) or "-")
    if n == "NotImplementedError":
        inner = e.args[0] if e.args and isinstance(e.args[0], list) else []
        return f"{n}:{len(inner)}"
    return n


def real_make_private(m, sel):
    """make_private on a deep copy; `sel` = parameter numbers (of `Numbered(m)`) and/or 'F'"""
    _, _, PE = opacus()
    m2 = copy.deepcopy(m)
    nb = zoo.Numbered(m2)
    ps = [nn.Parameter(torch.zeros(1)) if s == "F" else nb.obj[s] for s in sel]
    opt = torch.optim.SGD(ps, lr=0.1)
    dl = torch.utils.data.DataLoader(torch.utils.data.TensorDataset(torch.zeros(8, 1)), batch_size=4)
    try:
        PE().make_private(module=m2, optimizer=opt, data_loader=dl, noise_multiplier=1.0, max_grad_norm=1.0)
        return "ok"
    except Exception as e:  # noqa: BLE001
        return "err:" + exc_str(e)


def kw_dict(kw):
    d = {}
    if kw["rbi"] is not None:
        d["replace_bn_with_in"] = bool(kw["rbi"])
    if kw["ng"] is not None:
        d["num_groups"] = kw["ng"]
    if kw["extra"]:
        d["some_other_option"] = 1
    return d


def real_fix(m, kw):
    """run the real fix; returns ('err', name) or ('ok', fixed module, first clone's numbering)"""
    MV, _, _ = opacus()
    import opacus.validators.module_validator as mvmod
    cap = {}
    orig = mvmod.clone_module

    def spy(mod):
        c = orig(mod)
        if "nb" not in cap:
            cap["nb"] = zoo.Numbered(c)
        return c

    mvmod.clone_module = spy
    try:
        f = MV.fix(m, **kw_dict(kw))
    except Exception as e:  # noqa: BLE001
        return ("err", exc_str(e), None)
    finally:
        mvmod.clone_module = orig
    return ("ok", f, cap.get("nb"))


def dump_real(f, nb_arg, nb_clone):
    def origin(o):
        if nb_clone is not None and id(o) in nb_clone.num:
            return f"c{nb_clone.num[id(o)]}"
        if id(o) in nb_arg.num:
            return f"o{nb_arg.num[id(o)]}"
        return "x"

    recs = []

    def walk(mod, path):
        a = zoo.attrs(mod)
        recs.append({
            "path": path or "^", "ty": zoo.tname(mod), "training": int(mod.training), "affine": a["affine"], "trs": a["trs"],
            "nf": a["nf"], "ng": a["ng"], "origin": origin(mod),
            "params": [(k, p, int(p.requires_grad), origin(p)) for k, p in zoo.own_params(mod)],
            "buffers": [(k, b, origin(b)) for k, b in zoo.own_buffers(mod)],
        })
        for k, c in zoo.kids(mod):
            walk(c, (path + "." + k) if path else k)

    walk(f, "")
    return recs


VAL_RE = re.compile(r"^(t(\d+)|1|0|ch(\d)\((.*)\)|sq\((.*)\))$")


def realize(val, values, like):
    mm = VAL_RE.match(val)
    if not mm:
        raise core.InfraError(f"bad value descriptor {val}")
    if mm.group(2) is not None:
        return values[int(mm.group(2))]
    if val == "1":
        return torch.ones_like(like)
    if val == "0":
        return torch.zeros_like(like)
    if mm.group(3) is not None:
        return realize(mm.group(4), values, None).chunk(3, dim=0)[int(mm.group(3))]
    return realize(mm.group(5), values, None).squeeze()


def parse_dump(s):
    recs = []
    for node in s.split(";"):
        path, ty, tr, aff, trs, nf, ng, org, ps, bs = node.split("|")
        recs.append({
            "path": path, "ty": ty, "training": int(tr), "affine": int(aff), "trs": int(trs), "nf": int(nf), "ng": int(ng),
            "origin": org,
            "params": [] if ps == "-" else [tuple(re.match(r"^([^=]+)=(.*):([01]):(\w+)$", p).groups()) for p in ps.split(",")],
            "buffers": [] if bs == "-" else [tuple(re.match(r"^([^=]+)=(.*):(\w+)$", b).groups()) for b in bs.split(",")],
        })
    return recs


def compare_fix(model_reply, real, nb_arg):
    """None if the model's fixed tree and the real one agree, else a description"""
    if real[0] == "err":
        return None if model_reply == "err:" + real[1] else f"real raised {real[1]}, model {model_reply[:60]}"
    if not model_reply.startswith("ok "):
        return f"real returned a module, model {model_reply[:60]}"
    mrecs = parse_dump(model_reply[3:])
    rrecs = dump_real(real[1], nb_arg, real[2])
    if len(mrecs) != len(rrecs):
        return f"node count {len(rrecs)} vs model {len(mrecs)}: {[r['path'] + ':' + r['ty'] for r in rrecs]} vs {[r['path'] + ':' + r['ty'] for r in mrecs]}"
    for a, b in zip(rrecs, mrecs):
        for k in ("path", "ty", "training", "affine", "trs", "nf", "ng", "origin"):
            if a[k] != b[k]:
                return f"node {a['path']}: {k} real {a[k]} model {b[k]}"
        if [(p[0], p[2], p[3]) for p in a["params"]] != [(p[0], int(p[2]), p[3]) for p in b["params"]]:
            return f"node {a['path']}: parameters real {[(p[0], p[2], p[3]) for p in a['params']]} model {b['params']}"
        for pa, pb in zip(a["params"], b["params"]):
            want = realize(pb[1], nb_arg.values, pa[1])
            if want.shape != pa[1].shape or not torch.equal(want, pa[1].detach()):
                return f"node {a['path']}: parameter {pa[0]} value is not {pb[1]}"
        if [(x[0], x[2]) for x in a["buffers"]] != [(x[0], x[2]) for x in b["buffers"]]:
            return f"node {a['path']}: buffers real {[(x[0], x[2]) for x in a['buffers']]} model {b['buffers']}"
        for xa, xb in zip(a["buffers"], b["buffers"]):
            want = realize(xb[1], nb_arg.values, xa[1])
            if want.shape != xa[1].shape or not torch.equal(want, xa[1].detach()):
                return f"node {a['path']}: buffer {xa[0]} value is not {xb[1]}"
    return None


# =========================================================================== property oracles (real code only)
def probe_leaf(mod, seed):
    sh = zoo.leaf_shape(mod)
    if sh is None:
        return (False, False, {})
    return zoo.independence_probe(mod, sh[0], sh[1], seed)


def skip_reason(mod):
    ps = zoo.own_params(mod)
    if not ps:
        return "affine=False"
    if not any(p.requires_grad for _, p in ps):
        return "frozen"
    return "trainable"


def describe_tree(m):
    def d(mod):
        a = zoo.attrs(mod)
        s = type(mod).__name__
        if zoo.tname(mod) in zoo.BN + zoo.IN:
            s += f"({a['nf']}, affine={bool(a['affine'])}, track_running_stats={bool(a['trs'])})"
        if zoo.own_params(mod) and not any(p.requires_grad for _, p in zoo.own_params(mod)):
            s += "[frozen]"
        if not mod.training:
            s += "[eval]"
        cs = zoo.kids(mod)
        return s + ("{" + ", ".join(f"{k}: {d(c)}" for k, c in cs) + "}" if cs else "")
    return d(m)


def accept_oracle(m, seed, context="validate"):
    """PROPERTY: a module ModuleValidator.validate accepts is in training mode, sample-independent and
    keeps no data-dependent running statistics.  Returns None or (key, what, replay)."""
    MV, GSM, _ = opacus()
    if MV.validate(m, strict=False) or not MV.is_valid(m):
        return None
    if not m.training:
        return ("C15:validate:eval-accepted", f"ModuleValidator.validate accepts the eval-mode model {describe_tree(m)}", {"tree": describe_tree(m)})
    for path, mod in m.named_modules():
        if zoo.tname(mod) in zoo.CONTAINERS or zoo.kids(mod) and zoo.leaf_shape(mod) is None:
            continue
        c, u, det = probe_leaf(mod, seed)
        if c or u:
            tn = type(mod).__name__
            fixed_in = zoo.tname(mod) in zoo.IN and not mod.track_running_stats and getattr(mod, "running_mean", None) is not None
            if context == "fix" and fixed_in:
                key = f"C15:fix:{tn}:keeps-running-stat-buffers"
            else:
                key = f"C15:accept:{tn}:{skip_reason(mod)}"
            engine = "also accepted by GradSampleModule.validate(strict)" if not GSM.validate(m, strict=False) else "rejected by GradSampleModule.validate(strict)"
            what = (f"ModuleValidator.validate accepts {describe_tree(m)} ({engine}) but layer '{path}' "
                    f"{'couples the samples of a batch' if c else ''}{' and ' if c and u else ''}{'updates running statistics from the data' if u else ''}: {det}")
            return (key, what, {"offending": path, "probe": det, "tree": describe_tree(m)})
    return None


def same_function(a, b, seed, kind):
    """outputs of layer `a` (torch) and its replacement `b` on one random batch, eval mode"""
    a, b = copy.deepcopy(a).eval(), copy.deepcopy(b).eval()
    C, L = zoo.leaf_shape(a)
    g = torch.Generator().manual_seed(seed)
    x = torch.randn(3, 5, L, generator=g, dtype=torch.get_default_dtype())
    # BOTH layers are called exactly the way the ORIGINAL layer is called (its batch_first layout, the very same
    # tensor): a replacement that silently changed the layout convention must not be forgiven
    bf = bool(a.batch_first)
    xi = x if bf else x.transpose(0, 1).contiguous()

    def call(m):
        if kind == "LSTM":
            return m(xi)[0]
        return m(xi, xi[..., : a.kdim], xi[..., : a.vdim])[0]

    with torch.no_grad():
        try:
            ya, yb = call(a), call(b)
        except Exception:
            return float("inf")
    if tuple(ya.shape) != tuple(yb.shape):
        return float("inf")
    return float((ya - yb).abs().max())


def fix_oracle(m, kw, seed):
    """PROPERTY: fix returns a new module that passes validation, leaves its argument untouched, keeps
    every parameter it does not replace bit-identical and in place, LSTM / MHA replacements compute
    the same function.  Returns a list of (key, what, replay)."""
    MV, GSM, _ = opacus()
    out = []
    before = zoo.snapshot(m)
    tree = describe_tree(m)
    kwd = kw_dict(kw)
    try:
        f = MV.fix(m, **kwd)
    except TypeError as e:
        fam = None
        from opacus.utils.module_utils import trainable_modules
        for _, mod in trainable_modules(m):
            tn = zoo.tname(mod)
            if tn in zoo.IN:
                fam = "InstanceNorm"
            elif tn in ("LSTM", "MultiheadAttention"):
                fam = tn
            if fam:
                break
        out.append((f"C15:fix-kwargs:{fam}", f"ModuleValidator.fix({tree}, **{kwd}) raises TypeError: {e}", {"tree": tree, "kwargs": kwd}))
        f = None
    except Exception as e:  # noqa: BLE001
        n = type(e).__name__
        legit = (n == "ValueError" and kw["ng"] is not None) or (n == "UnsupportableModuleError" and kw["rbi"]) or (n == "ZeroDivisionError" and kw["ng"] == 0)
        if not legit:
            out.append((f"C15:fix-raises:{n}", f"ModuleValidator.fix({tree}, **{kwd}) raises {n}: {e}", {"tree": tree, "kwargs": kwd}))
        f = None
    if not zoo.snapshot_equal(before, zoo.snapshot(m)):
        out.append(("C15:fix:argument-mutated", f"ModuleValidator.fix({tree}, **{kwd}) changed its argument", {"tree": tree, "kwargs": kwd}))
    if f is None:
        return out
    ids_m = {id(o) for mod in m.modules() for o in [mod] + [p for _, p in zoo.own_params(mod)] + [b for _, b in zoo.own_buffers(mod)]}
    shared = [n for n, mod in f.named_modules() if id(mod) in ids_m] + [n for n, p in f.named_parameters() if id(p) in ids_m] + [n for n, b in f.named_buffers() if id(b) in ids_m]
    if shared:
        out.append(("C15:fix:shares-objects", f"result of fix({tree}) shares objects with its argument: {shared[:5]}", {"tree": tree, "shared": shared}))
    if m.training:
        errs = MV.validate(f, strict=False)
        if errs:
            out.append((f"C15:fix:still-invalid:{type(errs[0]).__name__}", f"fix({tree}, **{kwd}) does not pass ModuleValidator.validate: {[type(e).__name__ for e in errs]}", {"tree": tree, "kwargs": kwd}))
    # parameters of modules that were not replaced: same place, same bits, same requires_grad
    fm = dict(f.named_modules())
    for path, mod in m.named_modules():
        g = fm.get(path)
        if g is None or type(g) is not type(mod):
            continue
        pa, pb = zoo.own_params(mod), zoo.own_params(g)
        if [(k, p.requires_grad) for k, p in pa] != [(k, p.requires_grad) for k, p in pb] or any(not torch.equal(p.detach(), q.detach()) for (_, p), (_, q) in zip(pa, pb)):
            under_replaced = any(path.startswith(q + ".") and type(fm.get(q)) is not type(dict(m.named_modules())[q]) for q in dict(m.named_modules()) if q)
            if not under_replaced:
                out.append((f"C15:fix:parameter-changed:{type(mod).__name__}", f"fix({tree}): parameters of untouched module '{path}' differ", {"tree": tree, "path": path}))
    # a REPLACEMENT (a layer of another type than the one it stands for) carries no running statistics
    for path, mod in m.named_modules():
        g = fm.get(path)
        if g is not None and type(g) is not type(mod) and any(n.endswith("running_mean") for n, _ in g.named_buffers()):
            out.append((f"C15:fix:{type(mod).__name__}->{type(g).__name__}:replacement-tracks-running-stats",
                        f"fix({tree}, **{kwd}) replaced '{path}' {type(mod).__name__} by {type(g).__name__} with running-statistics buffers "
                        f"(track_running_stats={getattr(g, 'track_running_stats', None)}): training-mode forward passes write data-dependent statistics into it", {"tree": tree, "kwargs": kwd, "path": path}))
            break
        # replaced LSTM / MHA compute the same function
    for path, mod in m.named_modules():
        g = fm.get(path)
        tn = type(mod).__name__
        if g is not None and tn in ("LSTM", "MultiheadAttention") and type(g).__name__ in ("DPLSTM", "DPMultiheadAttention"):
            d = same_function(mod, g, seed, tn)
            if not d < 1e-9:
                cfg = f"batch_first={mod.batch_first}" + (f", num_heads={mod.num_heads}" if tn == "MultiheadAttention" else "")
                sub = ("batch_first" if (tn == "MultiheadAttention" and mod.batch_first) else "other")
                out.append((f"C15:fix:{tn}:different-function:{sub}", f"fix() replaced '{path}' {tn}({cfg}) by {type(g).__name__} whose output differs by {d:.3g} on a random input", {"tree": tree, "path": path, "delta": d}))
    # the fixed model, once accepted, must itself be sample-independent
    r = accept_oracle(f, seed, context="fix")
    if r:
        out.append((r[0], f"after fix({tree}, **{kwd}): " + r[1], dict(r[2], tree=tree, kwargs=kwd)))
    return out


# =========================================================================== generated table
def build_row_layer(ty, affine, trs, trainable, training):
    C = 4
    if ty in zoo.BN + zoo.IN:
        m = getattr(nn, ty)(C, affine=affine, track_running_stats=trs)
    elif ty == "GroupNorm":
        m = nn.GroupNorm(2, C, affine=affine)
    elif ty == "LayerNorm":
        m = nn.LayerNorm(C, elementwise_affine=affine)
    elif ty == "LSTM":
        m = nn.LSTM(C, C)
    elif ty == "MultiheadAttention":
        m = nn.MultiheadAttention(C, 2)
    elif ty == "Linear":
        m = nn.Linear(C, C)
    else:
        m = getattr(nn, ty)(C, C, 1)
    m.requires_grad_(trainable)
    m.train(training)
    return m


def table_domain():
    norm = list(zoo.BN) + list(zoo.IN)
    B = [False, True]
    dom = [(t, a, s, tr, m) for t in norm for a in B for s in B for tr in B for m in B]
    dom += [(t, a, False, tr, m) for t in ("GroupNorm", "LayerNorm") for a in B for tr in B for m in B]
    dom += [(t, False, False, tr, m) for t in ("LSTM", "MultiheadAttention", "Linear", "Conv1d", "Conv2d", "Conv3d") for tr in B for m in B]
    return dom


def extract_table(variant):
    MV, GSM, _ = opacus()

    def keyset(reg):
        names = sorted((k.__name__ if k.__name__ in LEAN_TY else "Other") for k in reg)
        return sorted(names, key=lambda n: TY_ORDER.index(n) if n in TY_ORDER else 999)

    def lty(n):
        return "." + LEAN_TY.get(n, "other")

    def lb(b):
        return "true" if b else "false"

    rows = []
    for (ty, a, s, tr, md) in table_domain():
        m = build_row_layer(ty, a, s, tr, md)
        mv = [LEAN_ERR.get(type(e).__name__, "illegalConfig") for e in MV.validate(m, strict=False)]
        unknown = [type(e).__name__ for e in MV.validate(m, strict=False) if type(e).__name__ not in LEAN_ERR]
        if unknown:
            raise core.InfraError(f"validator returned an error class the model does not know: {unknown}")
        gsm = len(GSM.validate(m, strict=False))
        rows.append(f"  ⟨{lty(ty)}, {lb(a)}, {lb(s)}, {lb(tr)}, {lb(md)}, [{', '.join('.' + e for e in mv)}], {gsm}⟩")
    v = variant
    txt = (
        "import OpacusLean.Model.ValidateTable\n"
        "/-! GENERATED by vharness/props/c15.py from the running Opacus code on every run of `./check C15`\n"
        "(registries' key sets, single-layer verdict table, variant detected by replaying the witnesses).\n"
        "Do not edit: the committed copy only keeps the library compiling. -/\n"
        "namespace Opacus.Validate.Generated\nopen Opacus.Validate\n\n"
        f"def variant : Variant := ⟨{lb(v['walkAll'])}, {lb(v['kwIN'])}, {lb(v['kwLSTM'])}, {lb(v['kwMHA'])}, {lb(v['inDropBuffers'])}, {lb(v['keepMode'])}⟩\n\n"
        f"def validatorKeys : List Ty := [{', '.join(lty(n) for n in keyset(MV.VALIDATORS))}]\n"
        f"def fixerKeys : List Ty := [{', '.join(lty(n) for n in keyset(MV.FIXERS))}]\n\n"
        "def rows : List Row := [\n" + ",\n".join(rows) + "]\n\n"
        "end Opacus.Validate.Generated\n"
    )
    return txt


def regenerate(ctx, variant):
    """§2.4(b): rewrite the generated table from the running code; re-prove if it changed"""
    txt = extract_table(variant)
    old = GEN_FILE.read_text() if GEN_FILE.exists() else None
    ctx.extra["generated_table"] = "unchanged" if old == txt else "CHANGED (re-proved)"
    if old == txt:
        return
    foreign = os.path.realpath(str(core.REPO)) != "/repo"
    try:
        GEN_FILE.write_text(txt)
        ctx.obligations = []
        ctx.prove()
    finally:
        if foreign and old is not None:   # mutation experiments must not leave a foreign table in the shared library
            GEN_FILE.write_text(old)


# =========================================================================== variant detection
def detect_variant(ctx):
    MV, GSM, _ = opacus()
    v = dict(V_AS_CODED)
    s = nn.Sequential(nn.Linear(4, 4), nn.BatchNorm1d(4, affine=False))
    s2 = nn.Sequential(nn.Linear(4, 4), nn.InstanceNorm1d(4, affine=False, track_running_stats=True))
    v["walkAll"] = int(bool(MV.validate(s, strict=False)) and bool(MV.validate(s2, strict=False)))

    def kw_ok(mod):
        try:
            MV.fix(mod, num_groups=1)
            return 1
        except TypeError:
            return 0

    v["kwIN"] = kw_ok(nn.InstanceNorm1d(2, affine=True))
    v["kwLSTM"] = kw_ok(nn.LSTM(2, 2))
    v["kwMHA"] = kw_ok(nn.MultiheadAttention(2, 1))
    try:
        fe = MV.fix(nn.Sequential(nn.Linear(2, 2), nn.BatchNorm1d(2)).eval())
        v["keepMode"] = int(not fe[1].training)
    except Exception:  # noqa: BLE001
        v["keepMode"] = 0
    try:
        f = MV.fix(nn.InstanceNorm1d(2, affine=True, track_running_stats=True))
        v["inDropBuffers"] = int(len(list(f.buffers())) == 0)
    except Exception:  # noqa: BLE001
        v["inDropBuffers"] = 0
    return v


# =========================================================================== correspondence
def gen_kw(rng):
    r = rng.random()
    if r < 0.35:
        return {"rbi": None, "ng": None, "extra": 0}
    return {"rbi": rng.choice([None, None, 0, 1, 1]), "ng": rng.choice([None, None, None, 1, 2, 3, 4, 0]) if rng.random() < 0.8 else None,
            "extra": int(rng.random() < 0.1)}


def kw_tokens(kw):
    return f"{'-' if kw['rbi'] is None else int(kw['rbi'])} {'-' if kw['ng'] is None else kw['ng']} {int(kw['extra'])}"


def tree_signature(m):
    return tuple((p, type(mod).__name__, mod.training, tuple(sorted(zoo.attrs(mod).items())), tuple(q.requires_grad for _, q in zoo.own_params(mod)),
                  len(zoo.own_buffers(mod))) for p, mod in m.named_modules())


def has_registered(m):
    return any(zoo.tname(mod) in zoo.BN + zoo.IN + ("LSTM", "MultiheadAttention") for mod in m.modules())


def correspondence(ctx, models, variant, only=None):
    """models: list of (spec, seed).  One driver invocation for all requests.  `only` (replay):
    the explicit operations [("validate",) | ("mkpriv", sel) | ("fix", kw)] instead of generated ones."""
    vb = vbits(variant)
    reqs = []   # (line, kind, idx, payload)
    built = [zoo.build(spec) for spec, _ in models]
    for i, (spec, seed) in enumerate(models):
        m = built[i]
        nb = zoo.Numbered(m)
        line = nb.line()
        pn = nb.param_numbers()
        rng = ctx.rng
        sels, kws = [], []
        if only is None:
            reqs.append((f"validate {vb} {line}", "validate", i, nb))
            if pn:
                sels.append(pn)
                sels.append(rng.sample(pn, rng.randint(1, len(pn))))
            sels.append((rng.sample(pn, rng.randint(0, len(pn))) if pn else []) + ["F"])
            kws = [{"rbi": None, "ng": None, "extra": 0}, gen_kw(rng), gen_kw(rng)]
        else:
            for op in only:
                if op[0] == "validate":
                    reqs.append((f"validate {vb} {line}", "validate", i, nb))
                elif op[0] == "mkpriv":
                    sels.append(op[1])
                else:
                    kws.append(op[1])
        for sel in sels:
            reqs.append((f"mkpriv {vb} {len(sel)} {' '.join(map(str, sel))} {line}", "mkpriv", i, (nb, sel)))
        seen = set()
        for kw in kws:
            t = kw_tokens(kw)
            if t in seen:
                continue
            seen.add(t)
            reqs.append((f"fix {vb} {t} {line}", "fix", i, (nb, kw)))
    replies = ctx.lean_driver("C15", [r[0] for r in reqs])
    for (line, kind, i, payload), rep in zip(reqs, replies):
        spec, seed = models[i]
        m = built[i]
        sig = tree_signature(m)
        if rep == "bad-op":
            raise core.InfraError(f"driver could not parse: {line[:300]}")
        if kind == "validate":
            real = real_validate(m)
            impl = f"mv={','.join(real['mv']) or '-'} gsm={real['gsm']} tm={','.join(real['tm']) or '-'}"
            model = rep.rsplit(" sem=", 1)[0]
            ctx.case((sig, "validate"), nontrivial=has_registered(m) or bool(real["mv"]), sample=describe_tree(m), kind="validate:" + ("reject" if real["mv"] or real["gsm"] else "accept"))
            for e in real["mv"]:
                ctx.count("error:" + e)
            # the trusted composition claim, on the whole tree: buffers change iff some module updates
            # statistics; if no module couples, no other row of the output moves
            sem = [x.split(":") for x in rep.rsplit(" sem=", 1)[1].split(",")]
            any_c, any_u = any(x[1] == "1" for x in sem), any(x[2] == "1" for x in sem)
            c, u, det = zoo.independence_probe(m, spec["C"], spec["L"], seed)
            if u != any_u or (c and not any_c):
                ctx.mismatch("whole-tree-semantics", {"op": "validate", "spec": spec, "seed": seed, "tree": describe_tree(m)},
                             {"couples": c, "updates": u, "probe": det}, {"some module couples": any_c, "some module updates": any_u})
            else:
                ctx.count("whole-tree-probe:" + ("coupled" if c else "independent"))
            if impl == model and real["consistent"]:
                ctx.validated()
            else:
                ctx.mismatch("validate", {"op": "validate", "spec": spec, "seed": seed, "tree": describe_tree(m)}, impl + ("" if real["consistent"] else " [is_valid / strict disagree]"), model,
                             oracle=lambda c, m=m, seed=seed: accept_oracle(m, seed))
        elif kind == "mkpriv":
            nb, sel = payload
            real = real_make_private(m, sel)
            ctx.case((sig, "mkpriv", tuple(sel)), nontrivial=has_registered(m) or real != "ok", kind="make_private:" + real.split(":")[1] if real != "ok" else "make_private:ok")
            if real == rep:
                ctx.validated()
            else:
                ctx.mismatch("make_private", {"op": "make_private", "spec": spec, "seed": seed, "tree": describe_tree(m), "optimizer_params": sel}, real, rep,
                             oracle=lambda c, m=m, seed=seed, sel=sel: mkpriv_oracle(m, sel, seed))
        else:
            nb, kw = payload
            before = zoo.snapshot(m)
            real = real_fix(m, kw)
            untouched = zoo.snapshot_equal(before, zoo.snapshot(m))
            diff = compare_fix(rep, real, nb)
            ctx.case((sig, "fix", kw_tokens(kw)), nontrivial=has_registered(m), kind="fix:" + (real[1].split(":")[0] if real[0] == "err" else "ok"))
            if real[0] == "ok":
                for r_ in dump_real(real[1], nb, real[2]):
                    if r_["origin"] == "x":
                        ctx.count("fix-new:" + r_["ty"])
            if diff is None and untouched:
                ctx.validated()
            else:
                ctx.mismatch("fix", {"op": "fix", "spec": spec, "seed": seed, "tree": describe_tree(m), "kw": kw}, diff or "argument mutated", rep[:400],
                             oracle=lambda c, m=m, kw=kw, seed=seed: next(iter(fix_oracle(m, kw, seed)), None))


def mkpriv_oracle(m, sel, seed):
    """PROPERTY: make_private refuses eval-mode models, coupling / unsupported trainable layers and
    foreign optimizer parameters; whatever it accepts is sample-independent."""
    r = real_make_private(m, sel)
    tree = describe_tree(m)
    if r == "ok":
        if "F" in sel:
            return ("C15:make_private:foreign-params-accepted", f"make_private accepted an optimizer with a parameter that is not the model's ({tree})", {"tree": tree})
        if not m.training:
            return ("C15:make_private:eval-accepted", f"make_private accepted an eval-mode model ({tree})", {"tree": tree})
        return accept_oracle(m, seed)
    return None


# =========================================================================== semantic table vs torch
def check_semantics(ctx, variant):
    """the trusted table couples / updatesStats against the real layers, all flag combinations"""
    cases = []
    for ty in list(zoo.BN) + list(zoo.IN):
        for a, s, md, flip in itertools.product([False, True], repeat=4):
            m = getattr(nn, ty)(3, affine=a, track_running_stats=s)
            zoo._randomize(m, torch.Generator().manual_seed(7))
            m.train(md)
            if flip:
                if not s:
                    continue
                m.track_running_stats = False
            cases.append(m)
    for m in [nn.GroupNorm(1, 3), nn.GroupNorm(3, 3, affine=False), nn.LayerNorm(4), nn.Linear(4, 4), nn.Conv1d(3, 3, 3, padding=1), nn.Conv2d(3, 3, 1),
              nn.Conv3d(3, 3, 1), nn.LSTM(4, 4, batch_first=True), nn.LSTM(4, 2, bidirectional=True), nn.MultiheadAttention(4, 2), nn.MultiheadAttention(4, 1, batch_first=True)]:
        for md in (True, False):
            mm = copy.deepcopy(m)
            mm.train(md)
            cases.append(mm)
    lines = [f"validate {vbits(variant)} {zoo.Numbered(m).line()}" for m in cases]
    reps = ctx.lean_driver("C15", lines)
    for m, rep in zip(cases, reps):
        sem = rep.rsplit(" sem=", 1)[1].split(",")[0].split(":")
        model = (sem[1] == "1", sem[2] == "1")
        if m.training is False and zoo.tname(m) in zoo.IN and m.track_running_stats and getattr(m, "running_mean", None) is None:
            continue
        c, u, det = probe_leaf(m, 11)
        ctx.count("semantic-table-row")
        if (c, u) != model:
            ctx.mismatch("semantic-table", {"layer": describe_tree(m)}, {"couples": c, "updates": u, "probe": det}, {"couples": model[0], "updates": model[1]})
        else:
            ctx.validated()


# =========================================================================== witnesses of the Lean counterexamples
def witnesses():
    """the witnesses of the Lean `_counterexample` theorems, as real modules: name -> (builder, op, kwargs)"""
    def frozen(m):
        m.requires_grad_(False)
        return m

    return {
        "bn_affine_false_counterexample": (lambda: nn.Sequential(nn.Linear(4, 4), nn.BatchNorm1d(4, affine=False)), "accept", None),
        "bn_frozen_counterexample": (lambda: nn.Sequential(nn.Linear(4, 4), frozen(nn.BatchNorm1d(4))), "accept", None),
        "in_trs_no_affine_counterexample": (lambda: nn.Sequential(nn.Linear(4, 4), nn.InstanceNorm1d(4, affine=False, track_running_stats=True)), "accept", None),
        "fixed_in_keeps_buffers_counterexample": (lambda: nn.InstanceNorm1d(4, affine=True, track_running_stats=True), "fix", {"rbi": None, "ng": None, "extra": 0}),
        "fix_kwargs_counterexample:in": (lambda: nn.InstanceNorm1d(4, affine=True), "fix", {"rbi": None, "ng": 1, "extra": 0}),
        "fix_kwargs_counterexample:lstm": (lambda: nn.Sequential(nn.BatchNorm1d(4), nn.LSTM(4, 4)), "fix", {"rbi": None, "ng": 2, "extra": 0}),
        "fix_kwargs_counterexample:mha": (lambda: nn.MultiheadAttention(4, 1), "fix", {"rbi": None, "ng": 2, "extra": 0}),
    }


def run_witness(name):
    mk, op, kw = witnesses()[name]
    m = mk()
    zoo._randomize(m, torch.Generator().manual_seed(3))
    if op == "accept":
        r = accept_oracle(m, 5)
        return [r] if r else []
    return fix_oracle(m, kw, 5)


def search_one(ctx, spec, kw, seed):
    m = zoo.build(spec)
    ctx.count("search:accept")
    r = accept_oracle(m, seed)
    if r:
        ctx.property_failure(r[0], r[1], dict(r[2], failing_input={"op": "validate", "spec": spec, "seed": seed}))
    ctx.count("search:fix")
    for r in fix_oracle(m, kw, seed):
        ctx.property_failure(r[0], r[1], dict(r[2], failing_input={"op": "fix", "spec": spec, "kw": kw, "seed": seed}))


def eval_dropout_fix_oracle(seed):
    """fix() on an EVAL-mode model whose LSTM / MultiheadAttention was built with dropout > 0: the layer is deterministic
    (dropout is the identity in eval mode), so its replacement has to be – and has to compute the same function.  Returns a
    list of (key, what, replay)."""
    MV, _, _ = opacus()
    out = []
    g = torch.Generator().manual_seed(seed)
    for tn, mk, call in (
        ("LSTM", lambda: nn.LSTM(3, 4, num_layers=2, dropout=0.5, batch_first=True), lambda l, x: l(x)[0]),
        ("MultiheadAttention", lambda: nn.MultiheadAttention(4, 2, dropout=0.5, batch_first=True), lambda l, x: l(x, x, x)[0]),
    ):
        torch.manual_seed(seed % 1000)
        m = nn.Sequential()
        m.add_module("layer", mk())
        m = m.to(torch.get_default_dtype()).eval()
        f = MV.fix(m)
        x = torch.randn(2, 5, 3 if tn == "LSTM" else 4, generator=g, dtype=torch.get_default_dtype())
        with torch.no_grad():
            a, b1, b2 = call(m.layer, x), call(f.layer, x), call(f.layer, x)
        d = float((a - b1).abs().max())
        if not torch.equal(b1, b2) or not d < 1e-9:
            out.append((f"C15:fix:{tn}:different-function:eval-mode-dropout",
                        f"fix() of an eval-mode model: nn.{tn}(dropout=0.5) is deterministic in eval mode, its replacement {type(f.layer).__name__} (training={f.layer.training}) "
                        f"differs from it by {d:.3g}" + ("" if torch.equal(b1, b2) else " and from call to call"), {"failing_input": {"op": "fix-eval-dropout", "seed": seed}}))
    return out


def mixed_dtype_search(ctx, spec, seed):
    """fix() on a model whose FIRST parameter has another dtype than the rest (a 16-bit embedding or norm in
    front of float32 layers, ...): parameters and buffers of every module fix does not replace keep their
    dtype and bits.  (No forward pass: the layers do not accept each other's dtypes.)"""
    MV, _, _ = opacus()
    m = zoo.build(spec)
    owners = [mod for mod in m.modules() if zoo.own_params(mod)]
    if len(owners) < 2:
        return
    dt = [torch.float32, torch.bfloat16, torch.float16][seed % 3]
    owners[0].to(dt)
    tree = describe_tree(m)
    ctx.count("search:fix-mixed-dtype")
    try:
        f = MV.fix(m)
    except Exception as e:  # noqa: BLE001
        ctx.count("search:fix-mixed-dtype:refused:" + type(e).__name__)
        return
    fm = dict(f.named_modules())
    for path, mod in m.named_modules():
        g = fm.get(path)
        if g is None or type(g) is not type(mod):
            continue
        for kind, own in (("parameter", zoo.own_params), ("buffer", zoo.own_buffers)):
            for (k, a), (_, b) in zip(own(mod), own(g)):
                if a is None or b is None or not a.is_floating_point():
                    continue
                if a.dtype != b.dtype or not torch.equal(a.detach(), b.detach()):
                    ctx.property_failure(f"C15:fix:{kind}-changed:mixed-dtype", f"fix({tree}) with first parameter in {dt}: {kind} '{path}.{k}' was {a.dtype} and is {b.dtype} in the result",
                                         {"tree": tree, "path": path, "failing_input": {"op": "fix-mixed", "spec": spec, "seed": seed}})
                    return


def exhaustive_specs():
    """every tree of depth ≤ 2 over a catalogue of leaves (thorough tier): a leaf as root, Sequential of
    one or two leaves, Box (trainable or frozen) of one leaf"""
    C, L = 4, 4
    leaves = []
    B = [False, True]
    for k in ("BatchNorm1d", "InstanceNorm1d"):
        for a in B:
            for t in B:
                leaves.append({"k": k, "a": {"num_features": C, "affine": a, "track_running_stats": t}})
    leaves += [
        {"k": "BatchNorm2d", "a": {"num_features": C, "affine": True, "track_running_stats": True}},
        {"k": "SyncBatchNorm", "a": {"num_features": C, "affine": False, "track_running_stats": True}},
        {"k": "InstanceNorm3d", "a": {"num_features": C, "affine": True, "track_running_stats": True}},
        {"k": "LSTM", "a": {"input_size": L, "hidden_size": L, "num_layers": 1, "bias": True, "batch_first": True, "dropout": 0.0, "bidirectional": False}},
        {"k": "LSTM", "a": {"input_size": L, "hidden_size": L // 2, "num_layers": 2, "bias": False, "batch_first": False, "dropout": 0.0, "bidirectional": True}},
        {"k": "MultiheadAttention", "a": {"embed_dim": L, "num_heads": 1, "bias": True, "add_bias_kv": False, "add_zero_attn": False, "kdim": None, "vdim": None, "batch_first": False}},
        {"k": "MultiheadAttention", "a": {"embed_dim": L, "num_heads": 2, "bias": False, "add_bias_kv": True, "add_zero_attn": False, "kdim": L - 1, "vdim": L - 2, "batch_first": False}},
        {"k": "GroupNorm", "a": {"num_groups": 2, "num_channels": C, "affine": True}},
        {"k": "Linear", "a": {"in_features": L, "out_features": L, "bias": True}},
        {"k": "Conv1d", "a": {"in_channels": C, "out_channels": C, "kernel_size": [3], "padding": [1], "bias": True}},
        {"k": "LayerNorm", "a": {"normalized_shape": L, "elementwise_affine": True}},
    ]
    leaves = leaves + [dict(copy.deepcopy(x), frozen="all") for x in leaves]
    roots = [copy.deepcopy(x) for x in leaves]
    roots += [{"k": "Sequential", "ch": [copy.deepcopy(x)]} for x in leaves]
    roots += [{"k": "Sequential", "ch": [copy.deepcopy(x), copy.deepcopy(y)]} for x in leaves for y in leaves]
    roots += [{"k": "Box", "a": {"trainable": tr}, "ch": [copy.deepcopy(x)]} for x in leaves for tr in B]
    return [{"C": C, "L": L, "root": r, "root_eval": False, "values": 17 + i} for i, r in enumerate(roots)]


def load_corpus():
    d = core.CORPUS / "C15"
    out = []
    if d.is_dir():
        for f in sorted(d.glob("*.json")):
            j = json.loads(f.read_text())
            fi = j.get("failing_input") or j.get("case") or j
            if "spec" in fi:
                out.append((fi["spec"], int(fi.get("seed", 1))))
    return out


def run(ctx):
    with rig.default_dtype(torch.float64):
        variant = detect_variant(ctx)
        ctx.variant.update({k: ("repaired" if x else "asCoded") for k, x in variant.items()})
        ctx.log("variant implemented by this tree:", ctx.variant)
        regenerate(ctx, variant)
        check_semantics(ctx, variant)
        corpus = load_corpus()
        ctx.extra["corpus_cases"] = len(corpus)
        models = corpus + [(zoo.gen_spec(ctx.rng), ctx.rng.randrange(1 << 30)) for _ in range(ctx.n(300, 2000))]
        if ctx.thorough:
            ex = exhaustive_specs()
            ctx.extra["exhaustive_small_scope"] = f"{len(ex)} trees: every leaf of a 38-layer catalogue as root, in Sequential (1 and 2 children), in trainable / frozen Box"
            models += [(sp, 100 + i) for i, sp in enumerate(ex)]
        for i in range(0, len(models), 400):
            correspondence(ctx, models[i:i + 400], variant)
        # replay of the Lean witnesses on the real code + search with the property oracle
        for name in witnesses():
            ctx.count("witness-replayed")
            for r in run_witness(name):
                ctx.property_failure(r[0], r[1], dict(r[2], failing_input={"op": "witness", "name": name}))
        for sp, sd in corpus:
            search_one(ctx, sp, {"rbi": None, "ng": None, "extra": 0}, sd)
        for _ in range(ctx.n(150, 1500)):
            search_one(ctx, zoo.gen_spec(ctx.rng, flips=False), gen_kw(ctx.rng), ctx.rng.randrange(1 << 30))
        for i in range(ctx.n(12, 120)):
            k = ["BatchNorm1d", "BatchNorm2d", "BatchNorm3d"][i % 3]
            spec = {"C": 4, "L": 4, "root_eval": False, "values": 31 + i,
                    "root": {"k": "Sequential", "ch": [{"k": k, "a": {"num_features": 4, "affine": bool(i & 1), "track_running_stats": bool(i & 2) or i % 4 == 0}}]}}
            search_one(ctx, spec, {"rbi": True, "ng": None, "extra": 0}, ctx.rng.randrange(1 << 30))
        for _ in range(ctx.n(60, 600)):
            mixed_dtype_search(ctx, zoo.gen_spec(ctx.rng, flips=False), ctx.rng.randrange(1 << 30))
        for _ in range(ctx.n(2, 10)):
            ctx.count("search:fix-eval-dropout")
            for r in eval_dropout_fix_oracle(ctx.rng.randrange(1 << 30)):
                ctx.property_failure(r[0], r[1], r[2])


class _Recorder:
    """stand-in for Ctx while replaying one correspondence case: records mismatches, writes nothing"""

    def __init__(self, ctx):
        self.ctx, self.rng, self.found = ctx, ctx.rng, []

    def lean_driver(self, *a, **k):
        return self.ctx.lean_driver(*a, **k)

    def case(self, *a, **k):
        pass

    count = validated = case

    def mismatch(self, component, case, impl, model, oracle=None, note=""):
        self.found.append((component, impl, model))


def replay(ctx, rp):
    with rig.default_dtype(torch.float64):
        fi = rp.get("failing_input") or rp.get("case") or {}
        op = fi.get("op")
        known = {f["key"] for f in ctx.findings if f.get("status") == "known"}
        res = []
        if op == "witness":
            res = run_witness(fi["name"])
        elif op == "fix-eval-dropout":
            res = eval_dropout_fix_oracle(fi["seed"])
        elif op == "fix-mixed":
            rec = _Recorder(ctx)
            rec.count = lambda *a, **k: None
            rec.property_failure = lambda key, what, rp2=None: res.append((key, what, rp2))
            mixed_dtype_search(rec, fi["spec"], fi["seed"])
        elif op in ("validate", "make_private", "fix"):
            m = zoo.build(fi["spec"])
            if op == "validate":
                r = accept_oracle(m, fi["seed"])
                res = [r] if r else []
            elif op == "make_private":
                r = mkpriv_oracle(m, fi["optimizer_params"], fi["seed"])
                res = [r] if r else []
            else:
                res = fix_oracle(m, fi["kw"], fi["seed"])
            if rp.get("kind") == "correspondence-break":
                rec = _Recorder(ctx)
                ops = {"validate": ("validate",), "make_private": ("mkpriv", fi.get("optimizer_params")), "fix": ("fix", fi.get("kw"))}[op]
                correspondence(rec, [(fi["spec"], fi["seed"])], detect_variant(ctx), only=[ops])
                for comp, impl, model in rec.found:
                    print(f"REPRODUCED: correspondence {comp} still disagrees: implementation {str(impl)[:300]} | model {str(model)[:300]}")
                    ctx.violations.append("corr-" + comp)
                if not rec.found:
                    print("correspondence agrees on this tree")
        if not res and not ctx.violations:
            print("not reproduced on this tree")
        for r in res:
            if r[0] in known:
                print("KNOWN-FINDING (reproduced):", r[0], r[1][:400])
            else:
                print("REPRODUCED:", r[0], r[1][:400])
                ctx.violations.append(r[0])
