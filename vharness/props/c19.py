"""C19 — wrapping is transparent and reversible.

Obligations (Lean, `OpacusLean.Props.C19` over `OpacusLean.Model.Wrap`): the objects Opacus touches keep
their identity and untouched part through every program (`params_identical`), forward delegation and the
optimizer pass-through (definitional in the model; their content is in the correspondence), unwrap removes
the hooks, the full statement `unwrap_leaves_no_attrs` for the repaired variant (every pristine model, every
mode, every program: after `to_standard_module` the user objects are exactly the original ones), `_partial`
for the code as it stands (the attributes that *are* removed, provided `del p.grad_sample` does not raise),
and counterexamples for each leftover (`activations`, `max_batch_len`, `summed_grad`, `_norm_sample`,
`_is_full_backward_hook`) and for the frozen-parameter crash.

Correspondence: the same Lean machine (driver C19) against real Opacus objects (hooks / functorch / ew /
ghost) through random programs; the complete attribute state of every parameter and layer (`__dict__`, hook
dicts) is compared after every op, and any attribute the model does not know about is a break.
Search: the property on the real code — forward outputs vs a never-wrapped twin, identity of parameters,
state_dict round trip, optimizer pass-through (get / set / LR scheduler), attribute-set diff after unwrap,
ordinary training after unwrap vs the twin.
"""
from __future__ import annotations

import copy

import torch
import torch.nn as nn

from .. import core, rig
from . import c19_rig as R

PID = "C19"
MODULES = ["OpacusLean.Props.C19"]
THEOREMS = [
    "Opacus.C19.forward_delegates",
    "Opacus.C19.params_identical",
    "Opacus.C19.optimizer_passthrough_get",
    "Opacus.C19.optimizer_passthrough_set",
    "Opacus.C19.optimizer_state_dict_passthrough",
    "Opacus.C19.unwrap_removes_hooks",
    "Opacus.C19.unwrap_leaves_no_attrs",
    "Opacus.C19.unwrap_leaves_no_attrs_partial",
    "Opacus.C19.unwrap_succeeds_partial",
    "Opacus.C19.leftover_activations_counterexample",
    "Opacus.C19.leftover_max_batch_len_counterexample",
    "Opacus.C19.leftover_summed_grad_counterexample",
    "Opacus.C19.leftover_norm_sample_counterexample",
    "Opacus.C19.leftover_full_backward_flag_counterexample",
    "Opacus.C19.unwrap_raises_frozen_param_counterexample",
]
RULE = (
    "case = (model spec: 1–3 layers of kinds {Linear, LayerNorm, custom}, requires_grad flags, user hooks; grad_sample_mode; "
    "program over {wrap, wrapopt, fwd, bwd, step, ozg, mzg, hooks, unwrap}) drawn from VERIF_SEED; non-trivial iff the program "
    "contains at least one captured forward+backward and ends in an unwrap; distinct by (spec, mode, program)"
)
TRUSTED = [
    "torch.nn.Module hook registration / RemovableHandle.remove, torch.func (functorch) and ExpandedWeights internals",
    "forward delegation, parameter identity and the optimizer pass-through are definitional in the model; they are established on the real objects by the oracle (bitwise outputs, `is`, get/set round trips) on every run",
]
PARTIAL = [
    "modelled-not-verified: the ddp_hooks branch of remove_hooks (distributed per-layer optimizer) is not modelled",
    "requires_grad is constant after wrapping; backward always refers to the most recent outstanding forward; tied parameters and DPRNN layers (shared RNNLinear cells) are not generated",
    "to_standard_module: activations / max_batch_len / _norm_sample and the frozen-parameter crash are repaired in /repo (fix commits 223586f, 78f89bc); it still leaves `summed_grad` (owned by the optimizer) and the legacy-hook flag `_is_full_backward_hook` behind (known findings): the model carries one switch per leftover, set from what this tree does, and the full statement is proved for the all-repaired variant",
]

MODES = ["hooks", "functorch", "ew", "ghost"]
FIX_NAMES = ["activations", "max_batch_len", "summed_grad", "_norm_sample", "_is_full_backward_hook", "frozen-param"]


# --------------------------------------------------------------------------- generation
def gen_spec(rng, mode, frozen_ok=True):
    nl = rng.randint(1, 3)
    kinds = ["both", "gradOnly"] + ([] if mode == "ew" else ["neither"])
    layers, rg = [], []
    for i in range(nl):
        layers.append((rng.choice(kinds), [2 * i, 2 * i + 1], rng.choice([0, 0, 1, 2])))
        for _ in range(2):
            rg.append(0 if (frozen_ok and rng.random() < 0.06) else 1)
    if not any(rg):
        rg[0] = 1
    return {"rg": rg, "layers": layers, "seed": rng.randrange(1000)}


def gen_program(rng, mode, fix, max_iter):
    with_opt = mode == "ghost" or rng.random() < 0.8
    ops = [f"wrap {mode}"] + (["wrapopt"] if with_opt else [])
    zg = "ozg" if with_opt else "mzg"
    for _ in range(rng.randint(0, max_iter)):
        r = rng.random()
        if r < 0.45:
            ops += [zg, "fwd 1", "bwd"] + (["step 0"] if with_opt else [])
        elif r < 0.55 and with_opt:
            for _ in range(rng.randint(1, 2)):
                ops += [zg, "fwd 1", "bwd", "step 1"]
            ops += [zg, "fwd 1", "bwd", "step 0"]
        elif r < 0.65:
            ops += ["fwd 0"]
        elif r < 0.72 and mode != "ew":
            ops += ["fwd 1"]                       # dangling forward, never backpropagated … or later
        elif r < 0.78 and mode in ("hooks", "functorch"):
            ops += [zg, "fwd 1", "fwd 1", "bwd", "bwd"] + (["step 0"] if with_opt else [])
        elif r < 0.83 and mode in ("hooks", "functorch"):
            ops += ["hooks 0", "fwd 1", "bwd", "hooks 1"]
        elif r < 0.88:
            ops += ["mzg"] + (["ozg"] if with_opt else [])
        elif r < 0.92 and with_opt and mode != "ghost":
            ops += [zg, "step 0"]                  # step without gradients: error branch
        elif r < 0.96 and with_opt and mode in ("hooks", "functorch"):
            ops += ["ozg", "fwd 1", "bwd", "step 0", "step 0"]   # processed-flag branch
        else:
            ops += [zg, "fwd 1", "bwd"]
    if mode in ("hooks", "functorch") and rng.random() < 0.3:
        ops.append("fwd 1")                        # a graph in flight across the unwrap: backpropagated afterwards
    if mode != "ew" and rng.random() < 0.2:
        ops.append("hooks 0")                      # unwrapped while the hooks are disabled (not: removed)
    ops.append("unwrap " + fix)
    return ops


def gen_case(rng, fix, max_iter):
    mode = rng.choice(MODES)
    spec = gen_spec(rng, mode)
    ops = gen_program(rng, mode, fix, max_iter)
    # in ew mode a second backward-less forward raises; in ghost a dangling forward is fine
    return {"spec": spec, "mode": mode, "ops": ops}


def spec_line(spec):
    s = f"new {len(spec['rg'])} " + " ".join(str(int(b)) for b in spec["rg"]) + f" {len(spec['layers'])}"
    for kind, idx, ufh in spec["layers"]:
        s += f" {kind} {len(idx)} " + " ".join(map(str, idx)) + f" {ufh}"
    return s


# --------------------------------------------------------------------------- variant detection (witness replay)
def _leftovers(spec, ops):
    r = R.RealWrap(spec)
    last = None
    for o in ops:
        last = r.do(o)
    return r, last


def detect_fix(ctx):
    """replay the Lean counterexample witnesses on the real code: which leftovers does this tree clean?"""
    one = {"rg": [1, 1], "layers": [("both", [0, 1], 0)], "seed": 0}
    frozen = {"rg": [1, 0], "layers": [("both", [0, 1], 0)], "seed": 0}
    bits, found = [], {}
    r, _ = _leftovers(one, ["wrap hooks", "fwd 1", "bwd", "unwrap"])
    bits.append("activations" not in r.layers[0].__dict__)
    r, _ = _leftovers(one, ["wrap hooks", "fwd 1", "fwd 1", "bwd", "unwrap"])
    bits.append("max_batch_len" not in r.layers[0].__dict__)
    r, _ = _leftovers(one, ["wrap hooks", "wrapopt", "unwrap"])
    bits.append("summed_grad" not in r.params[0].__dict__)
    r, _ = _leftovers(one, ["wrap ghost", "wrapopt", "ozg", "fwd 1", "bwd", "unwrap"])
    bits.append("_norm_sample" not in r.params[0].__dict__)
    r, _ = _leftovers(one, ["wrap hooks", "unwrap"])
    bits.append(r.layers[0]._is_full_backward_hook is None)
    r, last = _leftovers(frozen, ["wrap hooks", "unwrap"])
    bits.append(last.startswith("ok"))
    return "".join("1" if b else "0" for b in bits)


# --------------------------------------------------------------------------- correspondence
def run_cases(ctx, cases):
    lines, index = [], []
    for ci, c in enumerate(cases):
        lines.append(spec_line(c["spec"]))
        index.append(ci)
        for o in c["ops"]:
            lines.append(o)
            index.append(ci)
    replies = ctx.lean_driver("C19", lines)
    per = {}
    for ci, rep in zip(index, replies):
        per.setdefault(ci, []).append(rep)
    for ci, c in enumerate(cases):
        real = R.RealWrap(c["spec"])
        model = per[ci]
        impl = ["ok " + real.dump()]
        ok = impl[0] == model[0]
        bad_at = -1 if not ok else None
        for k, o in enumerate(c["ops"]):
            if not ok:
                break
            ro = real.do(o.split()[0] if o.startswith("unwrap") else o)
            impl.append(ro)
            extra = real.unmodelled()
            if ro != model[k + 1] or extra:
                ok = False
                bad_at = k
                if extra:
                    impl.append("unmodelled attributes: " + str(extra))
        captured = any(a == "fwd 1" for a in c["ops"]) and "bwd" in c["ops"]
        ctx.case((str(c["spec"]), c["mode"], tuple(c["ops"])), nontrivial=captured, sample=c,
                 kind=c["mode"] + ("/frozen" if not all(c["spec"]["rg"]) else ""))
        for o in c["ops"]:
            ctx.count("op:" + o.split()[0])
        for r_ in impl:
            if r_.startswith("err:"):
                ctx.count(r_.split()[0])
        if ok:
            ctx.validated()
        else:
            ctx.mismatch("wrap-attrs", c, impl[-3:], model[max(0, (bad_at or 0) - 1):(bad_at or 0) + 2], oracle=case_oracle,
                         note=f"first disagreement at op #{bad_at} ({c['ops'][bad_at] if bad_at is not None and bad_at >= 0 else 'new'})")


# --------------------------------------------------------------------------- property oracle (real code only)
def bit_equal(a, b):
    return a.shape == b.shape and bool((a == b).all())


def transparency_oracle(case, known_ok=()):
    """returns a list of (key, what, info) property failures on the real code"""
    spec, mode = case["spec"], case["mode"]
    fails = []
    real = R.RealWrap(spec)
    pristine, _, pparams = R.build_model(spec)
    base_p = [set(p.__dict__) for p in pparams]
    base_m = [(set(m.__dict__), len(m._forward_hooks), len(m._backward_hooks), len(m._forward_pre_hooks), m._is_full_backward_hook)
              for m in pristine.modules()]
    ops = list(case["ops"])
    wrapped_checks_done = False
    for o in ops:
        name = o.split()[0]
        res = real.do(name if name == "unwrap" else o)
        if name in ("wrap", "wrapopt") and not wrapped_checks_done and (name == "wrapopt" or "wrapopt" not in ops):
            wrapped_checks_done = True
            fails += wrapped_checks(real, spec, mode)
        if name == "unwrap":
            if not res.startswith("ok"):
                kind = "frozen-param" if (res.startswith("err:attr-error") and not all(spec["rg"])) else res.split()[0][4:]
                fails.append((f"C19:unwrap-raises:{kind}", f"to_standard_module() raised ({res.split()[0]}) for mode {mode}, requires_grad flags {spec['rg']}", {}))
                return fails
            if real.unwrapped is not real.model:
                fails.append(("C19:unwrap-returns-other-object", "to_standard_module() did not return the wrapped module object", {}))
    if real.unwrapped is None:
        return fails
    # ---- a graph built through the wrapper before unwrapping still backpropagates like plain torch (no Opacus hook fires on it)
    for loss in getattr(real, "inflight", []):
        try:
            want = torch.autograd.grad(loss, [p for p in real.params if p.requires_grad], retain_graph=True, allow_unused=True)
            for p in real.params:
                p.grad = None
            loss.backward()
        except Exception as e:  # noqa: BLE001
            fails.append((f"C19:post-unwrap-backward-raises:{type(e).__name__}", f"forward through the wrapped module ({mode}), to_standard_module(), then loss.backward(): raised {type(e).__name__}: {str(e)[:160]} (a never-wrapped module backpropagates)", {}))
            break
        got = [p.grad for p in real.params if p.requires_grad]
        if any((g is None) != (w is None) or (g is not None and not bit_equal(g, w)) for g, w in zip(got, want)):
            fails.append(("C19:post-unwrap-backward-grads", f"forward through the wrapped module ({mode}), to_standard_module(), then loss.backward(): p.grad differs from torch.autograd.grad of the same graph", {}))
            break
    for p in real.params:
        p.grad = None
    # ---- attribute-set diff against a pristine twin
    left = {}
    for i, p in enumerate(real.params):
        for a in sorted(set(p.__dict__) - base_p[i]):
            left.setdefault(a, []).append(f"param{i}")
    for j, m in enumerate(real.model.modules()):
        keys, nf, nb, npre, flag = base_m[j]
        for a in sorted(set(m.__dict__) - keys):
            left.setdefault(a, []).append(f"module{j}")
        if (len(m._forward_hooks), len(m._backward_hooks), len(m._forward_pre_hooks)) != (nf, nb, npre):
            left.setdefault("<hooks>", []).append(f"module{j}")
        if m._is_full_backward_hook != flag:
            left.setdefault("_is_full_backward_hook", []).append(f"module{j}")
    if [id(p) for p in real.model.parameters()] != real.param_ids:
        fails.append(("C19:params-replaced", "parameters of the unwrapped module are not the original tensor objects", {}))
    for a, where in left.items():
        fails.append((f"C19:leftover:{a}", f"after to_standard_module() ({mode}) attribute {a!r} is still present on {where[:4]} (pristine twin has none)", {"where": where}))
    if "_is_full_backward_hook" in left:
        try:
            h = real.layers[0].register_full_backward_hook(lambda *a: None)
            h.remove()
        except RuntimeError:
            pass
    # ---- ordinary training afterwards behaves as if never wrapped
    tw, topt = R.twin_of(real)
    inner = real.inner
    for k in range(3):
        x, y = real.batch(900 + k)
        outs = []
        for mdl, opt in ((real.model, inner), (tw, topt)):
            opt.zero_grad()
            out = mdl(x)
            nn.functional.cross_entropy(out, y).backward()
            opt.step()
            outs.append(out.detach())
        if not bit_equal(outs[0], outs[1]):
            fails.append(("C19:post-unwrap-forward", f"forward output of the unwrapped module differs from the never-wrapped twin at step {k}", {}))
            break
    pa = torch.cat([p.detach().reshape(-1) for p in real.model.parameters()])
    pb = torch.cat([p.detach().reshape(-1) for p in tw.parameters()])
    if not bit_equal(pa, pb):
        fails.append(("C19:post-unwrap-training", f"ordinary training after unwrap diverges from the never-wrapped twin (max diff {float((pa - pb).abs().max())})", {}))
    return fails


def wrapped_checks(real, spec, mode):
    """transparency of the wrapped objects (right after make_private)"""
    fails = []
    gm = real.gm
    if gm is None:
        return fails
    tw, _ = R.twin_of(real)
    # parameters are the very same objects
    if [id(p) for p in gm.parameters()] != real.param_ids:
        fails.append((f"C19:params-not-identical:{mode}", "parameters() of the wrapped module are not the original tensor objects", {}))
    # forward output, train and eval, grad and no_grad
    x, _ = real.batch(500)
    for train in (True, False):
        gm.train(train); tw.train(train)
        with torch.no_grad():
            a, b = gm(x), tw(x)
        if not (bit_equal(a, b) or (mode == "ew" and torch.allclose(a, b, rtol=1e-6, atol=1e-7))):
            fails.append((f"C19:forward-differs:{mode}", f"wrapped forward output differs from the original module (train={train}): max diff {float((a - b).abs().max())}", {}))
    gm.train(True); tw.train(True)
    # submodule forwarding
    if getattr(gm, "0") is not real.model[0]:
        fails.append((f"C19:getattr-forwarding:{mode}", "wrapper attribute lookup does not return the wrapped module's submodule", {}))
    # state_dict loads back
    sd = copy.deepcopy(gm.state_dict())
    if sorted(sd) != sorted("_module." + k for k in real.model.state_dict()):
        fails.append((f"C19:state-dict-keys:{mode}", f"wrapper state_dict keys {sorted(sd)[:3]}…", {}))
    with torch.no_grad():
        for p in gm.parameters():
            p.add_(1.0)
    gm.load_state_dict(sd)
    if not all(bit_equal(gm.state_dict()[k], sd[k]) for k in sd):
        fails.append((f"C19:state-dict-roundtrip:{mode}", "load_state_dict(state_dict()) does not restore the parameters", {}))
    # optimizer pass-through
    d, inner = real.dopt, real.inner
    if d is not None:
        if not (d.param_groups is inner.param_groups and d.state is inner.state and d.defaults is inner.defaults):
            fails.append(("C19:optimizer-passthrough:get", "param_groups / state / defaults of the DP optimizer are not the inner optimizer's objects", {}))
        if d.original_optimizer is not inner:
            fails.append(("C19:optimizer-passthrough:get", "original_optimizer is not the optimizer that was passed in", {}))
        old = (inner.param_groups, inner.state, inner.defaults)
        import collections
        ng, ns, nd = [dict(g) for g in inner.param_groups], collections.defaultdict(dict), dict(inner.defaults)
        try:
            d.param_groups, d.state, d.defaults = ng, ns, nd
            if not (inner.param_groups is ng and inner.state is ns and inner.defaults is nd):
                fails.append(("C19:optimizer-passthrough:set", "assigning param_groups / state / defaults on the DP optimizer does not reach the inner optimizer", {}))
            if not (d.param_groups is ng and d.state is ns and d.defaults is nd):
                fails.append(("C19:optimizer-passthrough:set", "param_groups / state / defaults assigned on the DP optimizer are not read back", {}))
        finally:
            inner.param_groups, inner.state, inner.defaults = old
        sa, sb = d.state_dict(), inner.state_dict()
        if str(sa) != str(sb):
            fails.append(("C19:optimizer-passthrough:state_dict", "state_dict() of the DP optimizer differs from the inner optimizer's", {}))
        lr0 = inner.param_groups[0]["lr"]
        sch = torch.optim.lr_scheduler.StepLR(d, step_size=1, gamma=0.5)
        import warnings
        with warnings.catch_warnings():
            warnings.simplefilter("ignore")
            sch.step()
        if inner.param_groups[0]["lr"] != lr0 * 0.5:
            fails.append(("C19:optimizer-passthrough:lr-scheduler", f"StepLR through the DP optimizer left the inner lr at {inner.param_groups[0]['lr']} (expected {lr0 * 0.5})", {}))
        inner.param_groups[0]["lr"] = lr0
        if "step" in d.__dict__:          # remove the scheduler's instance-level wrapper again
            del d.__dict__["step"]
    return fails


def lr_training_oracle(seed):
    """an LR scheduler acting through the DP optimizer drives real training: with sigma = 0 and a huge
    clipping norm the DP run must follow the plain run with the same schedule"""
    from opacus import PrivacyEngine
    spec = {"rg": [1, 1, 1, 1], "layers": [("both", [0, 1], 0), ("both", [2, 3], 0)], "seed": seed}
    out = []
    for mode in MODES:
        m1, _, _ = R.build_model(spec)
        m2, _, _ = R.build_model(spec)
        o1 = torch.optim.SGD(m1.parameters(), lr=0.1, momentum=0.9)
        o2 = torch.optim.SGD(m2.parameters(), lr=0.1, momentum=0.9)
        data = torch.utils.data.TensorDataset(torch.zeros(12, R.F), torch.zeros(12, dtype=torch.long))
        dl = torch.utils.data.DataLoader(data, batch_size=3)
        pe = PrivacyEngine(accountant="rdp")
        res = pe.make_private(module=m1, optimizer=o1, data_loader=dl, noise_multiplier=0.0, max_grad_norm=1e9,
                              poisson_sampling=False, grad_sample_mode=mode, criterion=nn.CrossEntropyLoss())
        gm, d1 = res[0], res[1]
        crit = res[2] if mode == "ghost" else nn.CrossEntropyLoss()
        s1 = torch.optim.lr_scheduler.StepLR(d1, step_size=2, gamma=0.5)
        s2 = torch.optim.lr_scheduler.StepLR(o2, step_size=2, gamma=0.5)
        g = torch.Generator().manual_seed(seed)
        for k in range(5):
            x = torch.randn(3, R.F, generator=g); y = torch.randint(0, R.F, (3,), generator=g)
            d1.zero_grad(); crit(gm(x), y).backward(); d1.step(); s1.step()
            o2.zero_grad(); nn.functional.cross_entropy(m2(x), y).backward(); o2.step(); s2.step()
        pa = torch.cat([p.detach().reshape(-1) for p in m1.parameters()])
        pb = torch.cat([p.detach().reshape(-1) for p in m2.parameters()])
        if o1.param_groups[0]["lr"] != o2.param_groups[0]["lr"] or not torch.allclose(pa, pb, rtol=1e-5, atol=1e-6):
            out.append((f"C19:lr-scheduler-training:{mode}", f"training through the DP optimizer with StepLR (sigma=0, C=1e9) diverges from plain training: lr {o1.param_groups[0]['lr']} vs {o2.param_groups[0]['lr']}, max param diff {float((pa - pb).abs().max())}", {"seed": seed}))
    return out


def case_oracle(case):
    fails = transparency_oracle(case)
    known = {f"C19:leftover:{a}" for a in FIX_NAMES[:5]} | {"C19:unwrap-raises:frozen-param"}
    for f in fails:
        if f[0] not in known:
            return f
    return None


# --------------------------------------------------------------------------- run
def run(ctx):
    torch.set_num_threads(2)
    fix = detect_fix(ctx)
    ctx.variant["to_standard_module_cleans"] = {n: b == "1" for n, b in zip(FIX_NAMES, fix)}
    ctx.log("leftover-cleaning variant of this tree (1 = cleaned):", dict(zip(FIX_NAMES, fix)))
    # 1. correspondence
    cases = [gen_case(ctx.rng, fix, ctx.n(4, 7)) for _ in range(ctx.n(160, 3000))]
    run_cases(ctx, cases)
    # 2. + 3. property on the real code: the Lean witnesses first, then generated programs
    one = {"rg": [1, 1], "layers": [("both", [0, 1], 0)], "seed": 0}
    witnesses = [
        {"spec": one, "mode": "hooks", "ops": ["wrap hooks", "wrapopt", "ozg", "fwd 1", "bwd", "step 0", "fwd 1", "fwd 1", "bwd", "unwrap"]},
        {"spec": one, "mode": "ghost", "ops": ["wrap ghost", "wrapopt", "ozg", "fwd 1", "bwd", "step 0", "unwrap"]},
        {"spec": {"rg": [1, 0], "layers": [("both", [0, 1], 0)], "seed": 0}, "mode": "hooks", "ops": ["wrap hooks", "wrapopt", "unwrap"]},
    ]
    search = witnesses + [gen_case(ctx.rng, fix, 4) for _ in range(ctx.n(50, 800))]
    for c in search:
        for key, what, info in transparency_oracle(c):
            ctx.property_failure(key, what, dict(info, failing_input=c))
        ctx.count("search:transparency:" + c["mode"])
    for i in range(ctx.n(1, 6)):
        for key, what, info in lr_training_oracle(ctx.rng.randrange(10 ** 6)):
            ctx.property_failure(key, what, dict(info, failing_input={"oracle": "lr_training", "seed": info["seed"]}))
        ctx.count("search:lr-scheduler-training")


def replay(ctx, rp):
    torch.set_num_threads(2)
    fi = rp.get("failing_input") or rp.get("case")
    if fi.get("oracle") == "lr_training":
        fails = lr_training_oracle(fi["seed"])
    else:
        fi = dict(fi, spec=dict(fi["spec"], layers=[tuple(l) for l in fi["spec"]["layers"]]))
        fails = transparency_oracle(fi)
    want = rp.get("key")
    hit = [f for f in fails if want is None or f[0] == want] or fails
    if hit:
        for f in hit:
            print("REPRODUCED:", f[0], f[1])
            ctx.violations.append(f[0])
    else:
        print("not reproduced on this tree")
