"""C20 — adaptive clipping follows its update rule and its cost is fully accounted.

Obligations (Lean, over ℝ with `exp`/`sqrt` = `Real.exp`/`Real.sqrt`, unbounded in batches, draws,
step sequences and configurations): the clip update rule for both implementations (count w.r.t. the
bound in force before the step, noisy fraction, geometric update, clamp), two-run
non-interference of the exact count (only `count + noise` reaches the released state), the
σ-split identity of Andrew et al. Thm 1 (`σ_Δ⁻² + (2σ_b)⁻² = σ⁻²`, `σ_Δ > σ`, defined iff
`σ < 2σ_b`), `charged_sigma_le_nominal` for the repaired accounting, the strict over-charge of the
accounting as coded (D9, both implementations, general and on the witnesses σ=1, σ_b=1 /
σ=1, B=32), every released step accounted exactly once, the empty-batch behaviour (D21) and the
virtual-step counter behaviour.

Correspondence: the `Float` instance of the same definitions (driver C20) against the real
`AdaClipDPOptimizer` (direct and via `PrivacyEngine.make_private(clipping="adaptive")`) and the real
`PrivacyEngineAdaptiveClipping` ghost engine, with `torch.normal` replaced by a scripted sampler
(vharness/props/c20_rig.py).  Compared per step: bound used for clipping, std
passed to `torch.normal` for gradient and count noise, denominator, noisy count, what
`accountant.history` gained, new bound (all 1e-9: `exp`/`pow` differ from Lean's by an ulp), and the
clipped sum Σ fᵢ·gᵢ rebuilt from the model's clip factors against `p.summed_grad`.
"""
from __future__ import annotations

import math

import numpy as np
import torch
import torch.nn as nn

from .. import core, rig
from ..core import f2h, h2f
from . import c20_rig as R

PID = "C20"
MODULES = ["OpacusLean.Props.C20"]
THEOREMS = [
    "Opacus.C20.sigma_split_identity",
    "Opacus.C20.sigma_split_defined_iff",
    "Opacus.C20.clip_update_rule_adaclip",
    "Opacus.C20.clip_update_rule_ghost",
    "Opacus.C20.clip_update_rule_adaclip_virtual",
    "Opacus.C20.clip_stays_in_bounds_adaclip",
    "Opacus.C20.raw_count_noninterference_adaclip",
    "Opacus.C20.raw_count_noninterference_adaclip_skip",
    "Opacus.C20.raw_count_noninterference_ghost",
    "Opacus.C20.raw_count_noninterference_adaclip_run",
    "Opacus.C20.raw_count_noninterference_ghost_run",
    "Opacus.C20.charged_sigma_le_nominal_adaclip",
    "Opacus.C20.charged_sigma_le_nominal_ghost",
    "Opacus.C20.adaclip_charges_inflated",
    "Opacus.C20.ghost_charges_inflated",
    "Opacus.C20.adaclip_charges_inflated_counterexample",
    "Opacus.C20.ghost_charges_inflated_counterexample",
    "Opacus.C20.adaclip_witness_repaired",
    "Opacus.C20.adaclip_float_witness",
    "Opacus.C20.released_step_accounted_once_adaclip",
    "Opacus.C20.released_step_accounted_once_ghost",
    "Opacus.C20.ghost_guard_iff_split_defined",
    "Opacus.C20.adaclip_empty_batch_counterexample",
    "Opacus.C20.adaclip_empty_batch_repaired",
    "Opacus.C20.adaclip_virtual_step_counterexample",
    # the tie to the source: Generated/AdaClip.lean is re-translated from optimizers/adaclipoptimizer.py on every run
    "Opacus.C20.generated_adaclip_eq_model",
]
RULE = (
    "case = (implementation ∈ {AdaClipDPOptimizer direct / via PrivacyEngine, ghost adaptive engine}, σ, σ_b, η, γ, "
    "[min,max] clip bounds, C0, loss reduction, sequence of physical batches = (per-sample norms, count-noise draw z, skip flag)) "
    "drawn from VERIF_SEED; non-trivial iff some released step has both clipped and unclipped samples AND moves the bound; "
    "distinct by (implementation, configuration, batch sizes, skip pattern, per-step unclipped counts)"
)
TRUSTED = [
    "the translator vharness/pytrans.py + props/c20_trans.py (Python `ast` -> Lean real arithmetic; subset in its docstring, anything else is reported as a broken tie) is trusted to render the noise split of AdaClipDPOptimizer.__init__ and update_max_grad_norm faithfully; both are also run against the model by the behavioural correspondence",
    "Andrew, Thakkar, McMahan, Ramaswamy 2021, Thm 1 (cited, not re-proved): releasing the clipped sum with noise multiplier σ_Δ and the centred unclipped count with std σ_b is as private as one Gaussian release with multiplier (σ_Δ⁻² + (2σ_b)⁻²)^(−1/2); the Lean theorems take this expression as the definition of the nominal σ of the combined release",
    "Float exp / sqrt / division in the driver vs torch.exp / Python float ** in the implementation: compared to 1e-9, not bit-for-bit",
    "the per-sample gradient norms are inputs of the model (read from the implementation after backward); their computation is C01/C02's subject",
]
PARTIAL = [
    "distributed branch of _update_clip_and_noise (all_reduce of count and batch size) not modelled",
    "the data-dependence of the Poisson batch size in the fraction's denominator and in σ_b = B/20 (acknowledged as a leak in the source comments) is outside the stated property and not modelled",
    "secure_mode: the count noise of AdaClipDPOptimizer is drawn with a single torch.normal call (secure_mode is not forwarded); what IS checked in both modes is the variance the draws add to the released count (unit-response oracle)",
]

TOL = 1e-9
EPS = 1e-6


# ----------------------------------------------------------------------------- generation
def gen_cfg(rng, impl):
    sigma = rng.choice([0.5, 1.0, 1.0, 1.3, 2.0, 0.8])
    if impl == "ghost":
        sigma = rng.choice([0.0, 0.3, 0.5, 1.0, 1.0, 1.7])
    sigmaB = rng.choice([1.0, 2.0, 5.0, 0.7, 10.0])
    r = rng.random()
    if impl != "ghost":
        if r < 0.04:
            sigmaB = sigma / 2.0          # undefined: 0 ** -0.5
        elif r < 0.08:
            sigmaB = sigma / 3.0          # undefined: complex
        elif r < 0.10:
            sigmaB = 0.0
        elif r < 0.12:
            sigma = 0.0
        elif sigma >= 2 * sigmaB:
            sigmaB = sigma
    lo, hi = rng.choice([(0.01, 100.0), (0.5, 2.0), (0.9, 1.1), (1e-3, 1e8), (1.0, 1e8), (0.2, 0.7)])
    if impl != "ghost" and rng.random() < 0.03:
        lo, hi = hi, lo                   # assert max > min
    return {
        "sigma": sigma, "sigmaB": sigmaB,
        "eta": rng.choice([0.2, 0.2, 0.5, 1.0, 0.05, 2.0]),
        "gamma": rng.choice([0.5, 0.5, 0.1, 0.9, 1.0, 0.0, 0.33]),
        "minC": lo, "maxC": hi,
    }


def gen_norms(rng, B, C):
    """norms spread around the current bound (so the count is neither 0 nor B most of the time)"""
    out = []
    mode = rng.random()
    for _ in range(B):
        if mode < 0.1:
            f = rng.uniform(0.01, 0.9)
        elif mode < 0.2:
            f = rng.uniform(1.1, 30)
        else:
            f = math.exp(rng.gauss(0.0, 0.8))
        if abs(f - 1.0) < 1e-3:
            f = 1.01
        out.append(C * f)
    return out


def gen_case(rng, impl, max_steps):
    cfg = gen_cfg(rng, impl)
    C0 = rng.choice([1.0, 1.0, 1.5, 0.3, 4.0, 10.0])
    case = {"impl": impl, "cfg": cfg, "C0": C0, "d": rng.choice([4, 6, 9]), "reduction": rng.choice(["sum", "sum", "mean"]),
            "via_engine": impl == "ada" and rng.random() < 0.35, "steps": []}
    n = rng.randint(1, max_steps)
    C = C0
    for k in range(n):
        if impl == "ghost":
            B = rng.choice([b for b in [4, 8, 11, 12, 16, 21, 32, 40] if b > 10 * cfg["sigma"] or rng.random() < 0.08])
            if rng.random() < 0.05:
                B = rng.choice([0, 1, 2, 3, 5, 10])  # may trip `batch_size > 10 σ0`
            sb = B / 20.0
        else:
            B = rng.choice([1, 2, 3, 4, 5, 8, 12, 17])
            if rng.random() < 0.04 and k == n - 1:
                B = 0
            sb = cfg["sigmaB"]
        z = rng.gauss(0.0, sb if sb > 0 else 1.0)
        if rng.random() < 0.12:
            z = rng.choice([-1, 1]) * rng.choice([3.0, 10.0, 50.0]) * max(B, 1)      # drives the clamp
        st = {"norms": gen_norms(rng, B, C), "z": z, "style": rng.choice(["basis", "dense"]),
              "skip": impl == "ada" and k < n - 1 and rng.random() < 0.2}
        if k == 0 and B > 0 and rng.random() < 0.15:
            st["norms"][0] = C0                                 # boundary: norm == bound exactly
            st["style"] = "basis"
        case["steps"].append(st)
        # crude forecast of the bound so that later norms stay spread around it
        if not st["skip"] and B > 0:
            cnt = sum(1 for v in st["norms"] if v <= C)
            C = min(max(C * math.exp(-cfg["eta"] * ((cnt + z) / B - cfg["gamma"])), min(cfg["minC"], cfg["maxC"])), max(cfg["minC"], cfg["maxC"]))
    return case


# ----------------------------------------------------------------------------- the two sides
def make_real(case):
    return R.RealAda(case) if case["impl"] == "ada" else R.RealGhost(case)


def run_real(case):
    """→ (construction reply, [per-step observations])"""
    r = make_real(case)
    if r.err:
        return r.err, []
    outs = []
    for st in case["steps"]:
        o = r.phys(st)
        outs.append(o)
        if o["kind"].startswith("err"):
            break
    return "ok", outs, r


def vchar(v):
    return "r" if v == "repaired" else "a"


def model_lines(case, variants, real_norms):
    """driver requests for one case; per-step norms are the ones the implementation computed"""
    c = case["cfg"]
    if case["impl"] == "ada":
        head = "ada new {} {} {} ".format(vchar(variants["ada-acct"]), vchar(variants["ada-empty"]), vchar(variants["ada-accum"])) + " ".join(
            f2h(v) for v in [c["sigma"], c["sigmaB"], c["eta"], c["gamma"], c["minC"], c["maxC"], EPS, case["C0"]])
    else:
        head = "ghost new {} ".format(vchar(variants["ghost-acct"])) + " ".join(
            f2h(v) for v in [c["sigma"], c["eta"], c["gamma"], c["minC"], c["maxC"], case["C0"]])
    lines = [head]
    for st, norms in zip(case["steps"], real_norms):
        ns = " ".join(f2h(v) for v in norms)
        if case["impl"] == "ada":
            lines.append(f"ada phys {1 if st.get('skip') else 0} {f2h(st['z'])} {len(norms)} {ns}".rstrip())
        else:
            lines.append(f"ghost step {f2h(st['z'])} {len(norms)} {ns}".rstrip())
    return lines


def parse_reply(rep):
    t = rep.split()
    if not t:
        return {"kind": "bad"}
    if t[0] == "rel":
        k = int(t[9])
        return {"kind": "rel", "clipUsed": h2f(t[1]), "gradMult": h2f(t[2]), "gradStd": h2f(t[3]), "countStd": h2f(t[4]),
                "sampleSize": int(t[5]), "noisy": h2f(t[6]), "recorded": h2f(t[7]), "newC": h2f(t[8]),
                "factors": [h2f(x) for x in t[10:10 + k]]}
    if t[0] == "skip":
        k = int(t[1])
        return {"kind": "skip", "factors": [h2f(x) for x in t[2:2 + k]]}
    return {"kind": t[0]}


def vec_close(a, b, tol):
    a, b = np.asarray(a, dtype=float), np.asarray(b, dtype=float)
    if a.shape != b.shape:
        return False
    scale = max(1.0, float(np.abs(a).max(initial=0.0)), float(np.abs(b).max(initial=0.0)))
    return bool(np.all(np.abs(a - b) <= tol * scale))


def compare_case(case, impl_head, impl_outs, model_replies, tol=TOL):
    """→ None if model and implementation agree on every observable, else a description"""
    mh = model_replies[0].split()
    if impl_head != "ok" or mh[0] != "ok":
        return None if impl_head == mh[0] else f"construction: impl {impl_head} model {model_replies[0]}"
    acc = None
    for k, (o, rep) in enumerate(zip(impl_outs, model_replies[1:])):
        m = parse_reply(rep)
        if o["kind"] != m["kind"]:
            return f"step {k}: kind impl {o['kind']} model {m['kind']}"
        if m["kind"].startswith("err"):
            return None
        contrib = (np.asarray(m["factors"])[:, None] * o["gs"].numpy()).sum(axis=0) if len(m["factors"]) else np.zeros(o["summed"].numel())
        if case["impl"] == "ada":
            acc = contrib if acc is None else acc + contrib
        else:
            acc = contrib
        if not vec_close(acc, o["summed"].numpy(), tol):
            return f"step {k}: clipped sum impl {o['summed'].tolist()} vs Σ factor·g from the model {acc.tolist()}"
        if m["kind"] == "skip":
            if o["new_hist"] or o["calls"]:
                return f"step {k}: skipped physical batch drew noise / was accounted: {o['calls']} {o['new_hist']}"
            continue
        acc = None
        exp_grad_calls = [] if m["gradStd"] == 0.0 else [m["gradStd"]]
        checks = [
            ("clipUsed", [o["clipUsed"]], [m["clipUsed"]]),
            ("gradStd", o["gradStd"], exp_grad_calls),
            ("countStd", o["countStd"], [m["countStd"]]),
            ("recorded", o["recorded"], [m["recorded"]]),
            ("newC", [o["newC"]], [m["newC"]]),
        ]
        if o.get("noisy") is not None:
            checks.append(("noisy", [o["noisy"]], [m["noisy"]]))
        if o["sampleSize"] != m["sampleSize"]:
            return f"step {k}: sampleSize impl {o['sampleSize']} model {m['sampleSize']}"
        for name, iv, mv in checks:
            if len(iv) != len(mv) or any(not core.close(a, b, tol) for a, b in zip(iv, mv)):
                return f"step {k}: {name} impl {iv} model {mv}"
        if not vec_close(o["grad"].numpy(), o["summed"].numpy() * o["scale"], tol):
            return f"step {k}: released grad {o['grad'].tolist()} ≠ scale·(clipped sum + 0 noise)"
        if "module_C" in o and o["module_C"] != o["newC"]:
            return f"step {k}: module.max_grad_norm {o['module_C']} ≠ optimizer.max_grad_norm {o['newC']}"
    return None


# ----------------------------------------------------------------------------- property oracle (no model involved)
def sigma_delta(s, sb):
    return (s ** -2 - (2 * sb) ** -2) ** -0.5


def strip(o):
    return {k: (v.tolist() if hasattr(v, "tolist") else v) for k, v in o.items() if k not in ("gs",)}


def oracle_all(case):
    """Evaluate the property on the real code for `case`; → list of (key, what, replay)."""
    impl = case["impl"]
    c = case["cfg"]
    fails = []

    def fail(key, what, **kw):
        if all(f[0] != key for f in fails):
            fails.append((key, what, dict(kw, failing_input=case)))

    try:
        res = run_real(case)
    except Exception as e:  # noqa: BLE001
        fail(f"C20:error:{impl}:{type(e).__name__}", f"driving the implementation raised {type(e).__name__}: {e}")
        return fails
    if res[0] != "ok":
        # construction refused: legitimate iff the σ-split is undefined / the bounds are inverted
        defined = c["sigma"] > 0 and c["sigmaB"] > 0 and c["sigma"] < 2 * c["sigmaB"]
        if res[0] == "err:sigma-split-undefined" and not defined:
            return fails
        if res[0] == "err:bad-bounds" and not (c["maxC"] > c["minC"]):
            return fails
        fail(f"C20:error:{impl}:construct", f"constructor refused a valid configuration: {res[0]}")
        return fails
    outs = res[1]
    C = case["C0"]
    lo, hi = c["minC"], c["maxC"]
    pend_n, pend_cnt_lo, pend_cnt_hi = 0, 0, 0
    for k, (st, o) in enumerate(zip(case["steps"], outs)):
        norms = np.asarray(o["norms"], dtype=float)
        B = len(norms)
        if o["kind"].startswith("err"):
            if o["kind"] == "err:empty-batch":
                fail("C20:adaclip:empty-batch-raises",
                     "AdaClipDPOptimizer.step() on an empty batch raises RuntimeError (view(0,-1)): the step is neither released nor accounted", step=k)
            elif o["kind"] == "err:batch-too-small" and not (B > 10 * c["sigma"]):
                pass     # documented guard: the σ-split is undefined for σ_b = B/20 ≤ σ/2
            else:
                fail(f"C20:error:{impl}:step", f"step {k} raised {o['kind']}", step=k)
            break
        # exact count w.r.t. the bound in force before the step, tolerant at the bound itself
        slack = 2.5e-6 if impl == "ada" else 0.0
        cnt_lo = int((norms <= C * (1 - 1e-12) - slack).sum())
        cnt_hi = int((norms <= C * (1 + 1e-12)).sum())
        pend_n += B
        pend_cnt_lo += cnt_lo
        pend_cnt_hi += cnt_hi
        if o["kind"] == "skip":
            if o["new_hist"] or o["calls"]:
                fail(f"C20:skipped-batch-released:{impl}", f"step {k}: a skipped physical batch drew noise or was accounted", step=k)
            continue
        chunk_skipped = pend_n != B      # logical step made of several physical batches: summed spans all of them
        n_tot, c_lo, c_hi = pend_n, pend_cnt_lo, pend_cnt_hi
        n_last, l_lo, l_hi = B, cnt_lo, cnt_hi
        pend_n = pend_cnt_lo = pend_cnt_hi = 0
        sb_expected = c["sigmaB"] if impl == "ada" else B / 20.0
        # (d) count-noise std
        if len(o["countStd"]) != 1 or not core.close(o["countStd"][0], sb_expected, TOL):
            fail(f"C20:count-noise-std:{impl}", f"step {k}: std of the count noise {o['countStd']} ≠ configured {sb_expected}", step=k)
        # (e) gradient noise std = σ_Δ · (bound the gradient was clipped with)
        if c["sigma"] > 0:
            want = sigma_delta(c["sigma"], sb_expected) * o["clipUsed"]
            if len(o["gradStd"]) != 1 or not core.close(o["gradStd"][0], want, TOL):
                fail(f"C20:grad-noise-std:{impl}", f"step {k}: gradient noise std {o['gradStd']} ≠ (σ⁻²−(2σ_b)⁻²)^(−1/2)·C = {want}", step=k)
        elif o["gradStd"]:
            fail(f"C20:grad-noise-std:{impl}", f"step {k}: σ=0 but gradient noise std {o['gradStd']}", step=k)
        # the clipped sum must be clipped to the bound the gradient noise is calibrated to
        if "summed" in o and "gs" in o and not chunk_skipped:
            Cn = o["gradStd"][0] / sigma_delta(c["sigma"], sb_expected) if (c["sigma"] > 0 and len(o["gradStd"]) == 1) else o["clipUsed"]
            gsn = o["gs"].numpy()
            fac = np.minimum(1.0, Cn / (norms + EPS)) if impl == "ada" else np.where(norms <= Cn, 1.0, Cn / np.where(norms > 0, norms, 1.0))
            want_sum = (fac[:, None] * gsn).sum(axis=0) if B else np.zeros(o["summed"].numel())
            if not vec_close(want_sum, o["summed"].numpy(), 1e-9):
                fail(f"C20:clip-noise-bound-mismatch:{impl}",
                     f"step {k}: released clipped sum {o['summed'].tolist()} is not Σ min(1, C/normᵢ)·gᵢ for the bound C={Cn!r} the gradient noise std {o['gradStd']} is calibrated to",
                     step=k)
        # bound used for clipping: previous bound (AdaClip) / new bound (ghost)
        want_used = C if impl == "ada" else o["newC"]
        if not core.close(o["clipUsed"], want_used, TOL):
            fail(f"C20:clip-bound-used:{impl}", f"step {k}: gradient clipped with {o['clipUsed']}, expected {want_used}", step=k)
        # (f) accounted exactly once, with a multiplier no larger than the nominal σ of the combined release
        if len(o["recorded"]) != 1:
            fail(f"C20:accounted-once:{impl}", f"step {k}: accountant gained {len(o['recorded'])} entries for one released step", step=k)
        elif c["sigma"] > 0 and len(o["gradStd"]) == 1 and len(o["countStd"]) == 1 and o["clipUsed"] > 0:
            gm = o["gradStd"][0] / o["clipUsed"]
            nominal = (gm ** -2 + (2 * o["countStd"][0]) ** -2) ** -0.5
            if o["recorded"][0] > nominal * (1 + 1e-9):
                # D9 is precisely "the gradient-noise multiplier is what gets recorded"; any other excess is a different failure
                d9 = core.close(o["recorded"][0], gm, TOL)
                fail((f"C20:accountant-charged-inflated:{'adaclip' if impl == 'ada' else 'ghost'}" if d9 else f"C20:accountant-charged-above-nominal:{impl}"),
                     f"step {k}: accountant charged noise_multiplier {o['recorded'][0]!r} > nominal σ {nominal!r} of the combined release (gradient multiplier {gm!r}, count std {o['countStd'][0]!r})",
                     step=k, recorded=o["recorded"][0], nominal=nominal)
        # (a–c) the update rule
        if n_tot == 0:
            if not core.close(o["newC"], C, TOL):
                fail(f"C20:update-rule:{impl}", f"step {k}: empty logical batch moved the bound {C} → {o['newC']}", step=k)
        else:
            def rule(cnt, n):
                if n == 0:
                    return C
                e = -c["eta"] * ((cnt + st["z"]) / n - c["gamma"])
                v = C * math.exp(e) if e < 700 else float("inf")
                return min(max(v, lo), hi)

            ok_full = any(core.close(o["newC"], rule(cc, n_tot), TOL) for cc in range(c_lo, c_hi + 1))
            if not ok_full:
                ok_last = n_tot != n_last and any(core.close(o["newC"], rule(cc, n_last), TOL) for cc in range(l_lo, l_hi + 1))
                if ok_last:
                    fail("C20:adaclip:virtual-step-fraction-last-chunk-only",
                         f"step {k}: logical step of {n_tot} samples in several physical batches: the unclipped fraction is computed from the last physical batch only ({n_last} samples; zero_grad resets the counters after a skipped step)",
                         step=k, newC=o["newC"], expected=rule(c_lo, n_tot))
                else:
                    fail(f"C20:update-rule:{impl}",
                         f"step {k}: new bound {o['newC']!r} ≠ clamp(C·exp(−η(b̃−γ))) = {rule(c_lo, n_tot)!r} (C={C!r}, count∈[{c_lo},{c_hi}] of {n_tot}, z={st['z']!r})",
                         step=k, newC=o["newC"], expected=rule(c_lo, n_tot))
        if not (min(lo, hi) * (1 - 1e-12) <= o["newC"] <= max(lo, hi) * (1 + 1e-12)):
            fail(f"C20:bound-out-of-range:{impl}", f"step {k}: new bound {o['newC']} outside [{lo}, {hi}]", step=k)
        C = o["newC"]
    return fails


def nonint_oracle(case, rng_seed):
    """Two runs that differ in the exact count but agree on count + noise must release the same
    bound trajectory, noise stds and accounting.  The second run rescales, in every released step,
    some norms across the bound and compensates the draw."""
    impl = case["impl"]
    res = run_real(case)
    if res[0] != "ok":
        return []
    outs = res[1]
    import random
    rng = random.Random(rng_seed)
    alt = dict(case, steps=[dict(s) for s in case["steps"]])
    C = case["C0"]
    changed = False
    for st, o in zip(alt["steps"], outs):
        if o["kind"] != "rel" and o["kind"] != "skip":
            break
        norms = list(o["norms"])
        if not norms or o["kind"] == "skip":   # skipped physical batches are left as they are
            continue
        slack = 1e-6 if impl == "ada" else 0.0
        cnt = sum(1 for v in norms if v + slack <= C)
        new = []
        for v in norms:
            new.append(C * rng.choice([0.2, 0.5, 3.0, 7.0]) if rng.random() < 0.5 else v)
        cnt2 = sum(1 for v in new if v + slack <= C)
        st["norms"] = new
        st["style"] = "basis"
        st["z"] = st["z"] + cnt - cnt2
        changed = changed or cnt != cnt2
        if o["kind"] == "rel":
            C = o["newC"]
    if not changed:
        return []
    res2 = run_real(alt)
    fails = []
    for k, (a, b) in enumerate(zip(outs, res2[1])):
        if a["kind"] != b["kind"]:
            fails.append((f"C20:raw-count-interference:{impl}", f"step {k}: kinds differ {a['kind']} / {b['kind']}", {"failing_input": case, "second_run": alt}))
            break
        if a["kind"] != "rel":
            continue
        for name in ("newC", "gradStd", "countStd", "recorded", "clipUsed"):
            av, bv = a[name], b[name]
            av = av if isinstance(av, list) else [av]
            bv = bv if isinstance(bv, list) else [bv]
            if len(av) != len(bv) or any(not core.close(x, y, 1e-10) for x, y in zip(av, bv)):
                fails.append((f"C20:raw-count-interference:{impl}",
                              f"step {k}: two runs with equal count+noise (exact counts differ) release different {name}: {av} vs {bv}",
                              {"failing_input": case, "second_run": alt}))
                return fails
    return fails


def oracle_first(case, known=()):
    """for `ctx.mismatch`: the first property failure at `case` that is NOT a listed known finding
    (a correspondence break that only reproduces known findings stays a break: no-failing-input-found)"""
    fs = oracle_all(case)
    fs += nonint_oracle(case, 7)
    unknown = [f for f in fs if f[0] not in known]
    return (unknown or [None])[0]


# ----------------------------------------------------------------------------- witnesses / variant detection
W_ADA = {"impl": "ada", "cfg": {"sigma": 1.0, "sigmaB": 1.0, "eta": 0.2, "gamma": 0.5, "minC": 0.01, "maxC": 100.0}, "C0": 1.0, "d": 4,
         "reduction": "sum", "via_engine": False, "steps": [{"norms": [0.5, 5.0, 0.9, 3.0], "z": 0.0, "style": "basis", "skip": False}]}
W_GHOST = {"impl": "ghost", "cfg": {"sigma": 1.0, "sigmaB": 0.0, "eta": 0.2, "gamma": 0.5, "minC": 0.01, "maxC": 100.0}, "C0": 1.0, "d": 4,
           "reduction": "sum", "steps": [{"norms": [0.5, 5.0, 0.9, 3.0] * 8, "z": 0.0, "style": "basis", "skip": False}]}
W_EMPTY = dict(W_ADA, steps=[{"norms": [], "z": 0.0, "style": "basis", "skip": False}])
W_ACCUM = dict(W_ADA, steps=[{"norms": [0.5, 0.1, 0.2], "z": 0.0, "style": "basis", "skip": True},
                             {"norms": [5.0], "z": 0.0, "style": "basis", "skip": False}])


def detect_variants(ctx):
    """Replay the Lean witnesses on the real code to learn which behaviour this tree implements.
    Anything unexpected (construction refused, step raised, other value) is left as `asCoded`: the
    correspondence then breaks and reports it."""
    def first(case, idx=0):
        try:
            res = run_real(case)
            return res[1][idx] if res[0] == "ok" and len(res[1]) > idx else {"kind": "none"}
        except Exception as e:  # noqa: BLE001
            return {"kind": "crash:" + type(e).__name__}

    v = {}
    o = first(W_ADA)
    rec = o["recorded"][0] if o.get("recorded") else float("nan")
    v["ada-acct"] = "repaired" if core.close(rec, 1.0, 1e-9) else "asCoded"
    o = first(W_GHOST)
    rec = o["recorded"][0] if o.get("recorded") else float("nan")
    v["ghost-acct"] = "repaired" if core.close(rec, 1.0, 1e-9) else "asCoded"
    o = first(W_EMPTY)
    v["ada-empty"] = "repaired" if o["kind"] == "rel" else "asCoded"
    o = first(W_ACCUM, 1)
    v["ada-accum"] = "repaired" if o.get("sampleSize") == 4 else "asCoded"
    return v


# ----------------------------------------------------------------------------- run
def case_key(case, outs):
    c = case["cfg"]
    sig = []
    for st, o in zip(case["steps"], outs):
        sig.append((len(st["norms"]), bool(st.get("skip")), o["kind"][:4], round(o.get("newC", 0.0), 6) if o["kind"] == "rel" else 0))
    return (case["impl"], bool(case.get("via_engine")), case["reduction"], c["sigma"], c["sigmaB"], c["eta"], c["gamma"], c["minC"], c["maxC"], case["C0"], tuple(sig))


def nontrivial(case, outs):
    C = case["C0"]
    for o in outs:
        if o["kind"] == "rel":
            n = np.asarray(o["norms"])
            prev = C if case["impl"] == "ghost" else o["clipUsed"]
            mixed = len(n) > 0 and 0 < int((n <= prev).sum()) < len(n)
            if mixed and o["newC"] != prev:
                return True
            C = o["newC"]
    return False


def ill_conditioned(case, outs, rel):
    """some norm lies within `rel` of the bound it is compared with at a step whose bound is itself a
    rounded quantity (any step after the first, or every step in float32): the count then depends on
    the last bits of exp/pow and model and implementation may legitimately differ"""
    C = case["C0"]
    for k, o in enumerate(outs):
        n = np.asarray(o.get("norms", []), dtype=float)
        if len(n) and (k > 0 or rel > 1e-8):
            slack = EPS if case["impl"] == "ada" else 0.0
            if np.any(np.abs(n + slack - C) <= rel * max(abs(C), 1e-300)):
                return True
        if o["kind"] == "rel":
            C = o["newC"]
    return False


def run_cases(ctx, cases, variants, known, tol=TOL, tag=""):
    reals = []
    for c in cases:
        res = run_real(c)
        reals.append(res)
    lines, spans = [], []
    for c, res in zip(cases, reals):
        norms = [o["norms"] for o in res[1]] if res[0] == "ok" else []
        ls = model_lines(c, variants, norms)
        spans.append((len(lines), len(ls)))
        lines += ls
    replies = ctx.lean_driver("C20", lines)
    for c, res, (a, n) in zip(cases, reals, spans):
        outs = res[1] if res[0] == "ok" else []
        kind = c["impl"] + ("/engine" if c.get("via_engine") else "") + "/" + c["reduction"] + tag
        ctx.case(case_key(c, outs), nontrivial=nontrivial(c, outs), sample={k: v for k, v in c.items()}, kind=kind)
        if res[0] != "ok":
            ctx.count("construct:" + res[0])
        for st, o in zip(c["steps"], outs):
            ctx.count("step:" + o["kind"].split(":")[0] + ("" if not o["kind"].startswith("err") else ":" + o["kind"].split(":")[1]))
            if o["kind"] == "rel":
                ctx.count("clamped" if o["newC"] in (c["cfg"]["minC"], c["cfg"]["maxC"]) else "unclamped")
        bad = compare_case(c, res[0], outs, replies[a:a + n], tol)
        if bad is None:
            ctx.validated()
        elif ill_conditioned(c, outs, 1e-4 if tol > 1e-8 else 1e-9):
            ctx.count("ill-conditioned-skipped" + tag)
        else:
            ctx.mismatch("adaclip" if c["impl"] == "ada" else "ghost-adaptive", c,
                         {"construct": res[0], "steps": [strip(o) for o in outs]}, replies[a:a + n],
                         oracle=lambda cc: oracle_first(cc, known), note=bad + (" [" + tag + "]" if tag else ""))


def small_scope_cases():
    import itertools
    out = []
    cfg = {"sigma": 0.05, "sigmaB": 1.0, "eta": 0.5, "gamma": 0.5, "minC": 0.25, "maxC": 3.0}
    for impl in ("ada", "ghost"):
        for B in (1, 2, 3):
            for pat in itertools.product((0.5, 1.0, 2.0), repeat=B):
                for zf in (-1.0, 0.0, None):
                    z = 0.5 if zf is None else zf * B
                    first = {"norms": [1.5 * f for f in pat], "z": z, "style": "basis", "skip": False}
                    second = {"norms": [0.3, 1.2, 2.9, 0.7], "z": 0.25, "style": "dense", "skip": False}
                    for skip in ((False, True) if impl == "ada" else (False,)):
                        out.append({"impl": impl, "cfg": dict(cfg), "C0": 1.5, "d": 4, "reduction": "sum", "via_engine": False,
                                    "steps": [dict(first, skip=skip), second]})
    return out


def count_noise_variance_oracle(secure, sb=3.0):
    """The unclipped count is perturbed by Gaussian noise of the CONFIGURED standard deviation: whatever combination of
    torch.normal draws the optimizer uses (one draw; in secure mode possibly several), the variance it adds to the count,
    Σ_k (response of the released count to one standard deviation of draw k)², must be unclipped_num_std²."""
    from opacus import GradSampleModule
    from opacus.optimizers import AdaClipDPOptimizer

    def run(mode):
        torch.manual_seed(1)
        model = nn.Linear(3, 1, bias=False)
        gsm = GradSampleModule(model)
        opt = AdaClipDPOptimizer(torch.optim.SGD(model.parameters(), lr=0.0), noise_multiplier=1.0, max_grad_norm=1.0, expected_batch_size=4, target_unclipped_quantile=0.5,
                                 clipbound_learning_rate=0.2, max_clipbound=10.0, min_clipbound=0.1, unclipped_num_std=sb, secure_mode=secure)
        gsm(torch.tensor([[3.0, 0, 0], [0.1, 0, 0], [0, 0.2, 0], [0, 0, 5.0]])).sum().backward()
        opt.clip_and_accumulate()
        exact = float(opt.unclipped_num)
        with rig.patched_normal(mode) as log:
            opt.add_noise()
        return float(opt.unclipped_num) - exact, [int(np.prod(c[1])) if len(c[1]) else 1 for c in log.calls]

    _, sizes = run("zero")
    K = len(sizes)
    var = sum(run(("unit", k + 1, j))[0] ** 2 for k, n in enumerate(sizes) for j in range(n))
    if not core.close(var, sb * sb, 1e-9):
        return ("C20:count-noise-std:" + ("secure" if secure else "plain"), f"AdaClipDPOptimizer(secure_mode={secure}, unclipped_num_std={sb}): the {K} torch.normal calls ({sum(sizes)} Gaussian coordinates) of one step add variance {var:.6g} "
                f"to the released unclipped count (std {var ** 0.5:.4g}), configured {sb}", {"failing_input": {"oracle": "count-noise-variance", "secure": secure}})
    return None


def state_dict_roundtrip_oracle(sigma=1.2, sb=3.0):
    """optimizer.state_dict() -> fresh AdaClipDPOptimizer -> load_state_dict(): whatever the state dict carries, every later step
    still adds gradient noise of std (sigma^-2 - (2 sigma_b)^-2)^(-1/2) x the bound the step clipped with, and count noise of
    std sigma_b."""
    from opacus import GradSampleModule
    from opacus.optimizers import AdaClipDPOptimizer

    def make():
        torch.manual_seed(1)
        model = nn.Linear(3, 1, bias=False)
        gsm = GradSampleModule(model)
        opt = AdaClipDPOptimizer(torch.optim.SGD(model.parameters(), lr=0.1, momentum=0.9), noise_multiplier=sigma, max_grad_norm=1.0, expected_batch_size=4,
                                 target_unclipped_quantile=0.5, clipbound_learning_rate=0.2, max_clipbound=10.0, min_clipbound=0.1, unclipped_num_std=sb)
        return gsm, opt

    x = torch.tensor([[3.0, 0, 0], [0.1, 0, 0], [0, 0.2, 0], [0, 0, 5.0]])
    want = (sigma ** -2 - (2 * sb) ** -2) ** -0.5

    def step(gsm, opt):
        opt.zero_grad()
        gsm(x).sum().backward()
        c = float(opt.max_grad_norm)
        with rig.patched_normal("zero") as log:
            opt.step()
        gstd = [st for st, sz, _ in log.calls if len(sz) == 2]
        cstd = [st for st, sz, _ in log.calls if len(sz) != 2]
        return c, gstd, cstd

    g1, o1 = make()
    for _ in range(3):
        step(g1, o1)
    sd = o1.state_dict()
    g2, o2 = make()
    g2._module.load_state_dict(g1._module.state_dict())
    o2.load_state_dict(sd)
    for k in range(2):
        c, gstd, cstd = step(g2, o2)
        if not gstd or any(not core.close(s_, want * c, 1e-5) for s_ in gstd) or any(not core.close(s_, sb, 1e-5) for s_ in cstd):
            return ("C20:grad-noise-std:after-load_state_dict", f"AdaClipDPOptimizer(noise_multiplier={sigma}, unclipped_num_std={sb}) after state_dict() -> fresh optimizer -> load_state_dict(): "
                    f"step {k} clipped with C={c} and requested gradient-noise std {gstd} (required {want * c}), count-noise std {cstd} (required {sb})",
                    {"failing_input": {"oracle": "state-dict-roundtrip"}})
    return None


def regenerate(ctx):
    from .. import regen
    from . import c20_trans as T
    regen.regenerate(ctx, T, "Opacus.Generated.AdaClip", "optimizers/adaclipoptimizer.py")


def run(ctx):
    regenerate(ctx)
    for secure in (False, True):
        ctx.count("search:count-noise-variance")
        res = count_noise_variance_oracle(secure)
        if res:
            ctx.property_failure(res[0], res[1], res[2])
    ctx.count("search:state-dict-roundtrip")
    res = state_dict_roundtrip_oracle()
    if res:
        ctx.property_failure(res[0], res[1], res[2])
    known = {f["key"] for f in ctx.findings if f.get("status") == "known"}
    with rig.default_dtype(torch.float64):
        variants = detect_variants(ctx)
        ctx.variant.update(variants)
        ctx.log("variants implemented by this tree:", variants)
        # correspondence
        n = ctx.n(160, 10000)
        cases = []
        for i in range(n):
            impl = "ghost" if i % 5 in (1, 3) else "ada"
            cases.append(gen_case(ctx.rng, impl, ctx.n(6, 12)))
        for w in (W_ADA, W_GHOST, W_EMPTY, W_ACCUM):
            cases.append(w)
        run_cases(ctx, cases, variants, known)
        if ctx.thorough:
            small = small_scope_cases()
            ctx.extra["exhaustive_small_scope"] = f"{len(small)} cases: both implementations, every batch of ≤3 norms over {{C/2, C (boundary), 2C}} × z ∈ {{−B, 0, ½}} (+ every skip/release split for AdaClip), followed by a second mixed batch"
            run_cases(ctx, small, variants, known, tag="/small-scope")
    # the configuration users actually run: default dtype float32 (count, fraction, exp in float32)
    with rig.default_dtype(torch.float32):
        cases32 = [gen_case(ctx.rng, "ghost" if i % 2 else "ada", 4) for i in range(ctx.n(24, 400))]
        run_cases(ctx, cases32, variants, known, tol=2e-5, tag="/float32")
    with rig.default_dtype(torch.float64):
        # Lean counterexample witnesses replayed on the real code (property oracle, no model)
        for w in (W_ADA, W_GHOST, W_EMPTY, W_ACCUM):
            for f in oracle_all(w):
                ctx.property_failure(f[0], f[1], f[2])
        # failing-input search with the property oracle
        for i in range(ctx.n(60, 3000)):
            impl = "ghost" if i % 3 == 1 else "ada"
            c = gen_case(ctx.rng, impl, ctx.n(5, 10))
            ctx.count("search:rule+accounting")
            fs = oracle_all(c)
            for f in fs:
                ctx.property_failure(f[0], f[1], f[2])
            if i % 2 == 0:
                ctx.count("search:raw-count-noninterference")
                for f in nonint_oracle(c, ctx.rng.randrange(1 << 30)):
                    ctx.property_failure(f[0], f[1], f[2])


def replay(ctx, rp):
    known = {f["key"] for f in ctx.findings if f.get("status") == "known"}
    dt = torch.float32 if "float32" in str(rp.get("note", "")) + str(rp.get("dtype", "")) else torch.float64
    with rig.default_dtype(dt):
        c = rp.get("failing_input") or rp.get("case")
        fs = oracle_all(c) + nonint_oracle(c, 7)
        want = rp.get("key")
        hit = [f for f in fs if f[0] == want] if want else [f for f in fs if f[0] not in known]
        if hit:
            for f in hit:
                print("REPRODUCED:", f[0], f[1])
                ctx.violations.append(f[0])
            return
        if rp.get("kind") == "correspondence-break":
            variants = detect_variants(ctx)
            res = run_real(c)
            norms = [o["norms"] for o in res[1]] if res[0] == "ok" else []
            replies = ctx.lean_driver("C20", model_lines(c, variants, norms))
            bad = compare_case(c, res[0], res[1] if res[0] == "ok" else [], replies, 2e-5 if dt == torch.float32 else TOL)
            if bad:
                print("REPRODUCED: correspondence break:", bad)
                ctx.violations.append("corr")
                return
        print("not reproduced on this tree")
