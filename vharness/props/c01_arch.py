"""C01 helper: random architectures over the supported layer set, built from a JSON-able spec, and the
property oracle on the REAL code (no model involved): per-sample gradients of a GradSampleModule in
hooks / functorch / ew mode vs micro-batch autograd (each sample alone through the unwrapped model).

A spec is
  {"kind": input kind, "shape": per-sample input shape, "B": batch size, "batch_first": bool,
   "mode": "hooks"|"functorch"|"ew", "reduction": "mean"|"sum", "seed": int,
   "layers": [ {"t": <layer type>, …hyper-parameters…, "freeze": [names]} … ]}
Input kinds: vec (F) · seq (T,F) · c1 (C,L) · c2 (C,H,W) · c3 (C,D,H,W) · tok (T) integer tokens ·
bag (1-D index + offsets for nn.EmbeddingBag).
"""
from __future__ import annotations

import copy
import math

import torch
import torch.nn as nn
import torch.nn.functional as F


# --------------------------------------------------------------------------- glue modules (no parameters)
# eps of the normalisation layers in generated architectures: the default, and values large / small enough that a sampler
# which normalises with another eps than the layer's is off by far more than the comparison tolerance
NORM_EPS = [1e-5, 1e-5, 1e-2, 0.3, 1e-12]

class Act(nn.Module):
    def __init__(self, f):
        super().__init__()
        self.f = f

    def forward(self, x):
        return {"tanh": torch.tanh, "sigmoid": torch.sigmoid, "softplus": F.softplus, "relu": torch.relu, "gelu": F.gelu}[self.f](x)


class Transpose12(nn.Module):
    """(B,T,F) <-> (B,F,T): a non-contiguous view"""

    def forward(self, x):
        return x.transpose(1, 2)


class TransposeHW(nn.Module):
    def forward(self, x):
        return x.transpose(-1, -2)


_CL_IDENTITY = [False]   # reference self-check: with the layout conversion switched off the function is the same


class ChannelsLast(nn.Module):
    def forward(self, x):
        if _CL_IDENTITY[0]:
            return x
        return x.contiguous(memory_format=torch.channels_last if x.dim() == 4 else torch.channels_last_3d)


class Contiguous(nn.Module):
    def forward(self, x):
        return x.contiguous()


class SliceView(nn.Module):
    """every second element of the last axis: a strided view"""

    def forward(self, x):
        return x[..., ::2]


class ExpandView(nn.Module):
    """(B,C,1,W)-style broadcast view over the H axis of an image: stride 0"""

    def __init__(self, h):
        super().__init__()
        self.h = h

    def forward(self, x):
        return x[..., :1, :].expand(*x.shape[:-2], self.h, x.shape[-1])


class Flatten(nn.Module):
    def forward(self, x):
        return x.reshape(x.shape[0], -1)


class First(nn.Module):
    """RNN / attention layers return tuples"""

    def __init__(self, m, self_attn=False, kpm=False):
        super().__init__()
        self.m = m
        self.self_attn = self_attn
        self.kpm = kpm

    def forward(self, x):
        if self.self_attn and self.kpm:
            # a key-padding mask that is a function of the SAMPLE's own input (so the sample-alone run uses the same
            # row): key s of sample b is padded iff x[s, b, 0] > 0.3 (sequence-first layout); key 0 is never padded
            mask = (x[..., 0] > 0.3).transpose(0, 1).clone()
            mask[:, 0] = False
            return self.m(x, x, x, key_padding_mask=mask)[0]
        out = self.m(x, x, x) if self.self_attn else self.m(x)
        return out[0]


class Residual(nn.Module):
    """container without parameters of its own: x + block(x)"""

    def __init__(self, block):
        super().__init__()
        self.block = block

    def forward(self, x):
        return x + self.block(x)


# --------------------------------------------------------------------------- custom trainable layers (functorch fallback)
class Affine(nn.Module):
    """row-wise custom layer with its own parameters: x * scale + sin(x) * shift"""

    def __init__(self, f):
        super().__init__()
        self.scale = nn.Parameter(torch.randn(f))
        self.shift = nn.Parameter(torch.randn(f))

    def forward(self, x):
        return x * self.scale + torch.sin(x) * self.shift


class Bilinear2(nn.Module):
    """custom layer with a parameter of its own AND a child nn.Linear (handled as one functorch unit)"""

    def __init__(self, f):
        super().__init__()
        self.gate = nn.Parameter(torch.randn(f))
        self.lin = nn.Linear(f, f)

    def forward(self, x):
        return self.lin(x) * torch.tanh(self.gate) + x


class SubLinear(nn.Linear):
    """a user subclass of a SUPPORTED layer with its own forward (non-linear in the weight): it must
    be served by the generic (functorch) fallback, not by nn.Linear's closed-form sampler"""

    def __init__(self, f):
        super().__init__(f, f)

    def forward(self, x):
        return F.linear(torch.tanh(x), self.weight * self.weight, self.bias) + x


class SubConv2d(nn.Conv2d):
    """weight-standardised convolution: subclass of a supported layer with an overridden forward"""

    def forward(self, x):
        w = self.weight - self.weight.mean(dim=(1, 2, 3), keepdim=True)
        return F.conv2d(x, w, self.bias, self.stride, self.padding, self.dilation, self.groups)


class Seq(nn.Module):
    """like nn.Sequential but a layer object may occur several times (tied / reused)"""

    def __init__(self, mods, order):
        super().__init__()
        self.mods = nn.ModuleList(mods)
        self.order = order

    def forward(self, x, *rest):
        for k, i in enumerate(self.order):
            x = self.mods[i](x, *rest) if k == 0 and rest else self.mods[i](x)
        return x


# --------------------------------------------------------------------------- building
def conv_out(n, k, s, p, d):
    if p == "same":
        return n
    if p == "valid":
        p = 0
    return (n + 2 * p - d * (k - 1) - 1) // s + 1


def build_layer(L, batch_first=True):
    from opacus.layers import DPGRU, DPLSTM, DPRNN, DPMultiheadAttention

    t = L["t"]
    if t == "Linear":
        m = nn.Linear(L["in"], L["out"], bias=L.get("bias", True))
    elif t == "Act":
        m = Act(L["f"])
    elif t == "LayerNorm":
        m = nn.LayerNorm(L["nshape"], eps=L.get("eps", 1e-5), bias=L.get("bias", True))
    elif t == "GroupNorm":
        m = nn.GroupNorm(L["groups"], L["C"], eps=L.get("eps", 1e-5))
    elif t == "InstanceNorm":
        m = {1: nn.InstanceNorm1d, 2: nn.InstanceNorm2d, 3: nn.InstanceNorm3d}[L["nd"]](L["C"], affine=True, eps=L.get("eps", 1e-5))
    elif t == "Conv":
        cls = {1: nn.Conv1d, 2: nn.Conv2d, 3: nn.Conv3d}[L["nd"]]
        tup = lambda v: v if isinstance(v, str) else tuple(v)
        m = cls(L["in"], L["out"], tuple(L["k"]), stride=tuple(L["s"]), padding=tup(L["p"]), dilation=tuple(L["d"]),
                groups=L["g"], bias=L.get("bias", True), padding_mode=L.get("pm", "zeros"))
    elif t == "Embedding":
        m = nn.Embedding(L["V"], L["D"], padding_idx=L.get("pad"))
    elif t == "EmbeddingBag":
        m = nn.EmbeddingBag(L["V"], L["D"], mode=L["mode"])
    elif t == "RNN":
        cls = {"lstm": DPLSTM, "gru": DPGRU, "rnn": DPRNN}[L["cell"]]
        kw = dict(num_layers=L.get("layers", 1), bidirectional=L.get("bidir", False), bias=L.get("bias", True), batch_first=batch_first)
        if L["cell"] == "rnn":
            kw["nonlinearity"] = L.get("nonlin", "tanh")
        m = First(cls(L["in"], L["hidden"], **kw))
    elif t == "MHA":
        m = First(DPMultiheadAttention(L["E"], L["heads"], bias=L.get("bias", True), add_bias_kv=L.get("bias_kv", False),
                                       add_zero_attn=L.get("zero_attn", False)), self_attn=True, kpm=L.get("kpm", False))
    elif t == "Affine":
        m = Affine(L["F"])
    elif t == "Bilinear2":
        m = Bilinear2(L["F"])
    elif t == "SubLinear":
        m = SubLinear(L["F"])
    elif t == "SubConv2d":
        m = SubConv2d(L["C"], L["C"], 3, padding=1)
    elif t == "Residual":
        m = Residual(build_layer(L["block"], batch_first))
    elif t == "Transpose12":
        m = Transpose12()
    elif t == "TransposeHW":
        m = TransposeHW()
    elif t == "ChannelsLast":
        m = ChannelsLast()
    elif t == "Contiguous":
        m = Contiguous()
    elif t == "SliceView":
        m = SliceView()
    elif t == "ExpandView":
        m = ExpandView(L["h"])
    elif t == "Flatten":
        m = Flatten()
    else:
        raise ValueError(t)
    for n, p in m.named_parameters():
        if n in L.get("freeze", []) or L.get("freeze") == "all":
            p.requires_grad_(False)
    return m


def build_model(spec):
    """deterministic in spec['seed'] (weights are O(1) float64)"""
    g = torch.random.fork_rng()
    with g:
        torch.manual_seed(spec["seed"])
        mods, order = [], []
        for L in spec["layers"]:
            if L["t"] == "Reuse":
                order.append(order[L["ref"]])
            else:
                mods.append(build_layer(L, spec.get("batch_first", True)))
                order.append(len(mods) - 1)
        model = Seq(mods, order).double()
        with torch.no_grad():
            for p in model.parameters():
                p.copy_(torch.randn_like(p) * 0.7 + 0.1)
            for L, i in zip(spec["layers"], order):
                m = mods[i]
                if isinstance(m, nn.Embedding) and m.padding_idx is not None and not L.get("pad_row_nonzero"):
                    m.weight[m.padding_idx].zero_()
    model.train()
    return model


def make_input(spec):
    with torch.random.fork_rng():
        torch.manual_seed(spec["seed"] + 7919)
        B, k, shp = spec["B"], spec["kind"], list(spec["shape"])
        bf = spec.get("batch_first", True)
        if k == "tok":
            x = torch.randint(0, spec["V"], [B] + shp)
            if spec.get("force_token") is not None and x.numel():
                x.view(-1)[:: max(1, x.numel() // 3)] = spec["force_token"]
            return (x,) if bf else (x.transpose(0, 1).contiguous(),)
        if k == "bag":
            lens = spec["bag_lens"]
            if spec.get("bag_dup"):
                idx = torch.randint(0, spec["V"], (sum(lens),))
            else:  # duplicate-free bags
                idx = torch.cat([torch.randperm(spec["V"])[:ln] for ln in lens]) if lens else torch.zeros(0, dtype=torch.long)
            if spec.get("bag_dup") and len(idx) >= 2:
                # guarantee a repeated token inside the first bag that has >= 2 entries
                o = 0
                for ln in lens:
                    if ln >= 2:
                        idx[o + 1] = idx[o]
                        break
                    o += ln
            off = torch.tensor([sum(lens[:i]) for i in range(len(lens))], dtype=torch.long)
            return (idx, off)
        x = torch.randn([B] + shp, dtype=torch.float64)
        if not bf:
            x = x.transpose(0, 1).contiguous()
        lay = spec.get("in_layout", "contiguous")
        if lay == "channels_last" and x.dim() == 4:
            x = x.contiguous(memory_format=torch.channels_last)
        elif lay == "channels_last" and x.dim() == 5:
            x = x.contiguous(memory_format=torch.channels_last_3d)
        elif lay == "transposed" and x.dim() >= 3:
            x = x.transpose(-1, -2).contiguous().transpose(-1, -2)
        return (x,)


def batch_size(spec, inputs):
    if spec["kind"] == "bag":
        return len(spec["bag_lens"])
    return inputs[0].shape[0 if spec.get("batch_first", True) else 1]


def sample_of(spec, inputs, i):
    if spec["kind"] == "bag":
        idx, off = inputs
        lens = spec["bag_lens"]
        s = int(off[i])
        return (idx[s : s + lens[i]], torch.zeros(1, dtype=torch.long))
    bd = 0 if spec.get("batch_first", True) else 1
    return (inputs[0].narrow(bd, i, 1),)


def out_batch_dim(spec, out):
    if spec["kind"] == "bag" or spec.get("batch_first", True) or out.dim() < 2:
        return 0
    return 1


def wrap(model, spec):
    from opacus.grad_sample import GradSampleModule, GradSampleModuleExpandedWeights

    mode = spec["mode"]
    if mode == "ew":
        return GradSampleModuleExpandedWeights(model, batch_first=spec.get("batch_first", True), loss_reduction=spec["reduction"])
    return GradSampleModule(model, batch_first=spec.get("batch_first", True), loss_reduction=spec["reduction"],
                            force_functorch=(mode == "functorch"))


def cotangent(spec, out):
    with torch.random.fork_rng():
        torch.manual_seed(spec["seed"] + 104729)
        return torch.randn(out.shape, dtype=out.dtype)


class Rejected(Exception):
    """the mode (or the unwrapped model) does not accept this model/input: not a property case"""


def per_sample_grads_gsm(spec):
    """returns (dict name -> [B,*shape] tensor | None, dict name -> p.grad, B)"""
    model = build_model(spec)
    inputs = make_input(spec)
    B = batch_size(spec, inputs)
    gsm = wrap(model, spec)
    out = gsm(*inputs)
    w = cotangent(spec, out)
    bd = out_batch_dim(spec, out)
    per = (out * w).transpose(0, bd).reshape(B, -1).sum(1) if out.dim() > 1 or bd else (out * w)
    loss = per.mean() if spec["reduction"] == "mean" else per.sum()
    loss.backward()
    gs, gr = {}, {}
    for n, p in model.named_parameters():
        if p.requires_grad:
            v = getattr(p, "grad_sample", None)
            gs[n] = None if v is None else (v if isinstance(v, list) else v.detach().clone())
            gr[n] = None if p.grad is None else p.grad.detach().clone()
    return gs, gr, B


def micro_batch_grads(spec, _selfcheck=True):
    """each sample alone through the unwrapped model, same cotangent slice; returns name -> [B,*shape]"""
    if _selfcheck and any(l.get("t") == "ChannelsLast" for l in spec.get("layers", [])):
        # a memory-layout conversion does not change the function: plain torch must give the same micro-batch gradients
        # with and without it.  It does not for instance_norm / group_norm backward fed a channels_last cotangent (torch 2.x,
        # CPU) - at B = 1 the batch-vs-micro-batch self-check below cannot see that, this one can.  Outside the trusted base.
        _CL_IDENTITY[0] = True
        try:
            ref2 = micro_batch_grads(spec, _selfcheck=False)
        finally:
            _CL_IDENTITY[0] = False
        ref1 = micro_batch_grads(spec, _selfcheck=False)
        for n, a in ref1[0].items():
            b = ref2[0].get(n)
            if a is None or b is None:
                continue
            if a.shape != b.shape or not bool(((a - b).abs() <= 1e-8 * max(1.0, float(b.abs().max()) if b.numel() else 1.0)).all()):
                raise Rejected(f"reference inconsistent: plain-torch gradient of {n} changes when a memory-layout conversion is switched off")
        return ref1
    model = build_model(spec)
    inputs = make_input(spec)
    B = batch_size(spec, inputs)
    names = [n for n, p in model.named_parameters() if p.requires_grad]
    params = [p for n, p in model.named_parameters() if p.requires_grad]
    out = model(*inputs)
    w = cotangent(spec, out)
    bd = out_batch_dim(spec, out)
    res = {n: [] for n in names}
    for i in range(B):
        o = model(*sample_of(spec, inputs, i))
        wi = w.narrow(bd, i, 1)
        gi = torch.autograd.grad((o * wi).sum(), params, allow_unused=True)
        for n, p, g in zip(names, params, gi):
            res[n].append(torch.zeros_like(p) if g is None else g.detach())
    # sanity of the reference itself (plain torch, no Opacus): the micro-batch gradients must sum to
    # the ordinary batch gradient of the summed loss, otherwise torch's autograd is inconsistent with
    # itself on this model (e.g. instance_norm backward with a channels_last grad at B=1, torch 2.x)
    # or the model is not row-wise; such a case is outside the trusted base and is skipped
    if B > 0:
        gb = torch.autograd.grad((out * w).sum(), params, allow_unused=True)
        for n, p, g in zip(names, params, gb):
            g = torch.zeros_like(p) if g is None else g
            tot = torch.stack(res[n]).sum(0)
            if not bool(((tot - g).abs() <= 1e-8 * max(1.0, float(g.abs().max()))).all()):
                raise Rejected(f"reference inconsistent: plain-torch batch gradient of {n} != sum of micro-batch gradients")
    # batch-vs-alone forward consistency (row-wise precondition of the property)
    rowwise = True
    for i in range(B):
        o = model(*sample_of(spec, inputs, i))
        if not torch.allclose(o, out.narrow(bd, i, 1), rtol=1e-9, atol=1e-11):
            rowwise = False
    return {n: (torch.stack(v) if v else None) for n, v in res.items()}, B, rowwise, model, inputs


def owner_of(model, pname):
    mod = model
    parts = pname.split(".")[:-1]
    for a in parts:
        mod = getattr(mod, a) if not a.isdigit() else mod[int(a)]
    return mod


def padded_is_row_major(conv, x):
    """is the activation handed to unfold2d row-major in its last two axes after F.pad?"""
    if isinstance(conv.padding, str):
        pads = [0, 0, 0, 0] if conv.padding == "valid" else None
        if pads is None:
            th, tw = conv.dilation[0] * (conv.kernel_size[0] - 1), conv.dilation[1] * (conv.kernel_size[1] - 1)
            pads = [tw // 2, tw - tw // 2, th // 2, th - th // 2]
    else:
        pads = [conv.padding[1], conv.padding[1], conv.padding[0], conv.padding[0]]
    xp = F.pad(x, pads)
    st = xp.stride()
    return st[-1] == 1 and st[-2] == xp.shape[-1]


def classify(spec, model, inputs, pname, crash=None):
    """stable key for a failure at parameter `pname` (owner layer type + the minimal configuration
    signature that matters for the defects known so far; anything else gets a generic key)."""
    mode = spec["mode"]
    if pname is None:
        return f"C01:{mode}:crash:{crash}"
    mod = pname[2] if isinstance(pname, tuple) else owner_of(model, pname)
    tn = type(mod).__name__
    sig = []
    if isinstance(mod, nn.Embedding) and mod.padding_idx is not None:
        sig.append("padding_idx")
    if isinstance(mod, nn.EmbeddingBag):
        idx, off = inputs
        lens = spec["bag_lens"]
        o, dup = 0, False
        for ln in lens:
            seg = idx[o : o + ln].tolist()
            dup |= len(set(seg)) < len(seg)
            o += ln
        if dup:
            sig.append("repeated-index-in-bag")
    if isinstance(mod, (nn.Conv1d, nn.Conv2d, nn.Conv3d)):
        tn = "ConvNd"
        if mod.padding_mode != "zeros":
            sig.append("padding_mode!=zeros")
        elif isinstance(mod, nn.Conv2d):
            seen = []
            h = mod.register_forward_pre_hook(lambda m, a: seen.append(a[0]))
            try:
                with torch.no_grad():
                    model(*inputs)
            finally:
                h.remove()
            if any(not padded_is_row_major(mod, a) for a in seen):
                sig.append("non-row-major-activation")
    if isinstance(mod, (nn.Embedding, nn.EmbeddingBag)) and spec.get("default_dtype", "float64") != "float64":
        sig.append("dtype!=default")
    if isinstance(mod, nn.LayerNorm) and mod.bias is None:
        sig.append("bias=None")
    if crash:
        sig.append(crash)
    return f"C01:{mode}:{tn}:" + (",".join(sig) if sig else "value")


def oracle(spec, tol=1e-8):
    """None if the property holds at `spec` (or the case is rejected by the mode / not row-wise),
    else (key, what, replay).  `spec["default_dtype"]` (float64 unless given) is torch's default
    dtype during the run; the model itself is always float64."""
    old = torch.get_default_dtype()
    torch.set_default_dtype(getattr(torch, spec.get("default_dtype", "float64")))
    try:
        return _oracle(spec, tol)
    finally:
        torch.set_default_dtype(old)


def _oracle(spec, tol):
    try:
        ref, B, rowwise, model, inputs = micro_batch_grads(spec)
    except Exception as e:
        raise Rejected(f"unwrapped model rejects the input: {type(e).__name__}: {e}")
    if not rowwise:
        raise Rejected("model is not row-wise on this input")
    try:
        gs, gr, B2 = per_sample_grads_gsm(spec)
    except Exception as e:
        msg = f"{type(e).__name__}: {e}"
        if spec["mode"] == "ew" or isinstance(e, NotImplementedError) and spec["mode"] != "hooks":
            raise Rejected("mode rejects the model: " + msg)
        # hooks/functorch crashed on a model the unwrapped code runs: the layer is the `module`
        # local of the hook frame on the traceback
        import traceback

        tb = traceback.format_exc()
        pname, t = None, e.__traceback__
        crashed = None
        while t is not None:
            if t.tb_frame.f_code.co_name in ("capture_backprops_hook", "capture_activations_hook"):
                crashed = t.tb_frame.f_locals.get("module")
            t = t.tb_next
        if crashed is not None:
            tname = type(crashed).__name__
            pname = (tname, "", crashed)
        key = classify(spec, model, inputs, pname, crash=type(e).__name__)
        return key, f"{spec['mode']} mode raises {msg[:200]} on a model the unwrapped code runs", {"trace": tb[-1200:]}
    red = spec["reduction"]
    for n, r in ref.items():
        v = gs.get(n)
        if isinstance(v, list):
            return classify(spec, model, inputs, n) + ":list", f"grad_sample of {n} is a list after one backward", {}
        if v is None:
            return classify(spec, model, inputs, n) + ":missing", f"no grad_sample for trainable parameter {n}", {}
        if B == 0:
            if tuple(v.shape) != (0,) + tuple(r.shape[1:] if r is not None else owner_shape(model, n)):
                return classify(spec, model, inputs, n) + ":empty-shape", f"empty batch: grad_sample shape {tuple(v.shape)}", {}
            continue
        if v.dtype != r.dtype:
            return classify(spec, model, inputs, n) + ":dtype", f"{n}: grad_sample has dtype {v.dtype}, the parameter {r.dtype}", {"param": n}
        if tuple(v.shape) != tuple(r.shape):
            return classify(spec, model, inputs, n) + ":shape", f"{n}: grad_sample shape {tuple(v.shape)} vs {tuple(r.shape)}", {}
        scale = max(1.0, float(r.abs().max()))
        diff = (v.double() - r).abs()
        if not bool((diff <= tol * scale).all()):
            i = int(diff.reshape(B, -1).max(1).values.argmax())
            return (classify(spec, model, inputs, n),
                    f"{n}: grad_sample[{i}] differs from the gradient of sample {i} alone by {float(diff.max()):.3g} (scale {scale:.3g})",
                    {"param": n, "sample": i, "max_abs_diff": float(diff.max()),
                     "got": v[i].flatten()[:8].tolist(), "expected": r[i].flatten()[:8].tolist()})
        # the per-sample gradients sum to the ordinary batch gradient
        g = gr.get(n)
        if g is not None:
            tot = v.double().sum(0)
            exp = g * (B if red == "mean" else 1)
            sc = max(1.0, float(exp.abs().max()))
            if not bool(((tot - exp).abs() <= 10 * tol * sc).all()):
                return (classify(spec, model, inputs, n) + ":sum",
                        f"{n}: sum of per-sample gradients differs from the batch gradient by {float((tot-exp).abs().max()):.3g}", {"param": n})
    return None


def owner_shape(model, n):
    return dict(model.named_parameters())[n].shape


# --------------------------------------------------------------------------- generator
def _pick_conv(rng, nd, cin, spatial, allow_defects):
    g = rng.choice([1, 1, 2, cin]) if cin > 1 else 1
    if cin % g:
        g = 1
    out = g * rng.randint(1, 2)
    k, s, d, p = [], [], [], []
    for n in spatial:
        kk = rng.randint(1, min(3, n))
        dd = rng.choice([1, 1, 2]) if (kk - 1) * 2 + 1 <= n else 1
        ss = rng.choice([1, 1, 2, 3])
        pp = rng.choice([0, 0, 1, 2])
        k.append(kk); s.append(ss); d.append(dd); p.append(pp)
    pad = p
    r = rng.random()
    if r < 0.15:
        pad, s = "same", [1] * nd
    elif r < 0.25:
        pad = "valid"
    pm = "zeros"
    if allow_defects and rng.random() < 0.12:
        pm = rng.choice(["reflect", "circular", "replicate"])
        if pad in ("same", "valid"):
            pad = [1] * nd
        pad = [min(pp if pp else 1, n - 1) for pp, n in zip(pad, spatial)]
        if any(pp < 1 for pp in pad):
            pm, pad = "zeros", p
    L = {"t": "Conv", "nd": nd, "in": cin, "out": out, "k": k, "s": s, "p": pad, "d": d, "g": g, "bias": rng.random() < 0.7, "pm": pm}
    if pad == "same":
        osp = list(spatial)
    else:
        pl = [0] * nd if pad == "valid" else pad
        osp = [conv_out(n, kk, ss, pp, dd) for n, kk, ss, pp, dd in zip(spatial, k, s, pl, d)]
    if any(o < 1 for o in osp):
        return None
    return L, [out] + osp


def gen_spec(rng, allow_defects=True, mode=None):
    mode = mode or rng.choice(["hooks", "hooks", "hooks", "functorch", "ew"])
    bf = True if mode == "ew" else rng.random() < 0.8
    kind = rng.choice(["vec", "seq", "seq", "c1", "c2", "c2", "c3", "tok", "bag"] if bf else ["seq", "seq", "tok"])
    B = rng.choice([1, 2, 3, 3, 4, 5])
    spec = {"mode": mode, "batch_first": bf, "reduction": rng.choice(["mean", "sum"]), "B": B, "seed": rng.randrange(10**6), "kind": kind}
    layers = []
    if kind == "bag":
        V, D = rng.randint(2, 6), rng.randint(1, 3)
        lens = [rng.randint(1 if mode != "hooks" else 0, 4) for _ in range(B)]
        if sum(lens) == 0:
            lens[0] = 2
        if lens[0] == 0:
            lens[0] = 1
        spec.update(shape=[], V=V, bag_lens=lens, bag_dup=allow_defects and rng.random() < 0.3, mode="hooks")
        if not spec["bag_dup"]:
            # without the dup flag make every bag duplicate-free: tokens drawn without replacement
            spec["bag_lens"] = [min(l, V) for l in lens]
        layers.append({"t": "EmbeddingBag", "V": V, "D": D, "mode": rng.choice(["sum", "mean"])})
        layers.append({"t": "Linear", "in": D, "out": rng.randint(1, 3)})
        spec["layers"] = layers
        return spec
    if kind == "vec":
        shape = [rng.randint(1, 5)]
    elif kind == "seq":
        shape = [rng.randint(1, 4), rng.randint(1, 4)]
    elif kind == "c1":
        shape = [rng.choice([1, 2, 4]), rng.randint(2, 7)]
    elif kind == "c2":
        shape = [rng.choice([1, 2, 4]), rng.randint(2, 6), rng.randint(2, 6)]
    elif kind == "c3":
        shape = [rng.choice([1, 2]), rng.randint(2, 4), rng.randint(2, 4), rng.randint(2, 4)]
    else:
        shape = [rng.randint(1, 4)]
        spec["V"] = rng.randint(2, 6)
    spec["shape"] = list(shape)
    if kind in ("c2", "c3") and allow_defects and rng.random() < 0.12:
        spec["in_layout"] = rng.choice(["channels_last", "transposed"])
    cur, k = list(shape), kind
    n_layers = rng.randint(1, 4)
    lin_refs = []
    for li in range(n_layers):
        opts = []
        if k == "tok":
            opts = ["Embedding"]
        elif k == "vec":
            opts = ["Linear", "Linear", "LayerNorm", "Act", "Affine", "Bilinear2", "SubLinear", "Residual", "Reuse"]
        elif k == "seq":
            opts = ["Linear", "Linear", "LayerNorm", "Act", "RNN", "RNN", "Affine", "SubLinear", "Transpose12", "Reuse", "Residual"]
            if not bf:
                opts += ["MHA", "MHA"]
                opts.remove("Transpose12")
        elif k in ("c1", "c2", "c3"):
            opts = ["Conv", "Conv", "Conv", "GroupNorm", "InstanceNorm", "Act", "Linear", "Flatten"]
            if k == "c1":
                opts.append("Transpose12")
            if k == "c2":
                opts += ["SubConv2d", "TransposeHW"] + (["ChannelsLast"] if allow_defects else [])
        t = rng.choice(opts)
        if mode == "ew" and t in ("RNN", "MHA", "Affine", "Bilinear2", "SubLinear", "SubConv2d", "Reuse"):
            t = "Linear"
        L = None
        if t == "Embedding":
            D = rng.randint(1, 4)
            pad = rng.randrange(spec["V"]) if allow_defects and rng.random() < 0.25 else None
            L = {"t": t, "V": spec["V"], "D": D, "pad": pad}
            if pad is not None:
                spec["force_token"] = pad
            cur, k = cur + [D], "seq"
        elif t == "Linear":
            o = rng.randint(1, 4)
            L = {"t": t, "in": cur[-1], "out": o, "bias": rng.random() < 0.75}
            if L["in"] == o:
                lin_refs.append(len(layers))
            cur = cur[:-1] + [o]
        elif t == "Reuse":
            if not lin_refs:
                continue
            cands = [r for r in lin_refs if layers[r]["in"] == cur[-1]]
            if not cands:
                continue
            L = {"t": "Reuse", "ref": rng.choice(cands)}
        elif t == "Residual":
            L = {"t": t, "block": {"t": "Linear", "in": cur[-1], "out": cur[-1], "bias": rng.random() < 0.7}}
        elif t == "LayerNorm":
            nd = 1 if len(cur) == 1 or not bf or rng.random() < 0.7 else 2
            L = {"t": t, "nshape": cur[-nd:], "bias": (not (allow_defects and rng.random() < 0.15)), "eps": rng.choice(NORM_EPS)}
        elif t == "Act":
            L = {"t": t, "f": rng.choice(["tanh", "sigmoid", "softplus", "gelu"])}
        elif t in ("Affine", "Bilinear2", "SubLinear"):
            L = {"t": t, "F": cur[-1]}
        elif t == "SubConv2d":
            L = {"t": t, "C": cur[0]}
        elif t == "RNN":
            h = rng.randint(1, 3)
            bid = rng.random() < 0.3
            L = {"t": t, "cell": rng.choice(["lstm", "gru", "rnn"]), "in": cur[-1], "hidden": h, "layers": rng.choice([1, 1, 2]), "bidir": bid, "bias": rng.random() < 0.8}
            cur = cur[:-1] + [h * (2 if bid else 1)]
        elif t == "MHA":
            heads = rng.choice([1, 2])
            if cur[-1] % heads:
                heads = 1
            L = {"t": t, "E": cur[-1], "heads": heads, "bias": rng.random() < 0.8, "bias_kv": rng.random() < 0.3, "zero_attn": rng.random() < 0.2, "kpm": rng.random() < 0.5}
        elif t == "Transpose12":
            L = {"t": t}
            cur, k = [cur[1], cur[0]], ("c1" if k == "seq" else "seq")
        elif t == "TransposeHW":
            L = {"t": t}
            cur = [cur[0], cur[2], cur[1]]
        elif t == "ChannelsLast":
            L = {"t": t}
        elif t == "Flatten":
            L = {"t": t}
            cur, k = [math.prod(cur)], "vec"
        elif t == "GroupNorm":
            gs = [g for g in (1, 2, 4) if cur[0] % g == 0]
            L = {"t": t, "groups": rng.choice(gs), "C": cur[0], "eps": rng.choice(NORM_EPS)}
            if math.prod(cur) // L["groups"] < 2:
                continue
        elif t == "InstanceNorm":
            if math.prod(cur[1:]) < 2:
                continue
            L = {"t": t, "nd": len(cur) - 1, "C": cur[0], "eps": rng.choice(NORM_EPS)}
        elif t == "Conv":
            r = _pick_conv(rng, len(cur) - 1, cur[0], cur[1:], allow_defects)
            if r is None:
                continue
            L, cur = r
        if L is None:
            continue
        if rng.random() < 0.12 and L["t"] in ("Linear", "Conv", "LayerNorm", "GroupNorm"):
            L["freeze"] = rng.choice([["weight"], ["bias"], "all"])
        layers.append(L)
    def trainable(l):
        if l["t"] in ("Act", "Flatten", "Transpose12", "TransposeHW", "ChannelsLast", "Reuse") or l.get("freeze") == "all":
            return False
        if l.get("freeze") == ["weight"] and not l.get("bias", True):
            return False
        return True

    if not any(trainable(l) for l in layers):
        layers.append({"t": "Linear", "in": cur[-1], "out": 2, "bias": True})
    spec["layers"] = layers
    return spec


def features(spec):
    """coarse signature of a spec for the coverage histogram / distinctness"""
    ts = tuple(l["t"] + (":" + l["pm"] if l.get("pm", "zeros") != "zeros" else "") + (":pad" if l.get("pad") is not None else "") for l in spec["layers"])
    return (spec["mode"], spec["reduction"], spec.get("batch_first", True), spec["B"], spec["kind"], spec.get("in_layout", "contiguous"), ts)
