"""C05 — every noised step is accounted exactly once, with the parameters in force.

Obligations (Lean, every finite op sequence, both optimizer kinds, RDP/PRV run-length encoding and
the GDP accountant): `account_iff_release` (log = blocks noise→account→inner step),
`history_is_the_accounted_steps`, `accounted_exactly_once`, `account_values`, `rle_expand`,
`gdp_expand`, `empty_batch_accounted`, `cost_perm_invariant`.

Correspondence: protocol machine vs the real objects *wired by the real
`PrivacyEngine.make_private`* (hook closure, sample_rate = 1/len(loader), Poisson ⇒ accumulation
forbidden), for the rdp / prv / gdp accountants, standard and ghost optimizers: after every op the
accountant's history, the order of the events noise → accountant.step → inner optimizer.step, and
the whole protocol state are compared textually.

Oracle (real code only): #history steps = #inner optimizer steps after every op; every record
carries the sigma in force and sample_rate·k; the record is made before the parameters change;
an empty batch is accounted; several make_private calls on one engine share one ledger.
"""
from __future__ import annotations

import torch

from .. import core, rig
from . import engine_check as EC
from . import engine_rig as E

PID = "C05"
MODULES = ["OpacusLean.Props.C05"]
THEOREMS = [
    "Opacus.C05.account_iff_release",
    "Opacus.C05.history_is_the_accounted_steps",
    "Opacus.C05.accounted_exactly_once",
    "Opacus.C05.account_values",
    "Opacus.C05.rle_expand",
    "Opacus.C05.gdp_expand",
    "Opacus.C05.empty_batch_accounted",
    "Opacus.C05.cost_perm_invariant",
    # the tie to the source: Generated/AcctStep.lean is re-translated from accountants/{rdp,prv,gdp}.py on every run
    "Opacus.C05.generated_step_eq_model",
    "Opacus.C05.generated_step_accounts_once",
    # the tie to the source: Generated/PreStep.lean (phase order of pre_step, step gate, accountant hook arguments)
    "Opacus.C05.generated_pre_step_eq_model",
    "Opacus.C05.skipped_step_neither_noised_nor_accounted",
]
RULE = (
    "case = (optimizer kind, Poisson?, accountant rdp|prv|gdp, history of epochs / BatchMemoryManager-style splits / scheduler writes / empty batches / "
    "accumulation / deviations) from VERIF_SEED, objects built by the real PrivacyEngine.make_private; non-trivial iff ≥ 2 released steps AND "
    "(a skipped step OR a sigma change OR an empty batch OR an error outcome); distinct by (config, op sequence)"
)
TRUSTED = [
    "the translator vharness/props/c05_prestep_trans.py (Python `ast` -> the phase list of DPOptimizer.pre_step / DPOptimizerFastGradientClipping.pre_step in source order, the gate of DPOptimizer.step, and the keyword arguments of the accountant hook's self.step call as real expressions; subset in its docstring, anything else is reported as a broken tie) is trusted to render those functions faithfully; what each phase DOES is tied by the behavioural correspondence and the C02/C03/C04/C11 translators",
    "the translator vharness/props/c05_trans.py (Python `ast` -> pure functions on the history list: pop / [-1] / append / rebinding / raise, subset in its docstring; anything else is reported as a broken tie) is trusted to render the three accountants' step() faithfully; float == is rendered as equality (NaN parameters are outside the model); the same methods are run against the model by the behavioural correspondence",
    "sample rates are observed as multiples k of q = 1/1000 (k recovered by rounding; |rate − q·k| < 1e-15 asserted)",
    "DistributedPerLayerOptimizer (noise inside backward hooks) is not in this machine; its accounting path is the same step_hook (see C18)",
]
PARTIAL = [
    "epsilon depends only on the multiset of recorded steps: proved for additive (RDP-style) costs (`cost_perm_invariant`) and, for the PRV pmf, under the no-aliasing hypotheses (C07 `compose_heterogeneous_perm_invariant`); GDP has a single run by construction; the real accountants: metamorphic search in C12",
    "AdaClipDPOptimizer raises on an empty Poisson batch (finding D21, owned by C20): `empty_batch_accounted` holds for flat / per-layer / ghost",
]

CFG_ACCT = [
    (("std", False, False, 1.5, 2.0), "rdp"),
    (("std", False, False, 1.5, 2.0), "prv"),
    (("std", False, True, 1.5, 2.0), "gdp"),
    (("std", True, False, 1.5, 2.0), "rdp"),
    (("ghost", False, False, 1.5, 2.0), "rdp"),
    (("ghost", False, True, 1.5, 2.0), "gdp"),
    (("std", True, True, 1.5, 2.0), "gdp"),
]
SIGMAS = (1.5, 0.75, 1.1, 0.0, 3.0)


def gen_history(rng, cfg, max_steps):
    """training-loop shaped history: epochs of logical batches, each split BMM-style into 1–3
    physical batches, with scheduler writes between steps, empty batches, and occasional deviations"""
    kind, accum = cfg[0], cfg[1]
    ops = []
    bmm = rng.random() < 0.6        # otherwise a plain training loop: no skip signals at all
    for _ in range(rng.randint(1, max_steps)):
        r = rng.random()
        if r < 0.12:
            ops.append(("sigma", E.bits(rng.choice(SIGMAS))))
        if r > 0.93 and kind == "std":
            ops.append(("clip", E.bits(rng.choice((2.0, 4.0)))))
        k = rng.choice([1, 1, 1, 2, 3]) if bmm else 1
        for i in range(k):
            if bmm:
                ops.append(("sig", int(i < k - 1)))
            ops.append(("fwdbwd", rng.choice([0, 1, 2, 3]) if k == 1 else rng.choice([1, 2])))
            if accum and kind == "std" and rng.random() < 0.25:   # genuine accumulation (non-Poisson)
                ops.append(("fwdbwd", rng.choice([1, 2])))
            d = rng.random()
            if d < 0.04:
                continue                       # forgot the step
            ops.append(("step",))
            if d < 0.08:
                ops.append(("step",))          # stepped twice
            if d > 0.96:
                continue                       # forgot zero_grad
            ops.append(("mzg",) if d > 0.93 else ("ozg",))
    return ops


def oracle_lines(cfg, ops, real, acct):
    kind = cfg[0]
    sigma = E.bits(cfg[3])
    n_inner = 0
    recs = []
    accum_batches = 0
    for i, (op, line) in enumerate(zip(ops, real[1:])):
        d = EC.parse_line(line)
        ev = d["events"]
        kinds = [e[0] for e in ev]
        if op[0] == "sigma":
            sigma = op[1]
        if op[0] == "fwdbwd":
            accum_batches += 1
        if op[0] in ("ozg", "mzg"):
            accum_batches = 0
        n_i = kinds.count("I")
        if n_i:
            # order: noise*, account, inner – the record precedes the parameter update
            if kinds.count("A") != n_i or kinds.index("A") > kinds.index("I") or (kinds[-2:] != ["A", "I"]):
                return (f"C05:unaccounted-or-late-record:{kind}", f"op #{i} {op}: events {ev} – an inner optimizer step without its accountant record immediately before it", {"ops": ops, "cfg": cfg, "acct": acct})
            a = [e for e in ev if e.startswith("A:")][0].split(":")
            if int(a[1]) != sigma:
                return (f"C05:recorded-sigma-not-in-force:{kind}", f"op #{i}: accountant recorded sigma bits {a[1]}, in force {sigma}", {"ops": ops, "cfg": cfg, "acct": acct})
            if kind == "std" and d["out"] == "released":
                want_k = len(d["gs"].split("/")) if d["gs"] != "" else 1
                if int(a[2]) != want_k:
                    return (f"C05:recorded-rate-not-q-times-k:{kind}", f"op #{i}: recorded sample_rate = {a[2]}·q, accumulated batches {want_k}", {"ops": ops, "cfg": cfg, "acct": acct})
            if kind == "ghost" and int(a[2]) != 1:
                return (f"C05:recorded-rate-not-q-times-k:{kind}", f"op #{i}: recorded sample_rate = {a[2]}·q for the ghost optimizer", {"ops": ops, "cfg": cfg, "acct": acct})
        elif "A" in kinds:
            return (f"C05:record-without-update:{kind}", f"op #{i} {op}: accountant record without an inner optimizer step ({ev})", {"ops": ops, "cfg": cfg, "acct": acct})
        n_inner += n_i
        recs += [tuple(e.split(":")[1:]) for e in ev if e.startswith("A:")]
        expanded = [tuple(h.split(":")[:2]) for h in d["hist"].split(",") if h for _ in range(int(h.split(":")[2]))]
        if expanded != recs and not (acct == "gdp" and len(set(recs)) > 1):
            return (f"C05:history-not-the-recorded-steps:{acct}", f"after op #{i} {op}: expanded history {expanded[-4:]} ≠ records made {recs[-4:]} (sigma bits, k)", {"ops": ops, "cfg": cfg, "acct": acct})
        total = sum(int(h.split(":")[2]) for h in d["hist"].split(",") if h)
        if total != n_inner:
            return (f"C05:ledger-count-mismatch:{acct}", f"after op #{i} {op} ({d['out']}): history holds {total} steps, inner optimizer stepped {n_inner} times", {"ops": ops, "cfg": cfg, "acct": acct})
    return None


def case_oracle(case):
    cfg, ops, acct = tuple(case["cfg"]), [tuple(o) for o in case["ops"]], case.get("acct", "auto")
    full = [tuple(o) for o in case.get("full_ops", [])]
    with rig.default_dtype(torch.float64):
        for cand in ([full] if full else []) + [ops, ops + [("ozg",), ("fwdbwd", 1), ("step",), ("ozg",), ("fwdbwd", 0), ("step",)]]:
            cand = EC.normalise_ops(cfg, cand)
            try:
                real = E.run_real(cfg, cand, acct=acct, via_engine=True)
            except AssertionError:
                continue
            res = oracle_lines(cfg, cand, real, acct)
            if res:
                res[2]["failing_input"] = {"cfg": cfg, "ops": cand, "acct": acct}
                return res
    return None


def shared_ledger_search(ctx):
    """several make_private calls on one engine: one ledger, one record per logical step of either"""
    from opacus import PrivacyEngine
    for trial in range(ctx.n(6, 60)):
        pe = PrivacyEngine(accountant=ctx.rng.choice(["rdp", "prv"]))
        opts, sig = [], []
        for j in range(2):
            m = rig.TokenModel(4)
            inner = torch.optim.SGD(m.parameters(), lr=1.0)
            ds = torch.utils.data.TensorDataset(torch.zeros(100 * (j + 1), 4), torch.zeros(100 * (j + 1)))
            dl = torch.utils.data.DataLoader(ds, batch_size=1)
            s = ctx.rng.choice([0.5, 1.0, 2.0])
            gm, op, _ = pe.make_private(module=m, optimizer=inner, data_loader=dl, noise_multiplier=s, max_grad_norm=2.0, loss_reduction="sum", poisson_sampling=True)
            opts.append((gm, op, 1.0 / len(dl)))
            sig.append(s)
        expect = []
        for step in range(ctx.rng.randint(2, 8)):
            j = ctx.rng.randrange(2)
            gm, op, q = opts[j]
            x = torch.zeros(1, 4, dtype=torch.float64)
            x[0, step % 4] = 1.0
            with rig.patched_normal("zero"):
                gm(x).sum().backward()
                op.step()
                op.zero_grad()
            expect.append((sig[j], q))
        got = [(s, r) for (s, r, n) in pe.accountant.history for _ in range(n)]
        ctx.case(("shared-ledger", trial, tuple(expect)), nontrivial=len(set(expect)) > 1, kind="shared-ledger")
        if got != expect:
            ctx.property_failure("C05:shared-ledger", f"two make_private calls on one engine: history {got}, steps taken {expect}", {"failing_input": {"expect": expect}, "got": got})
        else:
            ctx.validated()


def ddp_perlayer_search(ctx):
    """DistributedPerLayerOptimizer (clip / noise inside backward hooks, its own pre_step) is not part of the
    protocol machine: its accounting is checked on the real code in a real one-process gloo group (spawned
    through the C18 rig): one record per logical step, at the sigma in force and sample rate q·k."""
    from . import c18

    cfgs = [c18.gen_config(ctx.rng, 1, variant="perlayer_hooks", allow_empty=False, idx=900 + i, path=p) for i, p in enumerate(["engine", "direct"])]
    for cfg, res in zip(cfgs, c18.run_group(ctx, 1, cfgs)):
        r0 = res[0] if res else None
        T = len(cfg["steps"])
        ctx.case(("ddp-perlayer", cfg["path"], cfg["sigma"], T), nontrivial=True, kind="ddp-perlayer-accounting")
        if r0 is None or "error" in r0 or any("error" in st for st in r0.get("steps", [])):
            ctx.count("ddp-perlayer:implementation-raised")
            continue
        h = r0.get("history")
        ok = h is not None and len(h) == 1 and h[0][0] == cfg["sigma"] and core.close(h[0][1], 1.0 / 3.0, 1e-12) and h[0][2] == T
        if ok:
            ctx.validated()
        else:
            ctx.property_failure("C05:ddp-perlayer:ledger", f"DistributedPerLayerOptimizer ({cfg['path']} path, one-process gloo group): after {T} noised steps at sigma={cfg['sigma']}, "
                                 f"sample rate 1/3 the accountant history is {h}", {"failing_input": {"cfg": {k: cfg[k] for k in ('variant', 'path', 'sigma', 'E', 'reduction')}}, "history": h})


def ledger_eps_search(ctx):
    """the reported epsilon depends only on the MULTISET of recorded steps: for histories of 3 / 5 / 6 distinct runs
    (odd counts exercise the unpaired element of the PRV convolution tree) every permutation gives the same epsilon,
    and no run may be ignored (dropping one must not leave epsilon unchanged).  Real accountants only."""
    import itertools

    from opacus.accountants import PRVAccountant, RDPAccountant

    for trial in range(ctx.n(4, 40)):
        k = [3, 5, 6, 3][trial % 4]
        hist = [(round(ctx.rng.uniform(0.8, 2.0), 3), ctx.rng.choice([0.05, 0.1, 0.2, 0.3]), ctx.rng.randint(2, 12)) for _ in range(k)]
        for cls, tol in ((RDPAccountant, 1e-9), (PRVAccountant, 0.03)):
            if cls is PRVAccountant and trial >= ctx.n(2, 12):
                continue

            def eps(h):
                a = cls()
                a.history = list(h)
                return float(a.get_epsilon(1e-5)) if cls is RDPAccountant else float(a.get_epsilon(1e-5, eps_error=0.01))

            try:
                base = eps(hist)
                perms = [list(reversed(hist)), hist[1:] + hist[:1], hist[-1:] + hist[:-1]]
                vals = [eps(p) for p in perms]
                drop = [eps(hist[:i] + hist[i + 1:]) for i in (0, k - 1)]
            except Exception as e:
                ctx.count("ledger-eps:accountant-raised:" + type(e).__name__)
                continue
            ctx.case(("ledger-eps", cls.__name__, tuple(hist)), nontrivial=True, kind="ledger-eps:" + cls.__name__)
            bad = [v for v in vals if abs(v - base) > tol * max(1.0, abs(base))]
            ignored = [d for d in drop if abs(d - base) <= 1e-12]
            if bad or ignored:
                ctx.property_failure(f"C05:eps-depends-on-order:{cls.__name__}",
                                     f"{cls.__name__}: history {hist}: epsilon {base}; permutations give {vals}; without the first / last run {drop} "
                                     f"({'a recorded run is ignored' if ignored else 'epsilon depends on the order of the recorded runs'})",
                                     {"failing_input": {"hist": hist, "accountant": cls.__name__}})
            else:
                ctx.validated()


def bmm_empty_batch_search(ctx):
    """Poisson sampling with a tiny expected batch size through the real BatchMemoryManager: every LOGICAL batch –
    the empty ones included – is one noised, accounted step (the machine's `empty_batch_accounted`, on real loops)"""
    from opacus import PrivacyEngine
    from opacus.utils.batch_memory_manager import BatchMemoryManager

    for trial in range(ctx.n(3, 20)):
        acct = ["rdp", "prv", "gdp"][trial % 3]
        N, bs = 24, ctx.rng.choice([1, 2])
        torch.manual_seed(ctx.rng.randrange(10**6))
        ds = torch.utils.data.TensorDataset(torch.randn(N, 3, dtype=torch.float64), torch.zeros(N, dtype=torch.long))
        dl = torch.utils.data.DataLoader(ds, batch_size=bs)
        m = torch.nn.Linear(3, 2).double()
        opt = torch.optim.SGD(m.parameters(), lr=0.1)
        pe = PrivacyEngine(accountant=acct)
        gm, op, dpl = pe.make_private(module=m, optimizer=opt, data_loader=dl, noise_multiplier=1.0, max_grad_norm=1.0)
        inner_steps, empties, logical = 0, 0, 0
        orig = op.original_optimizer.step

        def counted(*a, **k):
            nonlocal inner_steps
            inner_steps += 1
            return orig(*a, **k)

        op.original_optimizer.step = counted
        logical = len(dpl)
        with BatchMemoryManager(data_loader=dpl, max_physical_batch_size=ctx.rng.choice([1, 2, 3]), optimizer=op) as mdl:
            for x, y in mdl:
                empties += int(len(x) == 0)
                op.zero_grad()
                torch.nn.functional.cross_entropy(gm(x), y).backward()
                op.step()
        steps = sum(n for _, _, n in pe.accountant.history)
        ctx.case(("bmm-empty", acct, trial), nontrivial=empties > 0, kind="bmm-empty:" + acct)
        ctx.count("bmm-empty:empty-physical-batches", empties)
        if steps != logical or inner_steps != logical:
            ctx.property_failure(f"C05:bmm:ledger-vs-logical-batches:{acct}", f"{logical} logical Poisson batches ({empties} empty) through BatchMemoryManager: "
                                 f"{inner_steps} inner optimizer steps, {steps} accounted steps", {"failing_input": {"accountant": acct, "N": N, "batch_size": bs}})
        else:
            ctx.validated()


def regenerate(ctx):
    from .. import regen
    from . import c05_trans as T
    regen.regenerate(ctx, T, "Opacus.Generated.Acct", "accountants/{rdp,prv,gdp}.py:step")
    from . import c05_prestep_trans as TP
    regen.regenerate(ctx, TP, "Opacus.Generated.PreStep", "pre_step of both DP optimizers, DPOptimizer.step, accountant hook arguments")


def run(ctx):
    regenerate(ctx)
    with rig.default_dtype(torch.float64):
        cases = []
        n = ctx.n(140, 2500)
        for i in range(n):
            cfg, acct = CFG_ACCT[i % len(CFG_ACCT)]
            cases.append((cfg, gen_history(ctx.rng, cfg, ctx.n(8, 16)), {"acct": acct, "via_engine": True}))
        accts = {}

        def on_case(cfg, ops, real, model, diff):
            acct = accts[(cfg, tuple(ops))]
            outs = [EC.parse_line(l)["out"] for l in real[1:]]
            nontrivial = outs.count("released") >= 2 and (
                "skipped" in outs or any(o[0] == "sigma" for o in ops) or ("fwdbwd", 0) in ops or any(o.startswith("err") for o in outs))
            ctx.case((cfg, acct, tuple(ops)), nontrivial=nontrivial, sample={"cfg": cfg, "acct": acct, "ops": ops}, kind=f"{cfg[0]}/{'accum' if cfg[1] else 'poisson'}/{acct}")
            for o in outs:
                ctx.count("out:" + o)
            if diff is None:
                ctx.validated()
            if not real[0].startswith("harness-assertion"):
                res = oracle_lines(cfg, ops, real, acct)
                if res:
                    ctx.property_failure(res[0], res[1], dict(res[2], failing_input={"cfg": cfg, "ops": ops, "acct": acct}))

        for cfg, ops, kw in cases:
            accts[(cfg, tuple(EC.normalise_ops(cfg, ops)))] = kw["acct"]
        bad = EC.compare(ctx, cases, on_case)
        for cfg, ops, real, model, diff in bad[:5]:
            acct = accts[(cfg, tuple(ops))]
            ctx.mismatch("engine-accounting", {"cfg": cfg, "ops": ops[:diff] if diff else ops, "full_ops": ops, "acct": acct}, real[: diff + 1], model[: diff + 1],
                         oracle=case_oracle, note=f"first differing op index {diff}: {ops[diff-1] if diff else 'new'}")
        shared_ledger_search(ctx)
    bmm_empty_batch_search(ctx)
    ledger_eps_search(ctx)
    ddp_perlayer_search(ctx)
    # the reported epsilon is a function of the CURRENT ledger (roll-back to a checkpoint, another run's state loaded, …)
    from . import c06_lib as L6
    for i in range(ctx.n(10, 120)):
        mech = ["rdp", "rdp", "gdp", "prv"][i % 4] if i < ctx.n(8, 60) else "rdp"
        ctx.count("search:reused-accountant:" + mech)
        try:
            res = L6.reused_accountant_oracle(ctx.rng, mech)
        except Exception as e:  # noqa: BLE001 - GDP refuses what it cannot bracket
            ctx.count("search:reused-accountant:raised:" + type(e).__name__)
            continue
        if res:
            ctx.property_failure(res[0].replace("C06:", "C05:"), res[1], res[2])


def replay(ctx, rp):
    c = rp.get("failing_input") or rp.get("case")
    if c.get("oracle") == "reused-accountant":
        from .c06 import replay_reused
        res = replay_reused(c)
        if res:
            print("REPRODUCED:", res[0].replace("C06:", "C05:"), res[1])
            ctx.violations.append(res[0])
        else:
            print("not reproduced on this tree")
        return
    if "ops" not in c:
        print("replay of shared-ledger cases: rerun ./check C05 with the recorded seed")
        return
    res = case_oracle(c)
    if res:
        print("REPRODUCED:", res[0], res[1])
        ctx.violations.append(res[0])
    else:
        print("not reproduced on this tree")
