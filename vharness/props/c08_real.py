"""C08 helpers that drive the *real* Opacus code: recording/synthetic accountants around
`get_noise_multiplier`, the engine end-to-end run, property oracles, witness replay, search."""
from __future__ import annotations

import contextlib
import math
import warnings

import torch
import torch.nn as nn
from torch.utils.data import DataLoader, TensorDataset

from .. import core

warnings.filterwarnings("ignore")

EXC_L = [L for L in range(1, 5001) if int(1 / (1 / L)) != L]          # a CPython fact, not Opacus
EXC_STEPS = [(E, L) for E in (2, 3, 5, 10) for L in range(1, 400) if int(1 / (1 / L)) == L and int(E / (1 / L)) != E * L]


def max_sigma():
    import opacus.accountants.utils as U
    return float(U.MAX_SIGMA)


class Fuel(Exception):
    pass


# --------------------------------------------------------------------------- synthetic eps families
def synth_eps(fam, p, target, tol, sigma):
    s = float(sigma)
    c = p["c"]
    if s == 0.0:
        return float("inf")
    if fam == "inv":
        return c / s
    if fam == "invsq":
        return c / (s * s)
    if fam == "wiggle":
        return (c / s) * (1.0 + p["a"] * math.sin(p["k"] * s))
    if fam == "stair":
        k = p["k"]
        return c / (math.floor(s * k) / k + 1.0 / k)
    if fam == "high":
        return (target if target < 1e300 else 1e300) + 1.0 + p["a"]
    if fam == "low":
        return (target if target < 1e300 else 1e300) - tol - 1.0 - p["a"]
    if fam == "nan":
        return float("nan") if int(s * (1 + p["at"]) * 10) % 3 == 1 else c / s
    if fam == "jump":
        return target + 1.0 if s < c else target - tol - 1.0
    raise ValueError(fam)


class Phase:
    """tracks which loop of the routine a query belongs to (the doubling loop ends with the first
    answer that is not > target) and enforces the bisection fuel bound"""

    def __init__(self, target, fuel):
        self.target, self.fuel = target, fuel
        self.doubling = True
        self.nbis = 0
        self.table = []     # (sigma, eps) in query order
        self.hist = []      # (sigma, sample_rate, steps)
        self.pending = None  # sigma of a query the accountant did not answer (it raised)

    def before(self):
        if not self.doubling:
            self.nbis += 1
            if self.nbis > self.fuel:
                raise Fuel()

    def after(self, h, eps):
        self.table.append((float(h[0]), float(eps)))
        self.hist.append((float(h[0]), float(h[1]), h[2]))
        if self.doubling and not (eps > self.target):
            self.doubling = False


class SynthAccountant:
    def __init__(self, case, phase):
        self.case, self.phase, self.history = case, phase, []

    def get_epsilon(self, delta, **kw):
        self.phase.before()
        h = self.history[-1]
        c = self.case
        e = synth_eps(c["family"], c["params"], c["target"], c["tol"], h[0])
        self.phase.after(h, e)
        return e


@contextlib.contextmanager
def patched_create(fn):
    import opacus.accountants as A
    import opacus.accountants.utils as U
    oa, ou = A.create_accountant, U.create_accountant

    def create(mechanism):
        r = fn(mechanism)
        return r if r is not None else oa(mechanism)

    A.create_accountant = create
    U.create_accountant = create
    try:
        yield
    finally:
        A.create_accountant, U.create_accountant = oa, ou


@contextlib.contextmanager
def recording(phase):
    """class-level recorder on the three real accountants' get_epsilon"""
    from opacus.accountants import GaussianAccountant, PRVAccountant, RDPAccountant
    olds = []
    depth = [0]
    for cls in (RDPAccountant, GaussianAccountant, PRVAccountant):
        old = cls.get_epsilon

        def make(old):
            def get_epsilon(self, delta, *a, **kw):
                # only the outermost call is a query of the routine (PRV consults an RDP accountant internally)
                on = phase is not None and getattr(phase, "active", True) and depth[0] == 0
                if on:
                    phase.before()
                    phase.pending = float(self.history[-1][0])
                depth[0] += 1
                try:
                    e = old(self, delta, *a, **kw)
                finally:
                    depth[0] -= 1
                if on:
                    phase.pending = None
                    phase.after(self.history[-1], e)
                return e
            return get_epsilon

        cls.get_epsilon = make(old)
        olds.append((cls, old))
    try:
        yield
    finally:
        for cls, old in olds:
            cls.get_epsilon = old


def classify_exc(e):
    if isinstance(e, Fuel):
        return "err:fuel"
    if isinstance(e, ValueError) and "budget is too low" in str(e):
        return "err:budget-too-low"
    return "err:" + type(e).__name__


def run_real(case):
    """run the real get_noise_multiplier on `case`; returns outcome, sigma, queries, table, hist"""
    from opacus.accountants.utils import get_noise_multiplier
    phase = Phase(case["target"], case["fuel"])
    kw = dict(target_epsilon=case["target"], target_delta=case["delta"], epsilon_tolerance=case["tol"])
    if case["mech"] == "synthetic":
        kw.update(sample_rate=case["q"], steps=case["steps"], accountant="synthetic")
        cm = patched_create(lambda m: SynthAccountant(case, phase) if m == "synthetic" else None)
    else:
        kw.update(sample_rate=1 / case["L"], accountant=case["mech"])
        if "epochs" in case:
            kw["epochs"] = case["epochs"]
        else:
            kw["steps"] = case["steps"]
        kw.update(case.get("opts", {}))      # accountant options travel through **kwargs to every query
        cm = recording(phase)
    sigma, outcome = None, "ok"
    with cm:
        try:
            sigma = float(get_noise_multiplier(**kw))
        except Exception as e:  # noqa
            outcome = classify_exc(e)
    return {"outcome": outcome, "sigma": sigma, "queries": [s for s, _ in phase.table], "table": dedup(phase.table), "hist": phase.hist,
            "pending": phase.pending}


def dedup(table):
    seen, out = set(), []
    for s, e in table:
        k = core.f2h(s)
        if k not in seen:
            seen.add(k)
            out.append((s, e))
    return out


def real_eps(mech, sigma, q, steps, delta, opts=None):
    from opacus.accountants import create_accountant
    a = create_accountant(mechanism=mech)
    a.history = [(sigma, q, steps)]
    return float(a.get_epsilon(delta=delta, **(opts or {})))


# --------------------------------------------------------------------------- oracles (no model involved)
def calibration_oracle(case):
    """Property on the real routine: the sigma it returns, fed back to the same accountant for the
    number of steps training takes, gives target - tol <= eps <= target."""
    r = run_real(case)
    if r["outcome"] != "ok":
        return None
    t, tol = case["target"], case["tol"]
    if case["mech"] == "synthetic":
        e = synth_eps(case["family"], case["params"], t, tol, r["sigma"])
        what = f"synthetic accountant {case['family']}"
        truncated = False
    else:
        L = case["L"]
        steps = case["steps"] if "steps" in case else case["epochs"] * L
        truncated = ("epochs" in case and int(case["epochs"] / (1 / L)) == steps - 1 and {h[2] for h in r["hist"]} == {steps - 1}
                     and {h[1] for h in r["hist"]} == {1 / L})
        e = real_eps(case["mech"], r["sigma"], 1 / L, steps, case["delta"], case.get("opts"))
        what = f"{case['mech']} accountant{' ' + repr(case['opts']) if case.get('opts') else ''}, q=1/{L}, steps={steps}"
    if e > t:
        key = "C08:overshoot:calibration-steps-truncated" if truncated else "C08:calibration:eps-above-target"
        return (key, f"get_noise_multiplier returned sigma={r['sigma']!r} for target {t}; {what} gives eps={e!r} > target", {"sigma": r["sigma"], "eps": e})
    if t - e > tol and t < float("inf") and not truncated:
        return ("C08:calibration:eps-below-tolerance", f"get_noise_multiplier returned sigma={r['sigma']!r}; {what} gives eps={e!r}, more than tolerance {tol} below target {t}", {"sigma": r["sigma"], "eps": e})
    return None


def make_loader(L, bs=1, extra=0, drop_last=False):
    # drop_last: the dataset has `extra` (< bs) samples beyond L full batches, which the loader drops
    n = L * bs + extra if drop_last else L * bs - extra
    ds = TensorDataset(torch.zeros(n, 2), torch.zeros(n, dtype=torch.long))
    dl = DataLoader(ds, batch_size=bs, drop_last=drop_last)
    assert len(dl) == L
    return dl


def real_len_dp(L):
    from opacus.data_loader import DPDataLoader
    return len(DPDataLoader.from_data_loader(make_loader(L)))


def real_gnm_steps(E, L):
    case = {"mech": "gdp", "target": 3.0, "delta": 1e-5, "tol": 0.5, "L": L, "epochs": E, "fuel": 200}
    r = run_real(case)
    return r["hist"][0][2] if r["hist"] else None


def engine_facts(mech, L, E, target, delta, bs=1, extra=0, real_loop=False, drop_last=False):
    """make_private_with_epsilon on a loader of length L, then exactly E*len(dp_loader) accounted
    steps (noise-free: only the accountant hook runs), then engine.get_epsilon."""
    from opacus import PrivacyEngine
    dl = make_loader(L, bs, extra, drop_last)
    m = nn.Linear(2, 2)
    opt = torch.optim.SGD(m.parameters(), lr=0.0)
    pe = PrivacyEngine(accountant=mech)
    phase = Phase(target, 10**9)
    with recording(phase):
        m2, o2, dl2 = pe.make_private_with_epsilon(
            module=m, optimizer=opt, data_loader=dl, target_epsilon=target, target_delta=delta, epochs=E, max_grad_norm=1.0
        )
        phase.active = False
        Ldp = len(dl2)
        nsteps = 0
        if real_loop:
            crit = nn.CrossEntropyLoss()
            for _ in range(E):
                for x, y in dl2:
                    o2.zero_grad()
                    crit(m2(x), y).backward()
                    o2.step()
                    nsteps += 1
        else:
            for p in m2.parameters():
                p.grad_sample = torch.zeros(1, *p.shape)
            for _ in range(E * Ldp):
                o2.step_hook(o2)
                nsteps += 1
        eps = float(pe.get_epsilon(delta))
    hist = list(pe.accountant.history)
    return {
        "len_dp": Ldp, "sigma": float(o2.noise_multiplier), "ebs": o2.expected_batch_size, "cal_steps": phase.hist[0][2] if phase.hist else None,
        "cal_q": phase.hist[0][1] if phase.hist else None, "acc_q": float(hist[-1][1]) if hist else None, "acc_steps": sum(h[2] for h in hist),
        "nsteps": nsteps, "eps": eps, "sampler_q": float(dl2.batch_sampler.sample_rate),
    }


def end_to_end_oracle(case):
    mech, L, E, t, d = case["mech"], case["L"], case["epochs"], case["target"], case["delta"]
    try:
        return _end_to_end_oracle(case)
    except ValueError as ex:
        # the accountant itself refused (gdp: brentq bracket; "privacy budget is too low"): no sigma, no claim
        if "different signs" in str(ex) or "budget is too low" in str(ex):
            return None
        raise


def _end_to_end_oracle(case):
    mech, L, E, t, d = case["mech"], case["L"], case["epochs"], case["target"], case["delta"]
    e = engine_facts(mech, L, E, t, d, case.get("bs", 1), case.get("extra", 0), case.get("real_loop", False), case.get("drop_last", False))
    return judge_end_to_end(case, e)


def judge_end_to_end(case, e):
    mech, L, E, t, d = case["mech"], case["L"], case["epochs"], case["target"], case["delta"]
    consistent = e["len_dp"] == L and e["cal_steps"] == E * L
    if e["acc_steps"] != e["nsteps"] or e["nsteps"] != E * e["len_dp"]:
        return ("C08:steps-not-accounted", f"({mech}, L={L}, epochs={E}): {e['nsteps']} steps taken over {E} epochs of a loader of length {e['len_dp']}, {e['acc_steps']} accounted", {"facts": e})
    if e["eps"] > t:
        # the two manifestations of finding D14 have an exact signature; anything else is new
        q_ok = e["cal_q"] == 1 / L and e["acc_q"] == 1 / e["len_dp"] and e["sampler_q"] == 1 / L
        if q_ok and e["len_dp"] == L - 1 == int(1 / (1 / L)) and e["cal_steps"] == int(E / (1 / L)):
            key = "C08:overshoot:dp-loader-length-truncated"
        elif q_ok and e["len_dp"] == L and e["cal_steps"] == E * L - 1 == int(E / (1 / L)):
            key = "C08:overshoot:calibration-steps-truncated"
        elif consistent:
            key = "C08:overshoot:consistent-bookkeeping"
        else:
            key = "C08:overshoot:inconsistent-bookkeeping"
        return (key, f"make_private_with_epsilon({mech}, len(loader)={L}, epochs={E}, target_epsilon={t}, delta={d}): calibrated for (q={e['cal_q']!r}, steps={e['cal_steps']}), "
                     f"trained {e['nsteps']} steps at accounted q={e['acc_q']!r} (len(dp_loader)={e['len_dp']}) -> get_epsilon={e['eps']!r} > target", {"facts": e})
    if e["sampler_q"] > e["acc_q"] and mech in ("rdp", "gdp", "prv"):
        # the engine's figure is within budget, but every example was really drawn at a higher rate than
        # the accounted one: the same accountant at the rate and step count training actually used
        true = real_eps(mech, e["sigma"], e["sampler_q"], e["nsteps"], d)
        if true > t:
            return ("C08:overshoot:sampled-rate-above-accounted", f"make_private_with_epsilon({mech}, len(loader)={L}, epochs={E}, target_epsilon={t}, delta={d}): trained {e['nsteps']} steps "
                    f"drawing each example with probability {e['sampler_q']!r} but accounted q={e['acc_q']!r}; the {mech} accountant at the rate used gives eps={true!r} > target "
                    f"(engine.get_epsilon reports {e['eps']!r})", {"facts": e, "true_eps": true})
    if consistent and t - e["eps"] > 0.01:
        return ("C08:undershoot:consistent-bookkeeping", f"({mech}, L={L}, epochs={E}, target={t}): final eps {e['eps']!r} more than the tolerance below target", {"facts": e})
    return None


def replay_oracle(case):
    if "epochs" in case and "L" in case and case.get("e2e"):
        return end_to_end_oracle(case)
    return calibration_oracle(case)


# --------------------------------------------------------------------------- fixed edge cases
def _sc(fam, target, tol, fuel, c=30.0, **kw):
    p = {"c": c, "k": 7, "a": 0.3, "at": 1.0}
    p.update(kw)
    return {"mech": "synthetic", "family": fam, "params": p, "target": target, "tol": tol, "fuel": fuel, "delta": 1e-5, "q": 0.01, "steps": 100}


EDGE_SYNTH = [
    _sc("inv", 3.0, 0.01, 80),
    _sc("inv", 3.0, 0.01, 80, c=59.9),               # first doubling already within tolerance
    _sc("inv", 3.0, 0.01, 80, c=60.0),               # eps(20) == target exactly: not > target
    _sc("inv", 1.0, 0.01, 80, c=1310720.0),          # eps meets the target only at sigma_high = 1310720 > MAX_SIGMA: raises
    _sc("inv", 1.0, 0.01, 80, c=655360.0),           # meets it at 655360 <= MAX_SIGMA: ok
    _sc("inv", 1.0, 0.01, 80, c=655361.0),
    _sc("high", 3.0, 0.01, 80),
    _sc("low", 3.0, 0.01, 80),
    _sc("low", 3.0, 0.01, 0),
    _sc("jump", 3.0, 0.01, 80, c=13.7),
    _sc("inv", float("inf"), 0.01, 80),
    _sc("inv", 3.0, 0.0, 80),                         # zero tolerance: runs until eps == target or fuel
    _sc("nan", 3.0, 0.01, 80, c=45.0),
    _sc("wiggle", 3.0, 0.01, 80, c=100.0, k=19),
    _sc("stair", 3.0, 0.5, 80, c=100.0, k=3),
]


# --------------------------------------------------------------------------- witnesses & search
def report(ctx, res, case):
    if res:
        ctx.property_failure(res[0], res[1], dict(res[2], failing_input=case))
    return res


def replay_witnesses(ctx, v):
    """Lean `overshoot_witnesses`: L=93 -> L'=92 and (L,epochs)=(75,3) -> 224, replayed end-to-end"""
    for mech, L, E in (("rdp", 93, 1), ("rdp", 75, 3)):
        case = {"mech": mech, "L": L, "epochs": E, "target": 3.0, "delta": 1e-5, "e2e": True}
        res = end_to_end_oracle(case)
        ctx.count("witness-replay")
        ctx.case(("witness", mech, L, E), nontrivial=True, kind="e2e:witness")
        if res:
            ctx.log(f"witness (L={L}, epochs={E}, {mech}):", res[1][-120:])
        report(ctx, res, case)


def search(ctx, v):
    rng = ctx.rng
    # (a) direct calibration with the step count given: no truncation is involved, any failure is new
    from .c08 import gen_real
    for i in range(ctx.n(10, 150)):
        c = gen_real(rng, ("rdp", "gdp") if i % 6 else ("prv",))
        c.pop("epochs", None)
        c.setdefault("steps", rng.randint(1, 3000))
        ctx.count("search:calibration-direct")
        report(ctx, calibration_oracle(c), c)
    # every run: the PRV accountant with a search tolerance other than its own default eps_error (finer and coarser)
    for tol in (0.002, 0.05):
        c = gen_real(rng, ("prv",))
        c.pop("epochs", None)
        c.pop("opts", None)
        c.update(steps=rng.randint(20, 400), tol=tol, target=rng.choice([1.0, 3.0]), L=rng.randint(20, 200), delta=1e-5)
        ctx.count("search:calibration-direct:prv-tolerance")
        report(ctx, calibration_oracle(c), c)
    # (b) end-to-end
    if ctx.thorough:
        Ls = list(range(1, 301))
        plan = [("rdp", L, rng.choice([1, 2, 3]), rng.choice([1.0, 3.0, 8.0])) for L in Ls]
        plan += [("gdp", L, rng.choice([1, 3, 5]), rng.choice([1.0, 3.0, 8.0])) for L in Ls]
        plan += [("prv", L, rng.choice([1, 2]), 3.0) for L in rng.sample(Ls[4:], 30)]
        ctx.extra["end_to_end_range"] = "every L <= 300 for rdp and gdp, 30 L for prv"
    else:
        plan = []
        for mech, k in (("rdp", 9), ("gdp", 14), ("prv", 2)):
            for _ in range(k):
                r = rng.random()
                if r < 0.25:
                    L, E = rng.choice([x for x in EXC_L if x < 1000]), rng.choice([1, 2, 3])
                elif r < 0.45:
                    E, L = rng.choice(EXC_STEPS)
                else:
                    L, E = rng.randint(1, 600), rng.choice([1, 2, 3, 5])
                plan.append((mech, L, E, rng.choice([1.0, 3.0, 8.0])))
    # every run: three small loaders trained by really iterating the private loader for the declared epochs (expected batch
    # size 1: empty Poisson draws occur, and each of them is a noised, accounted step of the epoch)
    plan = [(m, rng.choice([x for x in range(12, 41) if int(1 / (1 / x)) == x and int(3 / (1 / x)) == 3 * x]), 3, 3.0) for m in ("rdp", "gdp", "rdp")] + plan
    done = []
    for j, (mech, L, E, t) in enumerate(plan):
        bs = 1 if j < 3 else rng.choice([1, 1, 2, 3])
        extra = rng.randrange(bs)
        case = {"mech": mech, "L": L, "epochs": E, "target": t, "delta": rng.choice([1e-5, 1e-6]), "bs": bs, "extra": extra,
                "real_loop": ((j % 10 == 0 or j < 3) and L * E <= 400), "e2e": True, "drop_last": bs > 1 and rng.random() < 0.4}
        consistent = int(1 / (1 / L)) == L and int(E / (1 / L)) == E * L
        ctx.case(("e2e", mech, L, E, t), nontrivial=True, kind=f"e2e:{mech}:" + ("consistent" if consistent else "truncating"))
        ctx.count("search:end-to-end")
        try:
            e = engine_facts(mech, L, E, t, case["delta"], bs, extra, case["real_loop"], case["drop_last"])
        except ValueError as ex:
            if "different signs" in str(ex) or "budget is too low" in str(ex):
                ctx.count("search:end-to-end:accountant-refused")
                continue
            raise
        done.append((case, e))
        report(ctx, judge_end_to_end(case, e), case)
    # engine bookkeeping vs the binary64 model (correspondence of the step/rate derivations)
    vl, vs = norm(v["len"]), norm(v["engine_steps"])
    lines = []
    for case, e in done:
        lines.append(f"len {vl} {case['L']}")
        lines.append(f"steps {vs} {vl} {case['epochs']} {case['L']}")
    reps = ctx.lean_driver("C08", lines)
    for k, (case, e) in enumerate(done):
        lm, qs, qa = reps[2 * k].split()
        sc, st = reps[2 * k + 1].split()
        impl = (e["len_dp"], core.f2h(e["cal_q"]), core.f2h(e["acc_q"]), e["cal_steps"], e["nsteps"], core.f2h(e["sampler_q"]))
        model = (int(lm), qs, qa, int(sc), int(st), qs)
        if impl == model:
            ctx.validated()
        else:
            ctx.mismatch("engine_bookkeeping", case, impl, model, oracle=end_to_end_oracle)


def norm(x):
    return x if x in ("asCoded", "repaired") else "asCoded"
