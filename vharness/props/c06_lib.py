"""Shared helpers of the accountant checks C06 / C12: talking to the Lean drivers (incl. the
two-pass `log_ndtr` oracle protocol for fractional RDP orders), adapters around the real Opacus
accountant code, and the independent numerical oracles (quadrature of the true Renyi moment,
privacy-loss-distribution lower bound on epsilon).

Nothing in here reads a value out of the implementation and feeds it to the model, with one
exception that only sizes a table: the number of series terms the real fractional-order routine
used is taken as a hint for how many `log_ndtr` oracle points to hand to the Lean driver (if the
model wants more it says `err:oracle-exhausted` and the table is enlarged)."""
from __future__ import annotations

import math
import warnings

import numpy as np
from scipy import integrate, special
from scipy.stats import norm

from .. import core
from ..core import f2h, h2f

warnings.filterwarnings("ignore")


# --------------------------------------------------------------------------- tokens
def is_int_order(a) -> bool:
    return (not math.isinf(a)) and float(a).is_integer()


def otok(a) -> str:
    if math.isinf(a):
        return "inf"
    if float(a).is_integer():
        return f"i{int(a)}"
    return "f" + f2h(float(a))


def oval(tok: str):
    if tok == "inf":
        return math.inf
    if tok == "none":
        return math.nan
    if tok.startswith("i"):
        return float(int(tok[1:]))
    return h2f(tok[1:])


def evtok(x: float) -> str:
    if x != x:
        return "nan"
    if x == math.inf:
        return "pinf"
    return "fin:" + f2h(x)


def evval(tok: str):
    if tok == "pinf":
        return math.inf
    if tok == "nan":
        return math.nan
    if tok.startswith("fin:"):
        return h2f(tok[4:])
    return tok  # an err:… string


def lstok(x: float) -> str:
    return "none" if x == -math.inf else f2h(x)


def lsval(tok: str):
    if tok == "none":
        return -math.inf
    if tok.startswith("err") or tok.startswith("bad"):
        return tok
    return h2f(tok)


def default_alphas():
    from opacus.accountants import RDPAccountant

    return list(RDPAccountant.DEFAULT_ALPHAS)


# --------------------------------------------------------------------------- real code adapters
def impl_frac_terms(q, sigma, alpha):
    """number of series terms the real `_compute_log_a_for_frac_alpha` evaluates (table sizing hint)"""
    from opacus.accountants.analysis import rdp as R

    cnt = [0]
    orig = R._log_erfc

    def w(x):
        cnt[0] += 1
        return orig(x)

    R._log_erfc = w
    try:
        R._compute_log_a_for_frac_alpha(q, sigma, alpha)
    except Exception:
        pass
    finally:
        R._log_erfc = orig
    return cnt[0] // 2


class Exc:
    """an exception raised by the real code, as a value"""

    def __init__(self, e):
        self.type, self.msg = type(e).__name__, str(e)[:80]

    def __repr__(self):
        return f"raises {self.type}: {self.msg}"


def call(fn, *a, **k):
    """run real code; exceptions become `Exc` values"""
    try:
        return fn(*a, **k)
    except Exception as e:  # noqa
        return Exc(e)


# --------------------------------------------------------------------------- driver batches
class Batch:
    """Collects driver requests; requests that involve fractional orders declare the
    (q, sigma, alpha) triples whose `log_ndtr` oracle values they need.  `run` does pass 1
    (`fracargs`), evaluates `scipy.special.log_ndtr` at the points the MODEL asks for, and pass 2."""

    def __init__(self, ctx, driver="C06", max_terms=3000):
        self.ctx, self.driver, self.max_terms = ctx, driver, max_terms
        self.reqs = []       # (line, triples)
        self.skipped = set()  # indices whose series is longer than max_terms

    def add(self, line, triples=()):
        self.reqs.append((line, [t for t in triples if 0 < t[0] < 1 and t[1] != 0]))
        return len(self.reqs) - 1

    def run(self, phi_points=None):
        need = {}
        for i, (_, tr) in enumerate(self.reqs):
            for t in tr:
                need.setdefault(t, None)
        for t in need:
            n = impl_frac_terms(*t)
            need[t] = (n + 8) if n > 0 else 64
        for i, (_, tr) in enumerate(self.reqs):
            if any(need[t] > self.max_terms for t in tr):
                self.skipped.add(i)
        replies = [None] * len(self.reqs)
        active = [i for i in range(len(self.reqs)) if i not in self.skipped]
        for attempt in range(3):
            if not active:
                break
            triples = sorted({t for i in active for t in self.reqs[i][1]})
            table = {}
            if triples:
                l1 = [f"fracargs {f2h(q)} {f2h(s)} {f2h(a)} {min(need[(q, s, a)], self.max_terms)}" for q, s, a in triples]
                r1 = self.ctx.lean_driver(self.driver, l1)
                pts = sorted({tok for r in r1 for tok in r.split()})
                xs = np.array([h2f(p) for p in pts])
                vs = special.log_ndtr(xs)
                table = dict(zip(pts, vs))
            lines = ["clear", f"fuel {self.max_terms}"]
            items = list(table.items())
            for k in range(0, len(items), 1500):
                ch = items[k:k + 1500]
                lines.append(f"oracle {len(ch)} " + " ".join(p + " " + f2h(float(v)) for p, v in ch))
            if phi_points:
                ph = sorted(set(phi_points))
                lines.append(f"phi {len(ph)} " + " ".join(f2h(x) + " " + f2h(float(norm.cdf(x))) for x in ph))
            nhead = len(lines)
            lines += [self.reqs[i][0] for i in active]
            out = self.ctx.lean_driver(self.driver, lines)[nhead:]
            again = []
            for i, rep in zip(active, out):
                if "err:oracle-exhausted" in rep and attempt < 2:
                    grown = False
                    for t in self.reqs[i][1]:
                        if need[t] < self.max_terms:
                            need[t] = min(self.max_terms, need[t] * 8)
                            grown = True
                    if grown:
                        again.append(i)
                        continue
                replies[i] = rep
            active = again
        return replies


# --------------------------------------------------------------------------- oracle 1: quadrature of the true moment
def true_log_a(q, sigma, alpha):
    """log E_Q[(dP/dQ)^alpha] for Q = N(0, s^2), P = (1-q) N(0, s^2) + q N(1, s^2), by adaptive
    quadrature of the NON-NEGATIVE integrand  r^a - 1 - a (r - 1)  (E_Q[r] = 1, so the integral is
    A - 1 without cancellation), evaluated in the log domain where it is large.  Independent of
    the code under test: no series, no log-space accumulation.  Returns (log A, relative
    quadrature error estimate)."""
    s2 = sigma * sigma
    a = float(alpha)
    lnorm = -0.5 * math.log(2 * math.pi * s2)
    lq, l1q = math.log(q), math.log1p(-q)

    def parts(z):
        """(w, log u or None, u, ld):  w = a·log r,  u = r - 1,  ld = log density of Q"""
        t = (2.0 * z - 1.0) / (2.0 * s2)
        ld = -z * z / (2 * s2) + lnorm
        if t > 30:
            lu = lq + t + math.log1p(-math.exp(-t))          # log u
            w = a * (lq + t + math.log1p((1 - q) / q * math.exp(-t)))
            return w, lu, None, ld
        u = q * math.expm1(t)
        return a * math.log1p(u), None, u, ld

    lo, hi = -14 * sigma - 2, a + 14 * sigma + 2
    # coarse scan for the scale of the integrand
    M = max(w + ld for w, _, _, ld in (parts(lo + (hi - lo) * k / 400.0) for k in range(401)))
    shift = max(0.0, M)

    def g(z):
        w, lu, u, ld = parts(z)
        if w > 30 or lu is not None:
            if lu is None:
                lu = math.log(u)
            return math.exp(w + ld - shift) - math.exp(ld - shift) - a * math.exp(lu + ld - shift)
        val = math.expm1(w) - a * u
        if val <= 0.0:
            val = 0.5 * a * (a - 1) * u * u   # |u| tiny: second-order term
        return val * math.exp(ld - shift)

    pts = sorted({0.0, 0.5, a, a / 2, -3 * sigma, 3 * sigma, a - 3 * sigma, a + 3 * sigma, 0.5 + 30 * s2})
    pts = [p for p in pts if lo < p < hi]
    tot, err = 0.0, 0.0
    edges = [lo] + pts + [hi]
    for x0, x1 in zip(edges[:-1], edges[1:]):
        v, e = integrate.quad(g, x0, x1, epsabs=0, epsrel=1e-11, limit=400)
        tot += v
        err += e
    if tot <= 0:
        return float("nan"), 1.0
    if shift == 0.0:
        return math.log1p(tot), err / tot
    return shift + math.log(tot + math.exp(-shift)), err / tot


def true_log_a_mp(q, sigma, alpha, dps=40):
    """the same integral with mpmath at `dps` digits (thorough tier / arbitration)"""
    import mpmath as mp

    mp.mp.dps = dps
    q_, s2, a = mp.mpf(q), mp.mpf(sigma) ** 2, mp.mpf(alpha)

    def g(z):
        t = (2 * z - 1) / (2 * s2)
        u = q_ * mp.expm1(t)
        return (mp.expm1(a * mp.log1p(u)) - a * u) * mp.exp(-z * z / (2 * s2)) / mp.sqrt(2 * mp.pi * s2)

    lo, hi = -16 * sigma - 2, float(alpha) + 16 * sigma + 2
    pts = sorted({lo, 0.0, 0.5, float(alpha), float(alpha) / 2, -3 * sigma, 3 * sigma, hi})
    return float(mp.log1p(mp.quad(g, pts)))


def quad_oracle(q, sigma, alpha, rel=1e-6, abs_=1e-11):
    """PROPERTY on the real code: `_compute_rdp` is not below the true Renyi divergence of the
    canonical pair and agrees with it to numerical precision.  Returns None or a finding triple."""
    from opacus.accountants.analysis import rdp as R

    if not (0 < q < 1) or sigma <= 0 or math.isinf(alpha) or alpha <= 1:
        return None
    try:
        got = float(R._compute_rdp(q, sigma, alpha))
    except Exception as e:
        near = (not is_int_order(alpha)) and abs(alpha - round(alpha)) <= 1e-9 * abs(alpha)
        return (f"C06:rdp-raises:{type(e).__name__}:{'near-integer-order' if near else 'int' if is_int_order(alpha) else 'frac'}",
                f"_compute_rdp(q={q}, sigma={sigma}, alpha={alpha}) raises {type(e).__name__}: {e}",
                {"q": q, "sigma": sigma, "alpha": alpha})
    la, qerr = true_log_a(q, sigma, alpha)
    if not math.isfinite(la) or qerr > 1e-7:
        return None  # quadrature itself unreliable here: no verdict
    got_la = got * (alpha - 1)
    kind = "int" if is_int_order(alpha) else "frac"
    if got_la < la * (1 - rel) - abs_:
        return (f"C06:rdp-below-true:{kind}",
                f"_compute_rdp(q={q}, sigma={sigma}, alpha={alpha}) = {got} is below the true Renyi divergence {la / (alpha - 1)} (quadrature)",
                {"q": q, "sigma": sigma, "alpha": alpha, "observed": got, "true": la / (alpha - 1)})
    if abs(got_la - la) > rel * abs(la) + abs_:
        return (f"C06:rdp-not-true:{kind}",
                f"_compute_rdp(q={q}, sigma={sigma}, alpha={alpha}) = {got} differs from the true Renyi divergence {la / (alpha - 1)} (quadrature)",
                {"q": q, "sigma": sigma, "alpha": alpha, "observed": got, "true": la / (alpha - 1)})
    return None


# --------------------------------------------------------------------------- oracle 2: PLD lower bound on epsilon
def _step_pmf(q, s, edges):
    """privacy-loss pmf of one step in the remove direction: L = log p/q0 (x), x ~ P =
    (1-q) N(0,s²) + q N(1,s²), Q = N(0,s²); cell k collects L in [edges[k], edges[k+1]) and is
    given the loss edges[k] (rounded DOWN); mass outside the lattice is dropped.  Both changes can
    only lower the hockey-stick divergence E_P[(1 - e^{eps-L})_+]."""
    if q >= 1.0:
        # L = (2x-1)/(2s²), x ~ N(1,s²)  ⇒  L ~ N(1/(2s²), 1/s²)
        c = norm.cdf((edges - 0.5 / (s * s)) * s)
        return np.diff(c)
    with np.errstate(all="ignore"):
        inner = (np.exp(edges) - (1 - q)) / q
        ok = inner > 0
        x = np.where(ok, s * s * np.log(np.where(ok, inner, 1.0)) + 0.5, -np.inf)
    c = (1 - q) * norm.cdf(x / s) + q * norm.cdf((x - 1) / s)
    return np.diff(c)


def pld_eps_lower(history, delta, log2_size=18):
    """A LOWER bound on the true epsilon(delta) of the composition of Poisson-subsampled Gaussian
    steps (remove direction of the canonical pair; the true epsilon is a max over both directions
    and over all neighbouring datasets, hence at least this).  Own lattice + FFT composition,
    shares nothing with opacus.  Returns None when the lattice cannot hold the distribution."""
    hist = [(float(s), float(q), int(n)) for s, q, n in history if n > 0 and q > 0]
    if not hist:
        return 0.0
    if any(s <= 0 for s, _, _ in hist):
        return None
    size = 1 << log2_size
    half = size // 2
    # first pass on a coarse lattice to learn mean / variance of the total loss
    W = 8.0
    for _ in range(8):
        grid = W / half
        edges = (np.arange(size + 1) - half) * grid
        mean = var = 0.0
        lost = 0.0
        for s, q, n in hist:
            pmf = _step_pmf(q, s, edges)
            m1 = float(np.sum(pmf * edges[:-1]))
            m2 = float(np.sum(pmf * edges[:-1] ** 2))
            mean += n * m1
            var += n * max(m2 - m1 * m1, 0.0)
            lost += n * (1.0 - float(pmf.sum()))
        need = abs(mean) + 16.0 * math.sqrt(var) + max(0.5 / (s * s) + 10.0 / s for s, _, _ in hist) + 1.0
        if need <= W and lost < 1e-12:
            break
        W = max(2 * W, need * 1.05)
    else:
        return None
    acc = None
    for s, q, n in hist:
        pmf = _step_pmf(q, s, edges)
        f = np.fft.rfft(np.roll(pmf, -half))
        fn = f ** n
        acc = fn if acc is None else acc * fn
    tot = np.roll(np.fft.irfft(acc, size), half)
    tot[tot < 1e-17] = 0.0           # FFT noise floor: dropping mass only lowers delta
    if tot[:16].sum() + tot[-16:].sum() > 1e-13:
        return None                  # wrap-around: no verdict
    losses = edges[:-1]

    def dlow(eps):
        m = losses > eps
        return float(np.sum(tot[m] * (-np.expm1(eps - losses[m]))))

    margin = delta * 1e-3 + 1e-11    # FFT round-off / wrapped mass
    # epsilon may be negative (for delta close to 1 the coded conversion does return negative
    # values, and they are valid): search the whole lattice
    lo, hi = float(losses[0]), float(losses[-1])
    if dlow(lo) <= delta + margin:
        return None
    for _ in range(60):
        mid = 0.5 * (lo + hi)
        if dlow(mid) > delta + margin:
            lo = mid
        else:
            hi = mid
    return lo   # dlow(lo) > delta  ⇒  true delta(lo) > delta  ⇒  true eps(delta) > lo


def eps_oracle(history, delta, alphas=None, slack=1e-6):
    """PROPERTY on the real code: the epsilon the RDP accountant reports for `history` is a valid
    (eps, delta) guarantee, i.e. not below the true epsilon; tested against a numerical lower bound."""
    from opacus.accountants import RDPAccountant

    acc = RDPAccountant()
    acc.history = [tuple(h) for h in history]
    try:
        eps = float(acc.get_epsilon(delta, alphas=alphas)) if alphas is not None else float(acc.get_epsilon(delta))
    except Exception as e:
        near = alphas is not None and any((not math.isinf(a)) and (not is_int_order(a)) and abs(a - round(a)) <= 1e-9 * abs(a) for a in alphas)
        return (f"C06:get-epsilon-raises:{type(e).__name__}" + (":near-integer-order" if near else ""), f"RDPAccountant.get_epsilon raises {type(e).__name__}: {e} on history {history}", {"history": history, "delta": delta})
    low = pld_eps_lower(history, delta)
    if low is None:
        return None
    if eps != eps or eps < low - slack - 1e-3 * abs(low):
        return ("C06:eps-below-true",
                f"RDPAccountant.get_epsilon(delta={delta}) = {eps} on history {history} is below a numerical lower bound {low} on the true epsilon of the composed mechanism",
                {"history": history, "delta": delta, "observed": eps, "lower_bound": low, "alphas": alphas})
    return None


# --------------------------------------------------------------------------- one accountant object, several ledgers
def reused_accountant_oracle(rng, mech="rdp", delta=1e-5):
    """PROPERTY on the real code: the reported epsilon is a function of the CURRENT ledger only.  One accountant object is
    queried, its ledger is replaced (assignment, load_state_dict of another run's state, roll-back to an earlier
    checkpoint) by a history with the same number of runs and the same last run but different earlier runs, and queried
    again: the answer must be the one a fresh accountant gives for that ledger.  Returns None or a finding triple."""
    from opacus.accountants import create_accountant

    k = rng.randint(2, 4)
    last = (round(rng.uniform(0.7, 1.5), 3), rng.choice([0.05, 0.1, 0.125]), rng.randint(2, 12))
    h1 = [(round(rng.uniform(0.8, 2.0), 3), rng.choice([0.05, 0.1, 0.125]), rng.randint(5, 40)) for _ in range(k - 1)] + [last]
    h2 = [(round(s * rng.choice([0.6, 1.7]), 3), q, n + rng.randint(1, 30)) for s, q, n in h1[:-1]] + [last]
    how = rng.choice(["assign", "load_state_dict", "assign-same-list-object"])
    kw = {"eps_error": 0.01} if mech == "prv" else {}

    def fresh(h):
        a = create_accountant(mechanism=mech)
        a.history = [tuple(x) for x in h]
        return float(a.get_epsilon(delta, **kw))

    acc = create_accountant(mechanism=mech)
    acc.history = [tuple(x) for x in h1]
    e1 = float(acc.get_epsilon(delta, **kw))
    if how == "assign":
        acc.history = [tuple(x) for x in h2]
    elif how == "load_state_dict":
        other = create_accountant(mechanism=mech)
        other.history = [tuple(x) for x in h2]
        acc.load_state_dict(other.state_dict())
    else:
        acc.history[:] = [tuple(x) for x in h2]
    e2 = float(acc.get_epsilon(delta, **kw))
    want = fresh(h2)
    if e2 != want:
        return (f"C06:stale-ledger:{mech}" if mech == "rdp" else f"C05:stale-ledger:{mech}",
                f"{type(acc).__name__}: queried on {h1} (eps {e1}), ledger replaced ({how}) by {h2}: reports {e2}; a fresh accountant on that ledger reports {want}",
                {"failing_input": {"oracle": "reused-accountant", "mech": mech, "h1": h1, "h2": h2, "how": how, "delta": delta}})
    return None
