"""C18 worker: runs the REAL distributed Opacus objects inside a gloo process group (or, with
world == 0, the single-process objects) on a list of token-setting configurations and writes what
it observed as JSON.

Stand-alone on purpose (imports only torch + opacus; `opacus` is whatever comes first on
PYTHONPATH, i.e. $OPACUS_REPO):

    python c18_worker.py <jobfile.json> <rank> <world> <port> <outfile.json>

world == 0  → no process group, single-process reference (also importable: `run_single(cfg)`).

Exit status: 0 = every configuration ran (results, including implementation exceptions, are in the
out file), 3 = infrastructure trouble (rendez-vous, collective time-out, …).

Token setting: the network is  out_i = <w1, x_i[:d1]> + <w2, x_i[d1:]>  (two bias-free Linear
layers side by side, two parameters so that per-layer clipping differs from flat clipping), the
per-sample loss is out_i, hence the per-sample gradient of sample i is its own integer input row,
whatever the weights.  `torch.normal` is replaced inside the worker by a call-numbered
deterministic value `1000*rank + 100*numel + n` (n = 1-based number of the request *for this shape*
in the current configuration; the two parameters have different sizes, so a value identifies rank,
parameter and occurrence independently of the order in which parameters are visited) and every
request is logged as (std, shape, generator given?), so where and how often noise is drawn is
observable from outside.
"""
from __future__ import annotations

import datetime
import json
import os
import sys
import traceback
import warnings

warnings.filterwarnings("ignore")

import torch
import torch.nn as nn

torch.set_num_threads(1)


# ----------------------------------------------------------------------------- token rig
class NormalLog:
    """call-numbered replacement of torch.normal (see module docstring)"""

    def __init__(self, rank):
        self.rank = rank
        self.calls = []
        self.per_shape = {}
        self._real = torch.normal

    def reset(self):
        self.calls.clear()
        self.per_shape.clear()

    def __call__(self, mean=0, std=1.0, size=None, *, generator=None, device=None, dtype=None, **kw):
        if size is None:
            return self._real(mean, std, generator=generator, **kw)
        numel = 1
        for d in size:
            numel *= int(d)
        k = self.per_shape[numel] = self.per_shape.get(numel, 0) + 1
        v = 1000.0 * self.rank + 100.0 * numel + float(k)
        self.calls.append([float(std), list(size), generator is not None, v])
        return torch.full(tuple(size), v, dtype=dtype or torch.get_default_dtype(), device=device)


class Gain(nn.Module):
    """a FROZEN parameter (requires_grad=False) that scales the output: it takes part in the forward, so
    workers that did not receive rank 0's value compute different gradients"""

    def __init__(self, v):
        super().__init__()
        self.g = nn.Parameter(torch.tensor(float(v)), requires_grad=False)

    def forward(self, x):
        return x * self.g


class TwoBranch(nn.Module):
    def __init__(self, d1, d2, init, gain=None):
        super().__init__()
        self.d1 = d1
        self.gain = None if gain is None else Gain(gain)
        self.fc1 = nn.Linear(d1, 1, bias=False)
        self.fc2 = nn.Linear(d2, 1, bias=False)
        with torch.no_grad():
            self.fc1.weight.copy_(torch.tensor(init[0], dtype=self.fc1.weight.dtype).view(1, d1))
            self.fc2.weight.copy_(torch.tensor(init[1], dtype=self.fc2.weight.dtype).view(1, d2))

    def forward(self, x):
        out = self.fc1(x[:, : self.d1]) + self.fc2(x[:, self.d1 :])
        return out if self.gain is None else self.gain(out)


class TokenLoss(nn.Module):
    """criterion(input, target): per-sample loss = the network output of that sample"""

    def __init__(self, reduction):
        super().__init__()
        self.reduction = reduction

    def forward(self, out, target=None):
        l = out.reshape(out.shape[0])
        if self.reduction == "mean":
            return l.mean()
        if self.reduction == "sum":
            return l.sum()
        return l


def weights(model):
    m = model
    while not isinstance(m, TwoBranch):
        m = m._module if hasattr(m, "_module") else m.module
    return m


def flat(t):
    return [float(v) for v in t.detach().reshape(-1).tolist()]


def snapshot(model):
    m = weights(model)
    return [flat(m.fc1.weight), flat(m.fc2.weight)]


def grads(model):
    m = weights(model)
    return [None if p.grad is None else flat(p.grad) for p in (m.fc1.weight, m.fc2.weight)]


def err_str(e):
    return f"err:{type(e).__name__}:{str(e)[:160]}"


# ----------------------------------------------------------------------------- one configuration
ACCT = {}   # the accountant of the configuration being run (engine's own, or attached in the direct path)


def build(cfg, rank, world):
    """returns (module, optimizer, criterion, info) built the way a user would (engine path) or by
    constructing the optimizer classes directly (cfg['path'] == 'direct')"""
    from opacus import GradSampleModule, PrivacyEngine
    from opacus.distributed import DifferentiallyPrivateDistributedDataParallel as DPDDP

    d1, d2 = cfg["dims"]
    variant, red = cfg["variant"], cfg["reduction"]
    dist_mode = world > 0
    init = cfg["init"][rank] if dist_mode else cfg["init"][0]
    # cfg["frozen"]: a frozen gain, 1 on rank 0 (and in the single-process reference), 1 + rank elsewhere
    gain = (1.0 + (rank if dist_mode else 0)) if cfg.get("frozen") else None
    model = TwoBranch(d1, d2, init, gain)
    info = {"params_before_wrap": snapshot(model)}
    wrapped = model
    if dist_mode:
        wrap = cfg.get("wrap") or ("ddp" if variant == "perlayer_hooks" else "dpddp")
        if wrap == "dpddp":
            wrapped = DPDDP(model)
        else:
            from torch.nn.parallel import DistributedDataParallel as DDP

            wrapped = DDP(model)
        info["wrap"] = wrap
    info["params_after_wrap"] = snapshot(model)
    info["frozen_after_wrap"] = None if model.gain is None else float(model.gain.g)
    inner = torch.optim.SGD([p for p in model.parameters() if p.requires_grad], lr=cfg["lr"])
    E = cfg["E"]
    per_layer = variant.startswith("perlayer")
    mgn = list(cfg["C"]) if per_layer else cfg["C"]
    crit = TokenLoss(red)
    if cfg.get("path", "engine") == "engine":
        N = E * 3
        ds = torch.utils.data.TensorDataset(torch.zeros(N, d1 + d2), torch.zeros(N))
        dl = torch.utils.data.DataLoader(ds, batch_size=E)
        eng = PrivacyEngine(accountant="rdp")
        gsm = {"flat": "hooks", "ghost": "ghost", "perlayer_hooks": "hooks", "perlayer_simple": "ew"}[variant]
        kw = dict(
            module=wrapped,
            optimizer=inner,
            data_loader=dl,
            noise_multiplier=cfg["sigma"],
            max_grad_norm=mgn,
            poisson_sampling=False,
            loss_reduction=red,
            clipping="per_layer" if per_layer else "flat",
            grad_sample_mode=gsm,
        )
        if variant == "ghost":
            module, opt, crit, _ = eng.make_private(criterion=crit, **kw)
        else:
            module, opt, _ = eng.make_private(**kw)
    else:
        from opacus import optimizers as O
        from opacus.grad_sample import GradSampleModuleFastGradientClipping
        from opacus.utils.fast_gradient_clipping_utils import DPLossFastGradientClipping

        e_loc = (E / world) if dist_mode else E
        okw = dict(noise_multiplier=cfg["sigma"], max_grad_norm=mgn, expected_batch_size=e_loc, loss_reduction=red)
        if variant == "ghost":
            module = GradSampleModuleFastGradientClipping(wrapped, max_grad_norm=cfg["C"], use_ghost_clipping=True, loss_reduction=red)
            cls = O.DistributedDPOptimizerFastGradientClipping if dist_mode else O.DPOptimizerFastGradientClipping
            opt = cls(inner, **okw)
            crit = DPLossFastGradientClipping(module, opt, crit, red)
        else:
            module = GradSampleModule(wrapped, loss_reduction=red)
            if dist_mode:
                cls = {"flat": O.DistributedDPOptimizer, "perlayer_hooks": O.DistributedPerLayerOptimizer, "perlayer_simple": O.SimpleDistributedPerLayerOptimizer}[variant]
            else:
                cls = O.DPPerLayerOptimizer if per_layer else O.DPOptimizer
            opt = cls(inner, **okw)
    if cfg.get("path", "engine") == "engine":
        ACCT["a"] = eng.accountant
    else:
        from opacus.accountants import RDPAccountant

        ACCT["a"] = RDPAccountant()
        opt.attach_step_hook(ACCT["a"].get_optimizer_hook_fn(sample_rate=1.0 / 3.0))
    info["optimizer_class"] = type(opt).__name__
    info["expected_batch_size"] = None if opt.expected_batch_size is None else float(opt.expected_batch_size)
    return module, opt, crit, info


def run_config(cfg, rank, world, normal):
    """one configuration = construction + T steps; returns a JSON-able dict"""
    res = {"id": cfg["id"], "rank": rank, "steps": []}
    n0 = len(normal.calls)
    try:
        module, opt, crit, info = build(cfg, rank, world)
        res.update(info)
    except Exception as e:  # construction failed in the implementation
        res["error"] = err_str(e)
        res["trace"] = traceback.format_exc()[-800:]
        return res
    rows = torch.tensor(cfg["rows"], dtype=torch.get_default_dtype()).reshape(-1, sum(cfg["dims"]))
    for t, shards in enumerate(cfg["steps"]):
        if world > 0:
            idx = shards[rank]
        else:
            idx = [i for s in shards for i in s]  # the union batch, in worker order
        x = rows[idx] if idx else rows[:0]
        st = {"n": len(idx)}
        c0 = len(normal.calls)
        # cfg["micro"] = k: on the workers the local shard is taken in up to k physical batches (signal_skip_step(True)
        # before all but the last: clip + accumulate only), the single-process reference takes the union batch at once
        k = int(cfg.get("micro", 1)) if world > 0 else 1
        if k > 1 and len(idx) >= 2:
            per = -(-len(idx) // k)
            chunks = [idx[i : i + per] for i in range(0, len(idx), per)]
        else:
            chunks = [idx]
        st["micro"] = [len(c) for c in chunks]
        try:
            if cfg.get("closure") and k <= 1:
                def closure():
                    opt.zero_grad()
                    loss = crit(module(x), torch.zeros(len(idx)))
                    loss.backward()
                    return loss

                opt.step(closure)
            else:
                for j, ch in enumerate(chunks):
                    xc = rows[ch] if ch else rows[:0]
                    if k > 1:
                        opt.signal_skip_step(do_skip=(j + 1 < len(chunks)))
                    opt.zero_grad()
                    out = module(xc)
                    loss = crit(out, torch.zeros(len(ch)))
                    loss.backward()
                    opt.step()
            st["grad"] = grads(module)
            st["params"] = snapshot(module)
        except Exception as e:
            st["error"] = err_str(e)
            st["trace"] = traceback.format_exc()[-800:]
            res["steps"].append(st)
            res["aborted_at"] = t
            break
        st["noise_calls"] = [c for c in normal.calls[c0:]]
        res["steps"].append(st)
    res["noise_calls_total"] = len(normal.calls) - n0
    a = ACCT.get("a")
    res["history"] = None if a is None else [[float(x), float(y), int(n)] for x, y, n in a.history]
    if world > 0 and "aborted_at" not in res:
        # probe of the public helper `opacus.distributed.average_gradients`: every rank loads its own
        # initial weights into .grad, then averages
        try:
            from opacus.distributed import average_gradients

            m = weights(module)
            for p, v in zip((m.fc1.weight, m.fc2.weight), cfg["init"][rank]):
                p.grad = torch.tensor(v, dtype=p.dtype).view_as(p).clone()
            average_gradients(m)
            res["avg_probe"] = grads(m)
        except Exception as e:
            res["avg_probe_error"] = err_str(e)
    # per-config numbering: later configs must not depend on earlier ones
    return res


def run_single(cfg):
    """single-process reference on the union batch (no process group)"""
    normal = NormalLog(0)
    old, olddt = torch.normal, torch.get_default_dtype()
    torch.normal = normal
    torch.set_default_dtype(torch.float64)
    try:
        return run_config(cfg, 0, 0, normal)
    finally:
        torch.normal = old
        torch.set_default_dtype(olddt)


# ----------------------------------------------------------------------------- process entry
def main(argv):
    job, rank, world, port, outp = argv[1], int(argv[2]), int(argv[3]), int(argv[4]), argv[5]
    cfgs = json.load(open(job))
    torch.set_default_dtype(torch.float64)
    import torch.distributed as dist

    results, status = [], 0
    try:
        dist.init_process_group(
            backend="gloo",
            init_method=f"tcp://127.0.0.1:{port}",
            rank=rank,
            world_size=world,
            timeout=datetime.timedelta(seconds=int(os.environ.get("C18_COLL_TIMEOUT", "40"))),
        )
    except Exception as e:
        json.dump({"infra": f"init_process_group: {e}"}, open(outp, "w"))
        return 3
    normal = NormalLog(rank)
    torch.normal = normal
    try:
        for cfg in cfgs:
            normal.reset()
            r = run_config(cfg, rank, world, normal)
            results.append(r)
            if "error" in r or "aborted_at" in r:
                # the implementation raised on this rank: the other ranks may be blocked in a
                # collective; stop here, the parent kills them and re-spawns the remaining configs
                break
    except Exception as e:
        status = 3
        results.append({"infra": err_str(e), "trace": traceback.format_exc()[-800:]})
    finally:
        try:
            dist.destroy_process_group()
        except Exception:
            pass
    json.dump({"results": results}, open(outp, "w"))
    return status


if __name__ == "__main__":
    sys.exit(main(sys.argv))
