"""Translator tie for C16 → lean/OpacusLean/Generated/CheckpointKeys.lean, re-generated from the tree under test on every run:

(1) `IAccountant.load_state_dict` (opacus/accountants/accountant.py): the guard clauses `if <test>: raise ValueError(…)` in source
    order and the final binding of `self.history`, as a function in Python's exception semantics (`Except PyExc`) of the receiving
    accountant's mechanism and the dict it is given (`none` = Python `None`; a dict is the model's `SDObj`: which of the two keys
    `history`, `mechanism` are present, and their values).  Tests: `x is None`, `len(x) == 0` (also `< 1`, `not x`, `not len(x)`),
    `"k" in / not in x` or `x.keys()`, `a != b` / `a == b` between the accountant's own mechanism (`self.__class__.mechanism`,
    `type(self).mechanism`, `self.mechanism()`) and `x["mechanism"]`, combined with `or` / `and` / `not` (short-circuit).
    A `for k in ("history", "mechanism"):` loop over literal keys is unrolled; a local bound to a mechanism value (`m = state_dict["mechanism"]`) is a monadic
    `let` at that point (its `KeyError` included).  Anything else (other raise types, other statements) is outside the subset.
(2) `IAccountant.state_dict`: that `destination["history"]` is a deep copy of `self.history` (`deepcopy(...)` / `copy.deepcopy(...)`)
    and `destination["mechanism"]` is the class's mechanism.
(3) `PrivacyEngine.save_checkpoint` / `load_checkpoint` (opacus/privacy_engine.py): the table (key, component, conditional?) of what is
    written (`checkpoint_dict[KEY] = <component>.state_dict(...)`, possibly under `if <component> is not None:`) and of what is read back
    (`<component>.load_state_dict(checkpoint[KEY], …)`, or `V = checkpoint.pop(KEY, {})` followed by
    `if <component> is not None and len(V) > 0: <component>.load_state_dict(V)`).
`Props/C16.lean` proves: the generated `loadStateDict` accepts exactly what the model's `Acct.loadStateDict` accepts, binds the same
history object, and rejects everything else with `ValueError` (`generated_load_state_dict_eq_model`); every key written is read back into
the component it came from and the components are exactly the ones the model's `Ckpt` carries (`generated_checkpoint_keys_eq_model`).
"""
from __future__ import annotations

import ast
from pathlib import Path

from .. import core
from ..pytrans import Untranslatable, find_function

GEN_FILE = core.LEAN / "OpacusLean" / "Generated" / "CheckpointKeys.lean"
SELF_MECH = ("self.__class__.mechanism", "type(self).mechanism", "self.mechanism()", "self.__class__.mechanism()", "type(self).mechanism()")
COMP = {"module": "module", "self.accountant": "accountant", "optimizer": "optimizer", "noise_scheduler": "noiseScheduler",
        "grad_clip_scheduler": "gradClipScheduler"}


def _nodoc(stmts):
    return [s for s in stmts if not (isinstance(s, ast.Expr) and isinstance(s.value, ast.Constant))]


class L:
    """tests of load_state_dict → `Except PyExc Bool` terms"""

    def __init__(self, sd):
        self.sd = sd
        self.subst = {}      # loop variable of an unrolled `for k in ("history", "mechanism"):` -> the constant
        self.mechs = {}      # local bound to a mechanism value -> lean identifier

    def is_sd(self, e):
        return ast.unparse(e) in (self.sd, self.sd + ".keys()")

    def key(self, e):
        if isinstance(e, ast.Name) and e.id in self.subst:
            e = self.subst[e.id]
        if isinstance(e, ast.Constant) and e.value in ("history", "mechanism"):
            return "Key." + e.value
        raise Untranslatable("state-dict key " + ast.unparse(e)[:60])

    def mech(self, e):
        u = ast.unparse(e)
        if isinstance(e, ast.Name) and e.id in self.mechs:
            return f"(pure {self.mechs[e.id]})"
        if u in SELF_MECH:
            return "(pure selfMech)"
        if isinstance(e, ast.Subscript) and ast.unparse(e.value) == self.sd and self.key(e.slice) == "Key.mechanism":
            return "(getMech sd)"
        raise Untranslatable("mechanism expression " + u[:60])

    def nat(self, e):
        if isinstance(e, ast.Call) and ast.unparse(e.func) == "len" and len(e.args) == 1 and self.is_sd(e.args[0]):
            return "(len sd)"
        if isinstance(e, ast.Constant) and isinstance(e.value, int) and not isinstance(e.value, bool) and e.value >= 0:
            return f"(pure {e.value})"
        raise Untranslatable("integer expression " + ast.unparse(e)[:60])

    def test(self, e):
        if isinstance(e, ast.BoolOp):
            op = "pyOr" if isinstance(e.op, ast.Or) else "pyAnd"
            t = self.test(e.values[-1])
            for v in reversed(e.values[:-1]):
                t = f"({op} {self.test(v)} {t})"
            return t
        if isinstance(e, ast.UnaryOp) and isinstance(e.op, ast.Not):
            return f"(pyNot {self.test(e.operand)})"
        if isinstance(e, ast.Name) and e.id == self.sd:
            return "(truthy sd)"
        if isinstance(e, ast.Call) and ast.unparse(e.func) == "len":
            return f"(pyNe {self.nat(e)} (pure 0))"
        if isinstance(e, ast.Compare) and len(e.ops) == 1:
            a, op, b = e.left, e.ops[0], e.comparators[0]
            if isinstance(op, (ast.Is, ast.IsNot)) and isinstance(b, ast.Constant) and b.value is None and ast.unparse(a) == self.sd:
                return "(isNone sd)" if isinstance(op, ast.Is) else "(pyNot (isNone sd))"
            if isinstance(op, (ast.In, ast.NotIn)) and self.is_sd(b):
                t = f"(hasKey sd {self.key(a)})"
                return t if isinstance(op, ast.In) else f"(pyNot {t})"
            for f in (self.nat, self.mech):
                try:
                    x, y = f(a), f(b)
                except Untranslatable:
                    continue
                rel = {ast.Eq: "pyEq", ast.NotEq: "pyNe", ast.Lt: "pyLt", ast.LtE: "pyLe", ast.Gt: "pyGt", ast.GtE: "pyGe"}.get(type(op))
                if rel is None or (f == self.mech and rel not in ("pyEq", "pyNe")):
                    break
                return f"({rel} {x} {y})"
        raise Untranslatable("guard test " + ast.unparse(e)[:100])


def load_state_dict():
    src = (Path(core.REPO) / "opacus/accountants/accountant.py").read_text()
    fn = find_function(ast.parse(src), "load_state_dict", cls="IAccountant")
    if len(fn.args.args) != 2:
        raise Untranslatable("load_state_dict signature")
    t = L(fn.args.args[1].arg)
    lines, state = [], {"bound": None}

    def block(stmts):
        for s in _nodoc(stmts):
            if state["bound"] is not None:
                raise Untranslatable("statement after the history is bound: " + ast.unparse(s)[:80])
            if isinstance(s, ast.If) and not s.orelse and len(s.body) == 1 and isinstance(s.body[0], ast.Raise):
                r = s.body[0].exc
                if not (isinstance(r, ast.Call) and ast.unparse(r.func) == "ValueError"):
                    raise Untranslatable("guard raises " + ast.unparse(r)[:60])
                lines.append(f"  if (← {t.test(s.test)}) then throw PyExc.valueError")
                continue
            if isinstance(s, ast.For) and isinstance(s.target, ast.Name) and not s.orelse and isinstance(s.iter, (ast.Tuple, ast.List)) \
                    and all(isinstance(c, ast.Constant) and isinstance(c.value, str) for c in s.iter.elts):
                for c in s.iter.elts:          # a loop over a literal tuple of keys: unrolled
                    t.subst[s.target.id] = c
                    block(s.body)
                t.subst.pop(s.target.id, None)
                continue
            if isinstance(s, ast.Assign) and len(s.targets) == 1 and isinstance(s.targets[0], ast.Name):
                try:
                    m = t.mech(s.value)        # a local holding a mechanism value: the lookup (and its KeyError) happens here
                except Untranslatable:
                    m = None
                if m is not None:
                    ident = f"{s.targets[0].id}_{len(t.mechs) + 1}"
                    lines.append(f"  let {ident} ← {m}")
                    t.mechs[s.targets[0].id] = ident
                    continue
            if isinstance(s, ast.Assign) and len(s.targets) == 1 and ast.unparse(s.targets[0]) == "self.history":
                v = s.value
                copied = False
                while isinstance(v, ast.Call) and ast.unparse(v.func) in ("deepcopy", "copy.deepcopy", "list", "copy.copy") and len(v.args) == 1:
                    v, copied = v.args[0], True
                if not (isinstance(v, ast.Subscript) and ast.unparse(v.value) == t.sd and t.key(v.slice) == "Key.history"):
                    raise Untranslatable("history bound to " + ast.unparse(s.value)[:80])
                state["bound"] = copied
                lines.append("  getHist sd")
                continue
            raise Untranslatable("load_state_dict statement " + ast.unparse(s)[:100])

    block(fn.body)
    bound = state["bound"]
    if bound is None:
        raise Untranslatable("load_state_dict never binds self.history")
    return "\n".join(lines), bound


def state_dict():
    src = (Path(core.REPO) / "opacus/accountants/accountant.py").read_text()
    fn = find_function(ast.parse(src), "state_dict", cls="IAccountant")
    hist = mech = None
    for s in ast.walk(fn):
        if isinstance(s, ast.Assign) and len(s.targets) == 1 and isinstance(s.targets[0], ast.Subscript) and isinstance(s.targets[0].slice, ast.Constant):
            k, v = s.targets[0].slice.value, s.value
            if k == "history":
                hist = isinstance(v, ast.Call) and ast.unparse(v.func) in ("deepcopy", "copy.deepcopy") and len(v.args) == 1 and ast.unparse(v.args[0]) == "self.history"
            if k == "mechanism":
                mech = ast.unparse(v) in SELF_MECH
    if hist is None or mech is None:
        raise Untranslatable("state_dict does not write both keys")
    return hist, mech


def _comp(e):
    u = ast.unparse(e)
    if u not in COMP:
        raise Untranslatable("checkpoint component " + u[:60])
    return COMP[u]


def _present_test(test, comp_src, var=None):
    """`X is not None` (save) / `X is not None and len(V) > 0` (load)"""
    u = ast.unparse(test)
    if var is None:
        return u == f"{comp_src} is not None"
    return u in (f"{comp_src} is not None and len({var}) > 0", f"len({var}) > 0 and {comp_src} is not None", f"{comp_src} is not None and {var}")


def save_table():
    src = (Path(core.REPO) / "opacus/privacy_engine.py").read_text()
    fn = find_function(ast.parse(src), "save_checkpoint", cls="PrivacyEngine")
    rows = []

    def assign(s, cond):
        if isinstance(s, ast.Assign) and len(s.targets) == 1 and isinstance(s.targets[0], ast.Subscript) and ast.unparse(s.targets[0].value) == "checkpoint_dict" \
                and isinstance(s.targets[0].slice, ast.Constant) and isinstance(s.value, ast.Call) and isinstance(s.value.func, ast.Attribute) and s.value.func.attr == "state_dict":
            c = s.value.func.value
            if cond is not None and ast.unparse(c) != cond:
                raise Untranslatable("save_checkpoint: guarded by another component")
            rows.append((s.targets[0].slice.value, _comp(c), cond is not None))
            return True
        return False

    saved = False
    for s in _nodoc(fn.body):
        if assign(s, None):
            continue
        if isinstance(s, ast.If) and not s.orelse and len(s.body) == 1 and ast.unparse(s.test).endswith(" is not None") and assign(s.body[0], ast.unparse(s.test)[:-len(" is not None")]):
            continue
        if isinstance(s, ast.Assign) and ast.unparse(s.targets[0]) == "checkpoint_dict" and ast.unparse(s.value) in ("checkpoint_dict or {}", "{} if checkpoint_dict is None else checkpoint_dict"):
            continue
        if isinstance(s, ast.Expr) and isinstance(s.value, ast.Call) and ast.unparse(s.value.func) == "torch.save" and ast.unparse(s.value.args[0]) == "checkpoint_dict":
            saved = True
            continue
        raise Untranslatable("save_checkpoint statement " + ast.unparse(s)[:100])
    if not saved:
        raise Untranslatable("save_checkpoint never calls torch.save(checkpoint_dict, …)")
    return rows


def load_table():
    src = (Path(core.REPO) / "opacus/privacy_engine.py").read_text()
    fn = find_function(ast.parse(src), "load_checkpoint", cls="PrivacyEngine")
    rows, popped, ck = [], {}, None
    for s in _nodoc(fn.body):
        if isinstance(s, ast.Assign) and isinstance(s.value, ast.Call) and ast.unparse(s.value.func) == "torch.load" and isinstance(s.targets[0], ast.Name):
            ck = s.targets[0].id
            continue
        if ck is None:
            raise Untranslatable("load_checkpoint: statement before torch.load")
        if isinstance(s, ast.Expr) and isinstance(s.value, ast.Call) and isinstance(s.value.func, ast.Attribute) and s.value.func.attr == "load_state_dict" and s.value.args:
            a = s.value.args[0]
            if isinstance(a, ast.Subscript) and ast.unparse(a.value) == ck and isinstance(a.slice, ast.Constant):
                rows.append((a.slice.value, _comp(s.value.func.value), False))
                continue
        if isinstance(s, ast.Assign) and isinstance(s.targets[0], ast.Name) and isinstance(s.value, ast.Call) and ast.unparse(s.value.func) in (f"{ck}.pop", f"{ck}.get") \
                and len(s.value.args) == 2 and isinstance(s.value.args[0], ast.Constant) and ast.unparse(s.value.args[1]) in ("{}", "dict()"):
            popped[s.targets[0].id] = s.value.args[0].value
            continue
        if isinstance(s, ast.If):
            b = s.body
            if len(b) == 1 and isinstance(b[0], ast.Expr) and isinstance(b[0].value, ast.Call) and isinstance(b[0].value.func, ast.Attribute) \
                    and b[0].value.func.attr == "load_state_dict" and len(b[0].value.args) == 1 and isinstance(b[0].value.args[0], ast.Name) and b[0].value.args[0].id in popped:
                var = b[0].value.args[0].id
                c = b[0].value.func.value
                if not _present_test(s.test, ast.unparse(c), var):
                    raise Untranslatable("load_checkpoint guard " + ast.unparse(s.test)[:80])
                for o in s.orelse:       # the `elif` that only warns
                    if not (isinstance(o, ast.If) and all(isinstance(x, ast.Expr) and isinstance(x.value, ast.Call) and ast.unparse(x.value.func) in ("warnings.warn", "logger.warning") for x in o.body) and not o.orelse):
                        raise Untranslatable("load_checkpoint else-branch " + ast.unparse(o)[:80])
                rows.append((popped[var], _comp(c), True))
                continue
        if isinstance(s, ast.Return):
            continue
        raise Untranslatable("load_checkpoint statement " + ast.unparse(s)[:100])
    return rows


PRELUDE = '''import OpacusLean.Model.Checkpoint
/-! GENERATED by vharness/props/c16_trans.py from IAccountant.state_dict / load_state_dict and PrivacyEngine.save_checkpoint / load_checkpoint – do not edit. -/
set_option linter.unusedVariables false
namespace Opacus.Generated.CheckpointKeys
open Opacus.Checkpoint

inductive PyExc where | valueError | keyError | typeError
deriving DecidableEq, Repr
inductive Key where | history | mechanism
deriving DecidableEq, Repr
inductive Comp where | module | accountant | optimizer | noiseScheduler | gradClipScheduler
deriving DecidableEq, Repr

/-- the argument of `load_state_dict`: `none` = Python `None`, otherwise a dict with the keys that are present -/
abbrev SD := Option SDObj
abbrev M := Except PyExc

def isNone (sd : SD) : M Bool := pure sd.isNone
def len (sd : SD) : M Nat := match sd with
  | none => throw .typeError
  | some d => pure ((if d.href.isSome then 1 else 0) + (if d.mechanism.isSome then 1 else 0))
def truthy (sd : SD) : M Bool := match sd with
  | none => pure false
  | some d => pure (d.href.isSome || d.mechanism.isSome)
def hasKey (sd : SD) (k : Key) : M Bool := match sd with
  | none => throw .typeError
  | some d => pure (match k with | .history => d.href.isSome | .mechanism => d.mechanism.isSome)
def getMech (sd : SD) : M Mech := match sd with
  | none => throw .typeError
  | some d => match d.mechanism with | none => throw .keyError | some m => pure m
def getHist (sd : SD) : M Nat := match sd with
  | none => throw .typeError
  | some d => match d.href with | none => throw .keyError | some r => pure r
def pyOr (a b : M Bool) : M Bool := do if (← a) then pure true else b
def pyAnd (a b : M Bool) : M Bool := do if (← a) then b else pure false
def pyNot (a : M Bool) : M Bool := do pure (!(← a))
def pyEq {α} [DecidableEq α] (a b : M α) : M Bool := do let x ← a; let y ← b; pure (decide (x = y))
def pyNe {α} [DecidableEq α] (a b : M α) : M Bool := do let x ← a; let y ← b; pure (decide (x ≠ y))
def pyLt (a b : M Nat) : M Bool := do let x ← a; let y ← b; pure (decide (x < y))
def pyLe (a b : M Nat) : M Bool := do let x ← a; let y ← b; pure (decide (x ≤ y))
def pyGt (a b : M Nat) : M Bool := do let x ← a; let y ← b; pure (decide (x > y))
def pyGe (a b : M Nat) : M Bool := do let x ← a; let y ← b; pure (decide (x ≥ y))
'''


def translate():
    body, copied = load_state_dict()
    hist_deep, mech_tag = state_dict()
    sv, ld = save_table(), load_table()

    def table(rows):
        return "[" + ", ".join(f'("{k}", Comp.{c}, {"true" if cond else "false"})' for k, c, cond in rows) + "]"
    out = [PRELUDE,
           "/-- `IAccountant.load_state_dict`: the guards in source order, then the history object `self.history` is bound to -/",
           "def loadStateDict (selfMech : Mech) (sd : SD) : M Nat := do", body, "",
           "/-- `load_state_dict` copies the history it is given (false: binds the very list object of the dict) -/",
           f"def loadCopies : Bool := {'true' if copied else 'false'}",
           "/-- `state_dict()` stores a deep copy of `self.history` / the class's mechanism tag -/",
           f"def stateDictDeepCopies : Bool := {'true' if hist_deep else 'false'}",
           f"def stateDictTagsMechanism : Bool := {'true' if mech_tag else 'false'}", "",
           "/-- `save_checkpoint`: (key, component whose `state_dict()` is stored under it, only when the component is given) -/",
           f"def saved : List (String × Comp × Bool) := {table(sv)}",
           "/-- `load_checkpoint`: (key, component whose `load_state_dict` receives it, only when the component is given and the entry is non-empty) -/",
           f"def loaded : List (String × Comp × Bool) := {table(ld)}", "", "end Opacus.Generated.CheckpointKeys"]
    return "\n".join(out) + "\n"


if __name__ == "__main__":
    print(translate(), end="")
