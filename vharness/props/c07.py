"""C07 — the PRV accountant's reported epsilon brackets the true epsilon within its error.

Obligations (Lean, unbounded): the discrete algebra of `opacus/accountants/analysis/prv/*` — the coded
roll after the FFT self-composition re-centres the n-fold convolution for both parities of n, the
`mode='same'` centring of `_compose_two`, mass accounting of the convolution tree, additivity of the
domain shifts, `find_epsilon` exactly inverts the hockey-stick divergence of the discrete
distribution and lands in the `searchsorted` cell, the (lower, estimate, upper) triple is ordered.
The continuous-to-discrete error bound (Gopi–Lee–Wutschitz 2021) is cited, not proved: PARTIAL.

Correspondence (driver C07, same Lean definitions):
  exact   integer pmfs / dyadic domains through the real `_compose_fourier`, `_compose_two`,
          `_compose_convolution_tree`, `compose_heterogeneous` vs the `Int` instance, bit-for-bit;
          `searchsorted`, `create_aligned`; `compute_epsilon` tie/guard cases with NumPy's exp table;
  float   the real pipeline (`_get_domain`, `discretize`, `compose_heterogeneous`, `compute_epsilon`,
          `compute_delta_estimate`) vs the `Float` instance run on direct O(n²) convolutions.
Search: `PRVAccountant.get_epsilon` / `compute_epsilon` on the real code against independent truth
brackets (c07_oracle.py): exact Gaussian formula at q=1, rigorous pessimistic/optimistic
privacy-loss-distribution bounds for q<1, RDP accountant as a sound upper bound.
"""
from __future__ import annotations

import math
import warnings

import numpy as np

from .. import core
from ..core import f2h, h2f
from . import c07_oracle as orc

warnings.filterwarnings("ignore")

PID = "C07"
MODULES = ["OpacusLean.Props.C07"]
THEOREMS = [
    "Opacus.C07.aligned_domain_zero_bin",
    "Opacus.C07.self_compose_roll_correct",
    "Opacus.C07.self_compose_no_wrap",
    "Opacus.C07.compose_two_centre",
    "Opacus.C07.compose_two_comm",
    "Opacus.C07.compose_two_comm_domain",
    "Opacus.C07.compose_heterogeneous_perm_invariant",
    "Opacus.C07.domain_shift_add",
    "Opacus.C07.compose_heterogeneous_exact",
    "Opacus.C07.compose_two_mass",
    "Opacus.C07.tree_mass",
    "Opacus.C07.computeDeltaEstimate_eq_hockey",
    "Opacus.C07.eps_triple_ordered",
    "Opacus.C07.find_epsilon_inverts_hockey_stick",
    "Opacus.C07.safe_domain_covers",
    # the tie to the source: Generated/PrvDomain.lean is re-translated from accountants/prv.py and analysis/prv/domain.py on every run
    "Opacus.C07.generated_prv_domain_eq_model",
]
RULE = (
    "exact cases: (even size N, integer pmf(s), dyadic domain(s), composition counts) drawn from VERIF_SEED, non-trivial iff the pmf is "
    "asymmetric about the centre bin and non-constant, distinct by (op, N, counts, pmf); float cases: history [(sigma,q,n)...] + "
    "(eps_error, delta_error, delta), non-trivial iff the composed pmf has > 8 bins above 1e-12 and compute_epsilon returns a finite triple, "
    "distinct by the rounded parameters; search cases: history + (delta, eps_error) with an independent truth bracket, distinct by parameters"
)
TRUSTED = [
    "the translator vharness/props/c07_trans.py (Python `ast` -> real arithmetic for mesh_size, the two delta arguments compute_safe_domain_size hands to the RDP accountant and its returned max(L_max, eps_error) + 3; anything else is reported as a broken tie) is trusted to render those expressions faithfully; the discrete algebra (discretisation, FFT composition, delta estimate) is tied by the behavioural correspondence",
    "SciPy rfft/irfft compute the DFT (the model specifies irfft(rfft(p)**n) as n-fold circular convolution; compared numerically on every run)",
    "SciPy erfc / quad: the closed-form cdf of the subsampled-Gaussian privacy loss and the truncated mean are handed to the model as columns",
    "compute_safe_domain_size is modelled as max(eps_RDP(whole history), eps_RDP(each single step), eps_error) + 3 with the RDP accountant's epsilons as inputs (their value is C06's subject)",
    "cited, not proved: Gopi-Lee-Wutschitz 2021 Thm 5.5 / Remark 5.6 (truncation + mean-matched discretisation error <= eps_error), "
    "Zhu-Dong-Wang 2022 (the remove-direction pair dominates for the Poisson-subsampled Gaussian)",
    "search oracle: own pessimistic/optimistic PLD discretisation (NumPy FFT convolutions, scipy.special.ndtr) and the exact Gaussian-mechanism formula",
]
PARTIAL = [
    "PARTIAL: that the truncated, mean-matched discretisation brackets the continuous privacy-loss distribution within eps_error is the theorem of "
    "Gopi et al.; it is cited. Lean carries the discrete algebra (index/roll/shift/inversion); the bracket vs the true epsilon is searched numerically, not proved",
    "float rounding (FFT round-off, exp/log) not modelled; NaN ordering of searchsorted not modelled",
]
LEVEL_TEXT = (
    "theorems: discrete algebra of the PRV pipeline over exact rings / reals; correspondence: Int instance bit-for-bit, Float instance to 1e-7 on eps; "
    "the analytic discretisation error bound is cited (partial) and probed by an independent numerical bracket"
)

LD_EPS = float(np.finfo(np.longdouble).eps)


# --------------------------------------------------------------------------- real-side helpers
def prv_mod():
    from opacus.accountants.analysis import prv as P
    from opacus.accountants.analysis.prv import compose as C

    return P, C


def mk_real(pmf, dom):
    P, _ = prv_mod()
    return P.DiscretePRV(pmf=np.array(pmf, dtype=np.float64), domain=P.Domain(float(dom[0]), float(dom[1]), int(dom[2]), float(dom[3])))


def dom_tuple(d):
    return (float(d.t_min), float(d.t_max), int(d.size), float(d.shifts))


def err_name(e):
    s = str(e)
    if isinstance(e, IndexError):
        return "err:empty-tree" if "list index" in s else "err:index"
    if isinstance(e, ValueError):
        if "even" in s and "size" in s:
            return "err:size-odd"
        if "evenly" in s:
            return "err:odd-compose"
        if "same length" in s:
            return "err:len-mismatch"
        if "Floating point" in s:
            return "err:fp-dominates"
    if isinstance(e, RuntimeError):
        if "Cannot compute" in s:
            return "err:cannot-compute"
        if "Discrete mean" in s:
            return "err:mean-shift"
        return "err:dt-mismatch"
    return "err:other:" + type(e).__name__


# --------------------------------------------------------------------------- exact channel
SCALE = 8  # domain fields are multiples of 1/8: exact in binary64, integers in the model


def gen_int_dprv(rng, N, hi=5):
    while True:
        p = [rng.randint(0, hi) if rng.random() < 0.8 else 0 for _ in range(N)]
        if sum(p) > 0:
            break
    tmin = rng.randint(-40, 0)
    dom = (tmin, tmin + rng.randint(1, 80), N, rng.randint(-9, 9))
    return {"pmf": p, "dom": dom}


def nontrivial_pmf(p):
    N = len(p)
    c = N // 2 - 1
    sym = all(p[(c + k) % N] == p[(c - k) % N] for k in range(N))
    return (len(set(p)) > 1) and not sym


def gen_exact_case(rng, thorough):
    """magnitudes are kept below 2^45 so that float64 (and the FFT round-off) stays exact after rounding"""
    while True:
        c = _gen_exact_case(rng, thorough)
        ns = c["n"] if c["kind"] in ("fourier", "hetero") else [1] * len(c["d"])
        mag = 1
        for d, n in zip(c["d"], ns):
            mag *= max(1, sum(d["pmf"])) ** n
        if mag < 2**45:
            return c


def _gen_exact_case(rng, thorough):
    kind = rng.choice(["fourier", "fourier", "two", "tree", "hetero", "hetero"])
    N = rng.choice([2, 4, 6, 8, 10, 12, 16] + ([20, 24, 32] if thorough else []))
    if kind == "fourier":
        n = rng.choice([0, 1, 2, 3, 4, 5, 6, 7, 8]) if rng.random() < 0.9 else rng.randint(9, 12)
        hi = 5 if n <= 6 else 2
        if rng.random() < 0.1:
            N += 1  # odd length → ValueError path (domain size stays even so the Domain can be built)
        return {"kind": kind, "d": [gen_int_dprv(rng, N, hi)], "n": [n]}
    if kind == "two":
        M = N if rng.random() < 0.7 else rng.choice([2, 3, 4, 5, 7, 8])
        return {"kind": kind, "d": [gen_int_dprv(rng, N), gen_int_dprv(rng, M)], "n": []}
    k = rng.randint(1, 7) if rng.random() < 0.95 else 0
    if kind == "tree":
        return {"kind": kind, "d": [gen_int_dprv(rng, N, 3) for _ in range(k)], "n": []}
    ns = [rng.randint(1, 4) for _ in range(k)]
    return {"kind": kind, "d": [gen_int_dprv(rng, N, 2) for _ in range(k)], "n": ns}


def real_exact(case):
    """run the real composition code on the integer case; returns ('ok', pmf ints, dom ints) or ('err:..',)"""
    _, C = prv_mod()
    ds = []
    for d in case["d"]:
        t0, t1, sz, sh = d["dom"]
        dsz = sz if sz % 2 == 0 else sz + 1  # Domain refuses odd sizes; the pmf length is what _compose_fourier checks
        ds.append(mk_real(d["pmf"], (t0 / SCALE, t1 / SCALE, dsz, sh / SCALE)))
    try:
        k = case["kind"]
        if k == "fourier":
            r = C._compose_fourier(ds[0], case["n"][0])
        elif k == "two":
            r = C._compose_two(ds[0], ds[1])
        elif k == "tree":
            r = C._compose_convolution_tree(list(ds))
        else:
            r = C.compose_heterogeneous(list(ds), list(case["n"]))
    except Exception as e:  # noqa: BLE001
        return (err_name(e),)
    pm = np.asarray(r.pmf, dtype=np.float64)
    ri = np.rint(pm)
    if not np.all(np.abs(pm - ri) < 1e-3):
        return ("not-integer", pm.tolist())
    dm = [r.domain.t_min * SCALE, r.domain.t_max * SCALE, r.domain.shifts * SCALE]
    if any(x != int(x) for x in dm):
        return ("dom-not-dyadic", dm)
    return ("ok", [int(x) for x in ri], (int(dm[0]), int(dm[1]), int(r.domain.size), int(dm[2])))


def exact_lines(case, tag):
    lines = []
    names = []
    for j, d in enumerate(case["d"]):
        t0, t1, sz, sh = d["dom"]
        dsz = sz if sz % 2 == 0 else sz + 1
        nm = f"{tag}_{j}"
        names.append(nm)
        lines.append(f"iput {nm} {t0} {t1} {dsz} {sh} {len(d['pmf'])} " + " ".join(map(str, d["pmf"])))
    k = case["kind"]
    if k == "fourier":
        lines.append(f"ifourier {tag}_r {names[0]} {case['n'][0]}")
    elif k == "two":
        lines.append(f"itwo {tag}_r {names[0]} {names[1]}")
    elif k == "tree":
        lines.append(f"itree {tag}_r {len(names)} " + " ".join(names))
    else:
        lines.append(f"ihetero {tag}_r {len(names)} " + " ".join(f"{a} {n}" for a, n in zip(names, case["n"])))
    lines.append(f"iget {tag}_r")
    return lines


def parse_iget(status, rep):
    if status != "ok":
        return (status,)
    w = rep.split()
    if rep.startswith("bad"):
        return ("bad-op",)
    t0, t1, sz, sh, n = int(w[0]), int(w[1]), int(w[2]), int(w[3]), int(w[4])
    return ("ok", [int(x) for x in w[5 : 5 + n]], (t0, t1, sz, sh))


# property oracle usable on an exact case: the composed pmf must be the distribution of the sum of
# offsets from the centre bin (brute force over the real objects, no model involved)
def exact_oracle(case):
    res = real_exact(case)
    if res[0] != "ok":
        return None
    k = case["kind"]
    ds = case["d"]
    N = len(ds[0]["pmf"])
    if any(len(d["pmf"]) != N for d in ds) or N % 2:
        return None
    c = N // 2 - 1
    ns = case["n"] if k in ("fourier", "hetero") else [1] * len(ds)
    if k == "fourier" and ns[0] == 0:
        return None
    full = np.array([1], dtype=object)
    tot = 0
    shift = 0
    for d, n in zip(ds, ns):
        for _ in range(n):
            full = np.convolve(full, np.array(d["pmf"], dtype=object))
        tot += n
        shift += n * d["dom"][3]
    # linear-convolution index s carries offset s - tot*c ; bin j of the result carries offset j - c
    want = [0] * N
    lost = 0
    wrap = k in ("fourier",) or (k == "hetero" and len(ds) == 1)
    for s, v in enumerate(full):
        j = s - tot * c + c
        if wrap:
            want[j % N] += int(v)
        elif 0 <= j < N:
            want[j] += int(v)
        else:
            lost += int(v)
    if k in ("tree", "hetero") and not wrap:
        # truncation / wrap-around inside intermediate stages makes the brute force only an upper bound; compare only when nothing is lost
        if lost or any(n > 1 for n in ns):
            return None
    if list(res[1]) != want:
        return (
            f"C07:compose-index:{k}",
            f"{k} of integer pmfs (N={N}, counts={ns}) is not the distribution of the summed offsets from the centre bin {c}: got {res[1]}, expected {want}",
            {"got": res[1], "expected": want},
        )
    if res[2][3] != shift:
        return (
            f"C07:domain-shift:{k}",
            f"{k}: composed domain shift {res[2][3]}/{SCALE} differs from the sum of the per-step shifts {shift}/{SCALE} (counts={ns})",
            {"got": res[2], "expected_shift": shift},
        )
    return None


def run_exact(ctx):
    n = ctx.n(150, 3000)
    cases = [gen_exact_case(ctx.rng, ctx.thorough) for _ in range(n)]
    # fixed small-scope sweep: every (N, n) with a fixed asymmetric pmf – both parities of n, every even N
    for N in (2, 4, 6, 8, 10, 12):
        for cnt in range(0, 9):
            p = [(3 * i * i + i + 1) % 5 for i in range(N)]
            cases.append({"kind": "fourier", "d": [{"pmf": p, "dom": (-N, N, N, 3)}], "n": [cnt]})
    lines, spans = [], []
    for i, c in enumerate(cases):
        ls = exact_lines(c, f"x{i}")
        spans.append((len(lines), len(ls)))
        lines += ls
    rep = ctx.lean_driver("C07", lines)
    for i, c in enumerate(cases):
        a, ln = spans[i]
        model = parse_iget(rep[a + ln - 2], rep[a + ln - 1])
        impl = real_exact(c)
        nt = bool(c["d"]) and all(nontrivial_pmf(d["pmf"]) for d in c["d"] if len(d["pmf"]) > 2)
        key = (c["kind"], tuple(c["n"]), tuple(tuple(d["pmf"]) for d in c["d"]))
        ctx.case(key, nontrivial=nt and impl[0] == "ok", sample=c, kind="exact:" + c["kind"] + (":err" if impl[0] != "ok" else ""))
        if c["kind"] in ("fourier", "hetero"):
            for cnt in c["n"]:
                ctx.count("parity:" + ("even" if cnt % 2 == 0 else "odd"))
        if tuple(model) == tuple(impl) or (model[0] == impl[0] == "ok" and list(model[1]) == list(impl[1]) and tuple(model[2]) == tuple(impl[2])):
            ctx.validated()
        else:
            ctx.mismatch("compose-exact:" + c["kind"], c, list(impl), list(model), oracle=exact_oracle)


# --------------------------------------------------------------------------- searchsorted / create_aligned
def run_small(ctx):
    P, _ = prv_mod()
    rng = ctx.rng
    lines, cases = [], []
    for _ in range(ctx.n(60, 1500)):
        n = rng.randint(0, 12)
        a = sorted(rng.choice([-2.0, -1.5, -1.0, -0.5, 0.0, 0.25, 1.0]) for _ in range(n))
        key = rng.choice([-3.0, -2.0, -1.5, -1.0, -0.75, -0.5, 0.0, 0.25, 1.0, 2.0])
        cases.append(("ssl", a, key))
        lines.append(f"ssl {n} " + " ".join(f2h(x) for x in a) + (" " if n else "") + f2h(key))
    for _ in range(ctx.n(60, 1500)):
        dt = rng.choice([0.1, 0.25, 0.013, 1.0 / 3, 0.5, 0.07815041391488022, rng.uniform(0.001, 0.6)])
        L = rng.choice([1.0, 2.5, 3.0, 7.3, rng.uniform(0.5, 12)])
        if rng.random() < 0.7:
            tmin, tmax = -L, L
        else:
            tmin, tmax = -rng.uniform(0, 5), rng.uniform(0.1, 6)
        cases.append(("aligned", tmin, tmax, dt))
        lines.append(f"aligned {f2h(tmin)} {f2h(tmax)} {f2h(dt)}")
    for _ in range(ctx.n(30, 600)):
        ee, de, tot = rng.uniform(1e-3, 1.0), 10 ** rng.uniform(-12, -2), rng.randint(1, 5000)
        cases.append(("mesh", ee, de, tot))
        lines.append(f"mesh {f2h(ee)} {f2h(de)} {tot}")
    rep = ctx.lean_driver("C07", lines)
    for c, r in zip(cases, rep):
        if c[0] == "ssl":
            impl = int(np.searchsorted(np.array(c[1], dtype=np.float64), c[2], side="left"))
            ok = r == str(impl)
            ctx.case(("ssl", tuple(c[1]), c[2]), nontrivial=len(set(c[1])) < len(c[1]) or c[2] in c[1], kind="searchsorted")
            mdl = r
        elif c[0] == "aligned":
            try:
                d = P.Domain.create_aligned(c[1], c[2], c[3])
                impl = (d.t_min, d.t_max, d.size)
            except Exception as e:  # noqa: BLE001
                impl = err_name(e)
            if r.startswith("err") or isinstance(impl, str):
                ok = r == impl
                mdl = r
            else:
                w = r.split()
                mdl = (h2f(w[0]), h2f(w[1]), int(w[2]))
                ok = mdl[2] == impl[2] and core.close(mdl[0], impl[0], 1e-12) and core.close(mdl[1], impl[1], 1e-12)
            ctx.case(("aligned",) + tuple(c[1:]), nontrivial=True, kind="create_aligned")
        else:
            impl = c[1] / np.sqrt(c[3] * np.log(12 / c[2]) / 2)
            mdl = h2f(r)
            ok = core.close(mdl, impl, 1e-12)
            ctx.case(("mesh",) + tuple(c[1:]), nontrivial=True, kind="mesh")
        if ok:
            ctx.validated()
        else:
            ctx.mismatch("small:" + c[0], list(c), impl, mdl, oracle=small_oracle)


def small_oracle(c):
    P, _ = prv_mod()
    if c[0] == "aligned":
        try:
            d = P.Domain.create_aligned(c[1], c[2], c[3])
        except Exception:  # noqa: BLE001
            return None
        dt = c[3]
        bad = []
        if d.size % 2:
            bad.append("odd size")
        if not (d.t_min <= c[1] + 1e-9 * dt and d.t_max >= c[2] - 1e-9 * dt):
            bad.append("does not cover [t_min, t_max]")
        if abs(d.dt - dt) > 1e-6 * dt:
            bad.append(f"dt {d.dt} != {dt}")
        if abs(d.t_min / dt - round(d.t_min / dt)) > 1e-6:
            bad.append("t_min not a multiple of dt (0 is not a grid point)")
        if d.t_min - (c[1]) < -1.000001 * dt or d.t_max - c[2] > 2.000001 * dt:
            bad.append("domain larger than needed by more than the alignment slack")
        if bad:
            return ("C07:create-aligned", f"Domain.create_aligned({c[1]}, {c[2]}, {c[3]}) = {d}: " + "; ".join(bad), {})
    if c[0] == "mesh":
        return None
    return None


# --------------------------------------------------------------------------- float pipeline
def gen_history(rng, kmax=3, nmax=6, qs=(0.005, 0.01, 0.02, 0.05, 0.1, 0.3, 1.0)):
    k = rng.randint(1, kmax)
    h = []
    for _ in range(k):
        q = rng.choice(qs)
        sigma = round(rng.uniform(0.7, 3.0), 3) if q < 1 else round(rng.uniform(2.0, 6.0), 3)
        if len(h) >= 2 and rng.random() < 0.35:
            # a setting that recurs NON-adjacently (A, B, A): step() merges adjacent runs only
            s0, q0, _ = rng.choice(h[:-1])
            h.append((s0, q0, rng.randint(1, nmax)))
        else:
            h.append((sigma, q, rng.randint(1, nmax)))
    return h


def real_pipeline(hist, ee, de):
    """the body of PRVAccountant._get_dprv, stage by stage, on the real objects"""
    P, _ = prv_mod()
    from opacus.accountants import PRVAccountant

    acct = PRVAccountant()
    acct.history = list(hist)
    prvs = [P.PoissonSubsampledGaussianPRV(q, s) for s, q, _ in hist]
    ns = [n for _, _, n in hist]
    L = P.compute_safe_domain_size(prvs=prvs, max_self_compositions=ns, eps_error=ee, delta_error=de)
    # the RDP-accountant values compute_safe_domain_size is specified to combine (C06 owns their value)
    from opacus.accountants import RDPAccountant

    ra = RDPAccountant()
    ra.history = [(s, q, n) for s, q, n in hist]
    eps_all = float(ra.get_epsilon(de / 4))
    eps_each = []
    for s, q, _ in hist:
        r1 = RDPAccountant()
        r1.history = [(s, q, 1)]
        eps_each.append(float(r1.get_epsilon(delta=de / (8 * sum(ns)))))
    dom = acct._get_domain(prvs=prvs, num_self_compositions=ns, eps_error=ee, delta_error=de)
    tprvs = [P.TruncatedPrivacyRandomVariable(p, dom.t_min, dom.t_max) for p in prvs]
    cols = []
    for tp in tprvs:
        tC = dom.ts
        cols.append((tp.cdf(tC + dom.dt / 2), tp.cdf(tC - dom.dt / 2), float(tp.mean())))
    dprvs = [P.discretize(tp, dom) for tp in tprvs]
    comp = P.compose_heterogeneous(dprvs=list(dprvs), num_self_compositions=list(ns))
    whole = acct._get_dprv(eps_error=ee, delta_error=de)   # the accountant's own assembly of the same stages
    return {"L": float(L), "dom": dom, "cols": cols, "dprvs": dprvs, "comp": comp, "ns": ns, "whole": whole,
            "eps_all": eps_all, "eps_each": eps_each}


def fput(name, pmf, dom):
    return f"fput {name} {f2h(dom[0])} {f2h(dom[1])} {dom[2]} {f2h(dom[3])} {len(pmf)} " + " ".join(f2h(float(x)) for x in pmf)


def parse_fget(rep):
    w = rep.split()
    n = int(w[4])
    return [h2f(x) for x in w[5 : 5 + n]], (h2f(w[0]), h2f(w[1]), int(w[2]), h2f(w[3]))


def parse_eps(rep):
    if rep == "inf":
        return ("inf",)
    if rep.startswith("err") or rep.startswith("bad"):
        return (rep,)
    return ("ok",) + tuple(h2f(x) for x in rep.split())


def real_eps(d, delta, de, ee):
    try:
        r = d.compute_epsilon(delta, de, ee)
    except Exception as e:  # noqa: BLE001
        return (err_name(e),)
    if all(math.isinf(x) for x in r):
        return ("inf",)
    return ("ok",) + tuple(float(x) for x in r)


def eps_close(a, b, tol):
    if a[0] != b[0] or len(a) != len(b):
        return False
    return all(abs(x - y) <= tol * max(1.0, abs(x), abs(y)) for x, y in zip(a[1:], b[1:]))


def pmf_close(a, b, tol=1e-11):
    return len(a) == len(b) and all(abs(x - y) <= tol for x, y in zip(a, b))


def dom_close(a, b, tol=1e-10):
    return a[2] == b[2] and all(abs(a[i] - b[i]) <= tol * max(1.0, abs(a[i])) for i in (0, 1, 3))


def float_oracle(case):
    """property oracle for a float pipeline case: bracket the real accountant's triple by the
    independent truth (no model involved)"""
    return orc.check_history(case["hist"], case["delta"], case["ee"], case.get("de"), budget="small")


def run_float(ctx):
    rng = ctx.rng
    ncase = ctx.n(10, 150)
    cases = []
    for i in range(ncase):
        hist = gen_history(rng, kmax=3 if i % 4 else 5, nmax=6 if i % 3 else 9)
        ee = rng.choice([0.3, 0.5, 0.8, 1.0])
        de = 10 ** rng.uniform(-6, -3)
        delta = de * rng.choice([3.0, 10.0, 100.0])
        cases.append({"hist": hist, "ee": ee, "de": de, "delta": delta})
    lines, meta = [], []
    reals = []
    for i, c in enumerate(cases):
        try:
            R = real_pipeline(c["hist"], c["ee"], c["de"])
        except Exception as e:  # noqa: BLE001
            reals.append(("raise", err_name(e) + ":" + str(e)[:80]))
            meta.append(None)
            continue
        reals.append(R)
        dom = R["dom"]
        if dom.size > (900 if ctx.thorough else 500):  # keep the interpreted O(n²) model cheap
            meta.append("skip")
            continue
        m = {"start": len(lines)}
        tot = sum(R["ns"])
        lines.append(f"safel {f2h(R['eps_all'])} {f2h(c['ee'])} {len(R['eps_each'])} " + " ".join(f2h(x) for x in R["eps_each"]))
        lines.append(f"domain {f2h(R['L'])} {f2h(c['ee'])} {f2h(c['de'])} {tot}")
        names = []
        for j, (cr, cl, mc) in enumerate(R["cols"]):
            nm = f"c{i}_{j}"
            lines.append(
                f"disc {nm} {f2h(dom.t_min)} {f2h(dom.t_max)} {dom.size} {f2h(mc)} {len(cr)} " + " ".join(f2h(float(x)) for x in cr)
                + f" {len(cl)} " + " ".join(f2h(float(x)) for x in cl)
            )
            lines.append(f"fget {nm}")
            # the composition is run on the REAL discretize output (so a discretize deviation does not cascade)
            rn = f"r{i}_{j}"
            lines.append(fput(rn, R["dprvs"][j].pmf, dom_tuple(R["dprvs"][j].domain)))
            names.append(rn)
        lines.append(f"fhetero h{i} {len(names)} " + " ".join(f"{a} {n}" for a, n in zip(names, R["ns"])))
        lines.append(f"fget h{i}")
        lines.append(f"eps h{i} {f2h(c['delta'])} {f2h(c['de'])} {f2h(c['ee'])}")
        # compute_epsilon / compute_delta_estimate in isolation, on the REAL composed pmf
        lines.append(fput(f"k{i}", R["comp"].pmf, dom_tuple(R["comp"].domain)))
        lines.append(f"eps k{i} {f2h(c['delta'])} {f2h(c['de'])} {f2h(c['ee'])}")
        re_ = real_eps(R["comp"], c["delta"], c["de"], c["ee"])
        m["real_eps"] = re_
        probe = re_[2] if re_[0] == "ok" else 0.5
        m["probe"] = probe
        lines.append(f"dest k{i} {f2h(probe)}")
        m["end"] = len(lines)
        meta.append(m)
    rep = ctx.lean_driver("C07", lines) if lines else []
    for i, c in enumerate(cases):
        R, m = reals[i], meta[i]
        key = (tuple(c["hist"]), c["ee"], round(math.log10(c["de"]), 3), round(c["delta"] / c["de"]))
        if m is None:
            ctx.case(key, nontrivial=False, kind="float:real-raised:" + R[1].split(":")[1])
            ctx.count("float:skipped-real-exception")
            continue
        if m == "skip":
            ctx.case(key, nontrivial=False, kind="float:skipped-large-domain")
            continue
        r = rep[m["start"] : m["end"]]
        dom = R["dom"]
        bad = []
        # compute_safe_domain_size: max(...) and + 3 are single IEEE operations ⇒ bit-for-bit
        if r[0] != f2h(R["L"]):
            bad.append(("safe-domain-size", r[0], f2h(R["L"])))
        r = r[1:]
        # PRVAccountant._get_dprv must be exactly the stages above assembled over ITS history
        wp, wd = [float(x) for x in R["whole"].pmf], dom_tuple(R["whole"].domain)
        if wp != [float(x) for x in R["comp"].pmf] or wd != dom_tuple(R["comp"].domain):
            bad.append(("get_dprv-assembly", "staged pipeline over the history", "accountant._get_dprv differs from its own stages"))
        # _get_domain
        if r[0].startswith("err"):
            bad.append(("domain", r[0], dom_tuple(dom)))
        else:
            w = r[0].split()
            md = (h2f(w[0]), h2f(w[1]), int(w[2]), 0.0)
            if not dom_close(md, dom_tuple(dom), 1e-12):
                bad.append(("domain", md, dom_tuple(dom)))
        p = 1
        for j in range(len(R["cols"])):
            st, g = r[p], r[p + 1]
            p += 3
            if st != "ok":
                bad.append(("discretize", st, "ok"))
                continue
            mp, mdm = parse_fget(g)
            rp, rdm = [float(x) for x in R["dprvs"][j].pmf], dom_tuple(R["dprvs"][j].domain)
            if mp != rp:
                bad.append(("discretize-pmf", "bitwise", j))
            if not dom_close(mdm, rdm, 1e-11):
                bad.append(("discretize-domain", mdm, rdm))
        st, g, e1 = r[p], r[p + 1], r[p + 2]
        st2, e2, de_ = r[p + 3], r[p + 4], r[p + 5]
        rp, rdm = [float(x) for x in R["comp"].pmf], dom_tuple(R["comp"].domain)
        if st != "ok":
            bad.append(("compose", st, "ok"))
        else:
            mp, mdm = parse_fget(g)
            if not pmf_close(mp, rp):
                worst = max(range(len(rp)), key=lambda t: abs(mp[t] - rp[t])) if len(mp) == len(rp) else -1
                bad.append(("compose-pmf", worst, (mp[worst], rp[worst]) if worst >= 0 else (len(mp), len(rp))))
            if not dom_close(mdm, rdm):
                bad.append(("compose-domain", mdm, rdm))
            if not eps_close(parse_eps(e1), m["real_eps"], 1e-7):
                bad.append(("pipeline-eps", parse_eps(e1), m["real_eps"]))
        if not eps_close(parse_eps(e2), m["real_eps"], 1e-9):
            bad.append(("compute_epsilon", parse_eps(e2), m["real_eps"]))
        rde = float(R["comp"].compute_delta_estimate(m["probe"]))
        if not core.close(h2f(de_), rde, 1e-9, 1e-15):
            bad.append(("compute_delta_estimate", h2f(de_), rde))
        nz = sum(1 for x in rp if x > 1e-12)
        ctx.case(key, nontrivial=nz > 8 and m["real_eps"][0] == "ok", sample=c, kind=f"float:k={len(c['hist'])}")
        for _, _, n in c["hist"]:
            ctx.count("float-parity:" + ("even" if n % 2 == 0 else "odd"))
        ctx.count("float:eps:" + m["real_eps"][0])
        if not bad:
            ctx.validated()
        else:
            ctx.mismatch("pipeline:" + bad[0][0], c, [str(b[2])[:300] for b in bad], [str(b[1])[:300] for b in bad], oracle=float_oracle,
                         note="; ".join(b[0] for b in bad))


# --------------------------------------------------------------------------- compute_epsilon guards and ties
def gen_tie_cases(rng, n):
    """exactly representable situations at the `searchsorted` boundary: target == -ndelta[k] bit-for-bit.
    The exp values NumPy used are shipped to the model, so all remaining operations are single IEEE ops."""
    out = []
    for i in range(n):
        N = rng.choice([2, 4, 6, 8, 12])
        style = rng.choice(["last", "first", "interior", "random", "below-all", "delta<=0", "fp"])
        p = [rng.randint(0, 8) / 32.0 for _ in range(N)]
        if style in ("last", "first", "interior") or sum(p) == 0:
            p = [max(x, 1 / 32.0) for x in p]
        s = sum(p)
        p = [x / s for x in p] if rng.random() < 0.5 else p
        dt = rng.choice([0.25, 0.5, 0.125])
        tmax = 0.0 if style == "last" or rng.random() < 0.3 else rng.choice([1.0, 2.5, 0.75])
        tmin = tmax - dt * (N - 1)
        out.append({"style": style, "pmf": p, "dom": (tmin, tmax, N, 0.0), "k": rng.randrange(N), "ee": rng.choice([0.0, 0.125, 0.5])})
    return out


def tie_params(c):
    """choose (delta, delta_error) from NumPy's own ndelta so that a target ties bit-for-bit"""
    d = mk_real(c["pmf"], c["dom"])
    t = d.domain.ts
    p = d.pmf
    d1 = np.flip(np.flip(p).cumsum())
    d2 = np.flip(np.flip(p * np.exp(-t)).cumsum())
    nd = np.exp(t) * d2 - d1
    st, N = c["style"], len(p)
    if st == "last":       # tiny positive target just above the floating-point guard: lands in the last cell (ndelta[N-1] == 0 when t_max == 0)
        delta, de = 0.015625, 0.015625 - 2.0**-55
    elif st == "first":    # estimate target ties with ndelta[0] → side='left' gives i = 0 → RuntimeError
        delta, de = float(-nd[0]), 0.0
    elif st == "interior":
        k = max(1, min(N - 2, c["k"])) if N > 2 else N - 1
        delta, de = float(-nd[k]), 0.0
    elif st == "below-all":
        delta, de = float(-nd[0]) + 0.5, 0.0
    elif st == "delta<=0":
        delta, de = -0.25 if c["k"] % 2 else 0.0, 0.0
    elif st == "fp":
        delta, de = 1e-19, 0.0
    else:
        delta, de = abs(float(nd[c["k"]])) * 0.5 + 1e-3, 1e-4
    return d, delta, de, t, np.exp(t), np.exp(-t)


def tie_oracle(c):
    """property on the real code: a returned triple must be ordered and each value must invert the
    real compute_delta_estimate at its target"""
    d, delta, de, *_ = tie_params(c)
    r = real_eps(d, delta, de, c["ee"])
    if r[0] != "ok":
        # a distribution with mass above the target must yield an epsilon: exceptions are failures of the property
        if r[0] in ("err:index",):
            return ("C07:compute-epsilon:index-error", f"compute_epsilon raised IndexError on pmf={c['pmf']} dom={c['dom']} delta={delta} delta_error={de}", {})
        return None
    lo, est, hi = r[1:]
    if not (lo <= est + 1e-12 and est <= hi + 1e-12):
        return ("C07:triple-order", f"(lower, estimate, upper) = {(lo, est, hi)} not ordered; pmf={c['pmf']} dom={c['dom']} delta={delta} de={de} ee={c['ee']}", {})
    for nm, e, tg in (("estimate", est, delta), ("upper-eps_error", hi - c["ee"], delta - de), ("lower+eps_error", lo + c["ee"], delta + de)):
        got = float(d.compute_delta_estimate(e))
        if abs(got - tg) > 1e-9:
            return ("C07:find-epsilon-inversion", f"delta_p({nm}={e}) = {got} but the target was {tg}; pmf={c['pmf']} dom={c['dom']}", {})
    return None


def run_ties(ctx):
    cases = gen_tie_cases(ctx.rng, ctx.n(80, 2000))
    lines = []
    for i, c in enumerate(cases):
        d, delta, de, t, et, ent = tie_params(c)
        c["_real"] = real_eps(d, delta, de, c["ee"])
        c["_par"] = (delta, de)
        lines.append(fput(f"t{i}", c["pmf"], c["dom"]))
        cols = f"{len(t)} " + " ".join(f2h(float(x)) for x in t) + f" {len(t)} " + " ".join(f2h(float(x)) for x in et) + f" {len(t)} " + " ".join(f2h(float(x)) for x in ent)
        lines.append(f"epsx t{i} {f2h(delta)} {f2h(de)} {f2h(c['ee'])} {cols}")
    rep = ctx.lean_driver("C07", lines)
    for i, c in enumerate(cases):
        mdl = parse_eps(rep[2 * i + 1])
        impl = c.pop("_real")
        par = c.pop("_par")
        ctx.case((c["style"], tuple(c["pmf"]), c["dom"], c["k"], c["ee"]), nontrivial=c["style"] in ("last", "first", "interior", "random", "below-all"),
                 kind="tie:" + c["style"] + ":" + impl[0])
        if eps_close(mdl, impl, 1e-12):
            ctx.validated()
        else:
            ctx.mismatch("compute_epsilon-ties", dict(c, delta=par[0], de=par[1]), list(impl), list(mdl), oracle=tie_oracle)


# --------------------------------------------------------------------------- search
def run_search(ctx):
    rng = ctx.rng
    n = ctx.n(8, 160)
    extra = ctx.n(4, 24)   # every run: short-phase / long-phase exact-Gaussian histories (cheap: closed-form truth)
    for i in range(n + extra):
        case = orc.gen_search_case(rng, i, ctx.thorough, style="gauss-lengths" if i >= n else None)
        res, info = orc.evaluate(case)
        key = (tuple(case["hist"]), case["delta"], case["ee"])
        ctx.case(key, nontrivial=info.get("bracketed", False), sample=case if i < 2 else None, kind="search:" + info.get("truth", "none"))
        for _, _, cnt in case["hist"]:
            ctx.count("search-parity:" + ("even" if cnt % 2 == 0 else "odd"))
        if info.get("raised"):
            ctx.count("search:accountant-raised:" + info["raised"])
        if res:
            ctx.property_failure(res[0], res[1], dict(res[2], failing_input=case))


def regenerate(ctx):
    from .. import regen
    from . import c07_trans as T
    regen.regenerate(ctx, T, "Opacus.Generated.PrvDomain", "PRV domain formulas (accountants/prv.py, analysis/prv/domain.py)")


def run(ctx):
    import time

    regenerate(ctx)

    for f in (run_exact, run_small, run_ties, run_float, run_search):
        t = time.time()
        f(ctx)
        ctx.extra["t_" + f.__name__] = round(time.time() - t, 1)
        ctx.log(f"{f.__name__}: {ctx.extra['t_' + f.__name__]}s")


def replay(ctx, rp):
    c = rp.get("failing_input") or rp.get("case")
    res = None
    if isinstance(c, dict) and "kind" in c and "d" in c:
        c = dict(c, d=[{"pmf": d["pmf"], "dom": tuple(d["dom"])} for d in c["d"]])
        res = exact_oracle(c)
    elif isinstance(c, dict) and "style" in c:
        res = tie_oracle(dict(c, dom=tuple(c["dom"])))
    elif isinstance(c, dict) and "hist" in c:
        c = dict(c, hist=[tuple(h) for h in c["hist"]])
        res, _ = orc.evaluate(c)
        if res is None and "de" in c:
            res = float_oracle(c)
    elif isinstance(c, list) and c and c[0] == "aligned":
        res = small_oracle(c)
    if res:
        print("REPRODUCED:", res[0], res[1])
        ctx.violations.append(res[0])
    else:
        print("not reproduced on this tree")
