"""C14 helpers: case <-> real layers (`DPMultiheadAttention`, `nn.MultiheadAttention`) and
case <-> driver line.  Everything that touches the real code is observed from outside
(`torch.nn.functional.softmax` is wrapped while a layer runs to read the pre-softmax scores)."""
from __future__ import annotations

import contextlib
import math

import torch
import torch.nn as nn

from ..core import f2h, h2f

DT = torch.float64


# ----------------------------------------------------------------------------- tensors of a case
def _gen(case):
    return torch.Generator().manual_seed(int(case["seed"]) & 0x7FFFFFFF)


def _rand(g, shape, integer):
    if integer:
        return torch.randint(-2, 3, tuple(shape), generator=g).to(DT)
    return torch.randn(tuple(shape), generator=g, dtype=DT)


def dims(case):
    h, d = case["h"], case["d"]
    E = h * d
    Kd = case["kdim"] if case["kdim"] is not None else E
    Vd = case["vdim"] if case["vdim"] is not None else E
    return h, d, E, Kd, Vd


def make_tensors(case):
    """parameters (torch layout) and inputs of a case, all from case['seed'] (or case['explicit'])"""
    h, d, E, Kd, Vd = dims(case)
    L, S, B = case["L"], case["S"], case["B"]
    integer = bool(case.get("integer"))
    g = _gen(case)
    t = {}
    t["Wq"] = _rand(g, (E, E), integer)
    t["Wk"] = _rand(g, (E, Kd), integer)
    t["Wv"] = _rand(g, (E, Vd), integer)
    t["Wo"] = _rand(g, (E, E), integer)
    if case["bias"]:
        t["bin"] = _rand(g, (3 * E,), integer)
        t["bo"] = _rand(g, (E,), integer)
    if case["abkv"]:
        t["bias_k"] = _rand(g, (1, 1, E), integer)
        t["bias_v"] = _rand(g, (1, 1, E), integer)
    qs, ks, vs = ((B, L, E), (B, S, Kd), (B, S, Vd)) if case["bf"] else ((L, B, E), (S, B, Kd), (S, B, Vd))
    t["query"], t["key"], t["value"] = _rand(g, qs, integer), _rand(g, ks, integer), _rand(g, vs, integer)
    t["c_out"] = _rand(g, qs, False)            # loss coefficients for the gradient comparison
    t["c_w"] = _rand(g, (B, L, S + int(case["abkv"]) + int(case["aza"])), False)
    for k, v in (case.get("explicit") or {}).items():
        t[k] = torch.tensor(v, dtype=DT).reshape(t[k].shape)
    return t


MASK_DTYPES = {"b2": torch.bool, "b3": torch.bool, "f2": DT, "f3": DT, "u2": torch.uint8, "u3": torch.uint8}


def mask_tensor(m):
    k = m["kind"]
    if k == "none":
        return None
    if k == "bad":      # unsupported dtype (int64 / float16)
        return torch.tensor(m["data"], dtype=getattr(torch, m.get("dtype", "int64"))).reshape(m["shape"])
    if k == "other":    # 1-D or 4-D
        return torch.tensor(m["data"], dtype=DT).reshape(m["shape"])
    return torch.tensor(m["data"], dtype=MASK_DTYPES[k]).reshape(m["shape"])


def kpm_tensor(m):
    k = m["kind"]
    if k == "none":
        return None
    dt = {"bool": torch.bool, "add": DT, "ubool": torch.uint8}[k]
    return torch.tensor(m["data"], dtype=dt).reshape(m["shape"])


# ----------------------------------------------------------------------------- real layers
def build_torch(case, t):
    h, d, E, Kd, Vd = dims(case)
    m = nn.MultiheadAttention(E, h, dropout=case.get("dropout", 0.0), bias=case["bias"], add_bias_kv=case["abkv"], add_zero_attn=case["aza"],
                              kdim=case["kdim"], vdim=case["vdim"], batch_first=case["bf"], dtype=DT)
    with torch.no_grad():
        if m._qkv_same_embed_dim:
            m.in_proj_weight.copy_(torch.cat([t["Wq"], t["Wk"], t["Wv"]], 0))
        else:
            m.q_proj_weight.copy_(t["Wq"]); m.k_proj_weight.copy_(t["Wk"]); m.v_proj_weight.copy_(t["Wv"])
        m.out_proj.weight.copy_(t["Wo"])
        if case["bias"]:
            m.in_proj_bias.copy_(t["bin"]); m.out_proj.bias.copy_(t["bo"])
        if case["abkv"]:
            m.bias_k.copy_(t["bias_k"]); m.bias_v.copy_(t["bias_v"])
    m.train() if not case.get("dropout") else m.eval()     # dropout > 0 is compared in eval mode (there it is the identity)
    return m


def build_dp(case, state_dict):
    from opacus.layers import DPMultiheadAttention
    old = torch.get_default_dtype()
    torch.set_default_dtype(DT)
    try:
        m = DPMultiheadAttention(dims(case)[2], case["h"], dropout=case.get("dropout", 0.0), bias=case["bias"], add_bias_kv=case["abkv"],
                                 add_zero_attn=case["aza"], kdim=case["kdim"], vdim=case["vdim"], batch_first=case["bf"])
    finally:
        torch.set_default_dtype(old)
    if state_dict is not None:
        m.load_state_dict(state_dict)
    m.train() if not case.get("dropout") else m.eval()     # dropout > 0 is compared in eval mode (there it is the identity)
    return m


def build_dp_manual(case, t):
    """the DP layer with its parameters assigned directly (no load_state_dict involved)"""
    h, d, E, Kd, Vd = dims(case)
    m = build_dp(case, None)
    with torch.no_grad():
        m.qlinear.weight.copy_(t["Wq"]); m.klinear.weight.copy_(t["Wk"]); m.vlinear.weight.copy_(t["Wv"])
        m.out_proj.weight.copy_(t["Wo"])
        if case["bias"]:
            m.qlinear.bias.copy_(t["bin"][:E]); m.klinear.bias.copy_(t["bin"][E:2 * E]); m.vlinear.bias.copy_(t["bin"][2 * E:])
            m.out_proj.bias.copy_(t["bo"])
        if case["abkv"]:
            m.seq_bias_k.bias.copy_(t["bias_k"].reshape(E)); m.seq_bias_v.bias.copy_(t["bias_v"].reshape(E))
    return m


@contextlib.contextmanager
def softmax_tap():
    """record the argument of every F.softmax call (both layers call it through torch.nn.functional)"""
    import torch.nn.functional as F
    real = F.softmax
    seen = []

    def tap(input, *a, **kw):
        seen.append(input.detach().clone())
        return real(input, *a, **kw)

    F.softmax = tap
    try:
        yield seen
    finally:
        F.softmax = real


def map_exc(e: BaseException) -> str:
    m = str(e)
    if isinstance(e, ValueError):
        if "types are supported for attn_mask" in m:
            return "err:mask-dtype"
        if "2D attn_mask is not correct" in m:
            return "err:mask-size2"
        if "3D attn_mask is not correct" in m:
            return "err:mask-size3"
        if "attn_mask's dimension" in m:
            return "err:mask-dim"
    if isinstance(e, AssertionError) and m == "":
        return "err:kpm-size"
    if isinstance(e, RuntimeError):
        if "only supports boolean masks" in m:
            return "err:kpm-dtype"
        if "must match the size of tensor" in m or "broadcast" in m or "expanded size" in m:
            return "err:broadcast"
    return "err:" + type(e).__name__ + ":" + m[:60]


def run_layer(layer, case, t, grads=False):
    """-> dict(status='ok', out, w, scores[, grads]) or dict(status='err:…', message)"""
    q, k, v = (t[n].clone().requires_grad_(grads) for n in ("query", "key", "value"))
    am, kp = mask_tensor(case["mask"]), kpm_tensor(case["kpm"])
    layer.zero_grad()
    try:
        with softmax_tap() as seen:
            out, w = layer(q, k, v, key_padding_mask=kp, need_weights=bool(case.get("nw", True)), attn_mask=am)
    except Exception as e:  # noqa: BLE001 – every implementation error is data here
        return {"status": map_exc(e), "message": f"{type(e).__name__}: {e}"[:300]}
    r = {"status": "ok", "out": out.detach(), "w": None if w is None else w.detach(), "scores": seen[-1] if seen else None}
    if grads:
        loss = (out * t["c_out"]).sum() + ((w * t["c_w"]).sum() if w is not None else 0.0)
        loss.backward()
        r["gin"] = {"query": q.grad, "key": k.grad, "value": v.grad}
    return r


def dp_param_grads_as_torch(dp, case):
    """parameter gradients of the DP layer, re-assembled under nn.MultiheadAttention's names"""
    h, d, E, Kd, Vd = dims(case)
    g = {}
    gq, gk, gv = dp.qlinear.weight.grad, dp.klinear.weight.grad, dp.vlinear.weight.grad
    if Kd == E and Vd == E:
        g["in_proj_weight"] = torch.cat([gq, gk, gv], 0)
    else:
        g["q_proj_weight"], g["k_proj_weight"], g["v_proj_weight"] = gq, gk, gv
    if case["bias"]:
        g["in_proj_bias"] = torch.cat([dp.qlinear.bias.grad, dp.klinear.bias.grad, dp.vlinear.bias.grad], 0)
        g["out_proj.bias"] = dp.out_proj.bias.grad
    g["out_proj.weight"] = dp.out_proj.weight.grad
    if case["abkv"]:
        g["bias_k"] = dp.seq_bias_k.bias.grad.reshape(1, 1, E)
        g["bias_v"] = dp.seq_bias_v.bias.grad.reshape(1, 1, E)
    return g


# ----------------------------------------------------------------------------- driver lines
def _fl(x):
    return " ".join(f2h(float(v)) for v in x.detach().reshape(-1).tolist())


def _bits(x):
    return " ".join("1" if bool(v) else "0" for v in x.reshape(-1).tolist())


def mask_tokens(m):
    k = m["kind"]
    if k in ("none", "bad", "other"):
        return k
    sh = " ".join(str(s) for s in m["shape"])
    tt = mask_tensor(m)
    if k in ("b2", "b3"):
        return f"{k} {sh} {_bits(tt)}"
    if k in ("u2", "u3"):   # uint8 is converted to bool by the layer (with a deprecation warning)
        return f"b{k[1]} {sh} {_bits(tt != 0)}"
    return f"{k} {sh} {_fl(tt)}"


def kpm_tokens(m):
    k = m["kind"]
    if k == "none":
        return k
    sh = " ".join(str(s) for s in m["shape"])
    tt = kpm_tensor(m)
    if k == "add":
        return f"add {sh} {_fl(tt)}"
    return f"bool {sh} {_bits(tt != 0)}"


def driver_line(op, case, variant, P, t):
    """P: dict Wq bq Wk bk Wv bv Wo bo seqk seqv (the layer's parameters as the *model* names them)"""
    h, d, E, Kd, Vd = dims(case)
    v = lambda n: "1" if variant.get(n) == "repaired" else "0"  # noqa: E731
    head = [op, "1" if case["bf"] else "0", v("merge"), v("maskCheck"), v("kpmFloat"), h, d, Kd, Vd,
            int(case["abkv"]), int(case["aza"]), case["B"], case["L"], case["S"], int(case["bias"])]
    parts = [" ".join(str(x) for x in head)]
    for w, b in (("Wq", "bq"), ("Wk", "bk"), ("Wv", "bv"), ("Wo", "bo")):
        parts.append(_fl(P[w]))
        if case["bias"]:
            parts.append(_fl(P[b]))
    if case["abkv"]:
        parts += [_fl(P["seqk"]), _fl(P["seqv"])]
    parts += [_fl(t["query"]), _fl(t["key"]), _fl(t["value"]), mask_tokens(case["mask"]), kpm_tokens(case["kpm"])]
    return " ".join(p for p in parts if p != "")


def params_from_dp(dp, case):
    P = {"Wq": dp.qlinear.weight, "Wk": dp.klinear.weight, "Wv": dp.vlinear.weight, "Wo": dp.out_proj.weight}
    if case["bias"]:
        P.update(bq=dp.qlinear.bias, bk=dp.klinear.bias, bv=dp.vlinear.bias, bo=dp.out_proj.bias)
    if case["abkv"]:
        P.update(seqk=dp.seq_bias_k.bias, seqv=dp.seq_bias_v.bias)
    return P


def params_from_torch(m, case):
    h, d, E, Kd, Vd = dims(case)
    if m._qkv_same_embed_dim:
        Wq, Wk, Wv = m.in_proj_weight[:E], m.in_proj_weight[E:2 * E], m.in_proj_weight[2 * E:]
    else:
        Wq, Wk, Wv = m.q_proj_weight, m.k_proj_weight, m.v_proj_weight
    P = {"Wq": Wq, "Wk": Wk, "Wv": Wv, "Wo": m.out_proj.weight}
    if case["bias"]:
        b = m.in_proj_bias
        P.update(bq=b[:E], bk=b[E:2 * E], bv=b[2 * E:], bo=m.out_proj.bias)
    if case["abkv"]:
        P.update(seqk=m.bias_k.reshape(E), seqv=m.bias_v.reshape(E))
    return P


def parse_reply(rep):
    """-> ('ok', out, w, scores) lists of floats | (status,)"""
    if not rep.startswith("ok"):
        return (rep.strip(),)
    body = rep[2:].split("|")
    return ("ok",) + tuple([h2f(x) for x in part.split()] for part in body)


def flat(x):
    return [float(v) for v in x.detach().reshape(-1).tolist()]


def scale_is_exact(d):
    r = math.isqrt(d)
    return r * r == d and (r & (r - 1)) == 0      # d ∈ {1, 4, 16, …}: d**-0.5 is a power of two
