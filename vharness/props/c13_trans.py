"""Translator tie for C13: the `forward` of `DPRNNCell`, `DPGRUCell`, `DPLSTMCell` (opacus/layers/dp_rnn.py) →
lean/OpacusLean/Generated/RnnCellEqs.lean, as the per-coordinate equations of one cell step over an abstract scalar with
opaque activations (`Act R`): which chunk of `torch.split(gates, hidden_size, 1)` feeds which gate (the gate ORDER that makes
the weights interchangeable with `torch.nn`), which activation is applied to it, and how state and gates are combined.

Symbolic evaluation: a value is a *vector* (one term per chunk `k`: `self.ih(x)` is `a_k`, `self.hh(h)` is `b_k`) or a
*scalar* term; elementwise `+ - *`, `torch.sigmoid / tanh / relu` act chunk-wise on vectors; `torch.split(v, self.hidden_size, 1)`
unpacks a vector into its chunks in order.  Row slicing for packed sequences (`h_prev[:batch_size_t, :]`, and the
`if batch_size_t is None … else …` statement / expression forms) does not change a coordinate and is dropped: both arms must
give the same term; a helper method that returns its first argument, possibly row-sliced, is the identity.  `if hx is None:` (the default zero state) is skipped – it is part of the layer model, not of the cell.
`Props/C13.lean` proves the generated equations equal to the closed forms of `rnn_cell_equation`, `gru_cell_equation`,
`lstm_cell_equations`.
"""
from __future__ import annotations

import ast
from pathlib import Path

from .. import core
from ..pytrans import Untranslatable, find_function

GEN_FILE = core.LEAN / "OpacusLean" / "Generated" / "RnnCellEqs.lean"
ACT = {"torch.sigmoid": "Act.sigmoid", "torch.tanh": "Act.tanh", "torch.relu": "Act.relu",
       "F.sigmoid": "Act.sigmoid", "F.tanh": "Act.tanh", "F.relu": "Act.relu"}


class Vec:
    def __init__(self, f):
        self.f = f


def lift(op, x, y):
    if isinstance(x, Vec) or isinstance(y, Vec):
        fx = x.f if isinstance(x, Vec) else (lambda k: x)
        fy = y.f if isinstance(y, Vec) else (lambda k: y)
        return Vec(lambda k: f"({fx(k)} {op} {fy(k)})")
    return f"({x} {op} {y})"


class Cell:
    tree = None                       # module ast, for row-slicing helpers

    def __init__(self, consts):
        self.env = {}
        self.consts = consts          # e.g. {"self.nonlinearity": "tanh"}

    def row_slicer(self, name):
        """is `self.<name>(state, …)` a method (of any class of the module) that returns its first argument, possibly row-sliced?"""
        for c in ast.walk(self.tree):
            if isinstance(c, ast.FunctionDef) and c.name == name:
                params = [a.arg for a in c.args.args if a.arg != "self"]
                rets = [r.value for r in ast.walk(c) if isinstance(r, ast.Return)]
                if params and rets and all(isinstance(self.strip(r), ast.Name) and self.strip(r).id == params[0] for r in rets):
                    return True
        return False

    def strip(self, n):
        while isinstance(n, ast.Subscript):
            n = n.value
        return n

    def ev(self, n):
        n = self.strip(n)
        if isinstance(n, ast.Name):
            if n.id in self.env:
                return self.env[n.id]
            raise Untranslatable("name " + n.id)
        if isinstance(n, ast.Constant) and isinstance(n.value, (int, float)) and not isinstance(n.value, bool) and float(n.value).is_integer() and 0 <= n.value <= 1:
            return "0" if n.value == 0 else "1"
        if isinstance(n, ast.IfExp):
            a, b = self.ev(n.body), self.ev(n.orelse)
            if "batch_size_t" not in ast.unparse(n.test) or self.show(a) != self.show(b):
                raise Untranslatable("conditional expression " + ast.unparse(n)[:80])
            return a
        if isinstance(n, ast.BinOp):
            op = {ast.Add: "+", ast.Sub: "-", ast.Mult: "*"}.get(type(n.op))
            if op:
                return lift(op, self.ev(n.left), self.ev(n.right))
        if isinstance(n, ast.Call):
            f = ast.unparse(n.func)
            if f in ("self.ih", "self.hh") and len(n.args) == 1:
                src = self.ev(n.args[0])
                want = "x" if f == "self.ih" else "hPrev"
                if src != want:
                    raise Untranslatable(f"{f} applied to {ast.unparse(n.args[0])[:40]}")
                p = "a" if f == "self.ih" else "b"
                return Vec(lambda k, p=p: f"{p}{k}")
            if isinstance(n.func, ast.Attribute) and ast.unparse(n.func.value) == "self" and n.args and self.row_slicer(n.func.attr):
                return self.ev(n.args[0])
            if f in ACT and len(n.args) == 1:
                v = self.ev(n.args[0])
                return Vec(lambda k: f"({ACT[f]} {v.f(k)})") if isinstance(v, Vec) else f"({ACT[f]} {v})"
        raise Untranslatable("expression " + ast.unparse(n)[:80])

    @staticmethod
    def show(v):
        return "|".join(v.f(k) for k in range(4)) if isinstance(v, Vec) else str(v)

    def run(self, stmts):
        """returns the returned value (a term or a tuple of terms)"""
        for i, s in enumerate(stmts):
            if isinstance(s, ast.Expr) and isinstance(s.value, ast.Constant):
                continue
            if isinstance(s, ast.If):
                test = ast.unparse(s.test)
                if test == "hx is None":
                    continue
                if "batch_size_t" in test:
                    saved = dict(self.env)
                    self.run_block(s.body)
                    e1, self.env = self.env, dict(saved)
                    self.run_block(s.orelse)
                    if {k: self.show(v) for k, v in e1.items()} != {k: self.show(v) for k, v in self.env.items()}:
                        raise Untranslatable("the two arms of `if batch_size_t …` differ in more than row slicing")
                    continue
                if isinstance(s.test, ast.Compare) and ast.unparse(s.test.left) in self.consts and isinstance(s.test.ops[0], ast.Eq):
                    if self.consts[ast.unparse(s.test.left)] == ast.literal_eval(s.test.comparators[0]):
                        return self.run(list(s.body) + stmts[i + 1:])
                    return self.run(list(s.orelse) + stmts[i + 1:])
                raise Untranslatable("statement if " + test[:80])
            if isinstance(s, ast.Raise):
                raise Untranslatable("reaches a raise")
            if isinstance(s, ast.Return):
                if isinstance(s.value, ast.Tuple):
                    return tuple(self.ev(e) for e in s.value.elts)
                return self.ev(s.value)
            if isinstance(s, ast.Assign) and len(s.targets) == 1:
                t, v = s.targets[0], s.value
                if isinstance(t, ast.Tuple) and all(isinstance(e, ast.Name) for e in t.elts):
                    names = [e.id for e in t.elts]
                    if isinstance(v, ast.Call) and ast.unparse(v.func) == "torch.split" and len(v.args) == 3 \
                            and ast.unparse(v.args[1]) == "self.hidden_size" and ast.unparse(v.args[2]) == "1":
                        vec = self.ev(v.args[0])
                        if not isinstance(vec, Vec):
                            raise Untranslatable("torch.split of a scalar")
                        for k, nm in enumerate(names):
                            self.env[nm] = vec.f(k)
                        continue
                    if isinstance(v, ast.Name) and v.id == "hx" and names == ["h_prev", "c_prev"]:
                        self.env["h_prev"], self.env["c_prev"] = "hPrev", "cPrev"
                        continue
                    if isinstance(v, ast.Tuple) and len(v.elts) == len(names):
                        vals = [self.ev(e) for e in v.elts]
                        self.env.update(zip(names, vals))
                        continue
                if isinstance(t, ast.Name):
                    self.env[t.id] = self.ev(v)
                    continue
            raise Untranslatable("statement " + ast.unparse(s)[:100])
        raise Untranslatable("forward falls off its end")

    def run_block(self, stmts):
        for s in stmts:
            if isinstance(s, ast.Assign) and len(s.targets) == 1 and isinstance(s.targets[0], ast.Name):
                self.env[s.targets[0].id] = self.ev(s.value)
            else:
                raise Untranslatable("statement in an `if batch_size_t` arm: " + ast.unparse(s)[:80])


def cell(tree, cls, consts, state):
    fn = find_function(tree, "forward", cls=cls)
    c = Cell(consts)
    c.env["input"] = "x"
    if state == "h":
        c.env["hx"] = "hPrev"
    r = c.run(list(fn.body))
    for v in (r if isinstance(r, tuple) else (r,)):
        if isinstance(v, Vec):
            raise Untranslatable(f"{cls}.forward returns an unsplit vector other than through chunk 0")
    return r


def scal(v):
    return v.f(0) if isinstance(v, Vec) else v


def translate():
    tree = ast.parse((Path(core.REPO) / "opacus/layers/dp_rnn.py").read_text())
    Cell.tree = tree
    # DPRNNCell has a single chunk: its result is the chunk-0 term
    def rnn(nl):
        fn = find_function(tree, "forward", cls="DPRNNCell")
        c = Cell({"self.nonlinearity": nl})
        c.env.update({"input": "x", "hx": "hPrev"})
        return scal(c.run(list(fn.body)))
    gru = cell(tree, "DPGRUCell", {}, "h")
    lstm = cell(tree, "DPLSTMCell", {}, "hc")
    if not (isinstance(lstm, tuple) and len(lstm) == 2):
        raise Untranslatable("DPLSTMCell.forward does not return a pair")
    hdr = "{R : Type} [Add R] [Mul R] [Sub R] [Zero R] [One R] [Act R]"
    out = ["import OpacusLean.Model.RnnCells",
           "/-! GENERATED by vharness/props/c13_trans.py from opacus/layers/dp_rnn.py – do not edit. -/",
           "namespace Opacus.Generated.RnnCells", "open Opacus.Rnn", "",
           "/-- `DPRNNCell.forward`, one coordinate: `a0` = `ih(x)`, `b0` = `hh(h_prev)` at that coordinate -/",
           f"def rnnTanh {hdr} (a0 b0 : R) : R :=", "  " + rnn("tanh"),
           f"def rnnRelu {hdr} (a0 b0 : R) : R :=", "  " + rnn("relu"), "",
           "/-- `DPGRUCell.forward`, coordinate `j`: `a_k` / `b_k` = chunk `k` of `ih(x)` / `hh(h_prev)` at `j`, `hPrev` = `h_prev[j]` -/",
           f"def gru {hdr} (a0 a1 a2 b0 b1 b2 hPrev : R) : R :=", "  " + scal(gru), "",
           "/-- `DPLSTMCell.forward`, coordinate `j`: returns `(h_t[j], c_t[j])` -/",
           f"def lstm {hdr} (a0 a1 a2 a3 b0 b1 b2 b3 cPrev : R) : R × R :=", f"  ({scal(lstm[0])}, {scal(lstm[1])})", "",
           "end Opacus.Generated.RnnCells"]
    return "\n".join(out) + "\n"


if __name__ == "__main__":
    print(translate(), end="")
