"""Independent truth for C07 (failing-input search only; never stands in for a theorem).

* q = 1 (plain Gaussian mechanism, any heterogeneous history): the exact curve
      delta(eps) = Phi(mu/2 - eps/mu) - e^eps Phi(-mu/2 - eps/mu),   mu^2 = sum_i n_i / sigma_i^2.
* q < 1: a *rigorous* bracket of eps(delta) for the composed Poisson-subsampled Gaussian from two
  privacy-loss distributions discretised on a fine grid – every loss rounded UP (pessimistic, mass above
  the window sent to +inf) and every loss rounded DOWN (optimistic, mass below the window dropped) –
  composed by zero-padded FFT convolutions with the same one-sided truncation after every product.
  Own code: no Opacus function is used (cdf via scipy.special.ndtr, not the erfc form of prvs.py).
* RDP accountant: sound (looser) upper bound.

Adjacency/direction: like Opacus (and Gopi et al.) the dominating pair is P = (1-q)N(0,s^2)+qN(1,s^2)
vs Q = N(0,s^2) and the loss log(dP/dQ) under P (remove direction; dominates by Zhu-Dong-Wang 2022).
"""
from __future__ import annotations

import math
import warnings

import numpy as np
from scipy import optimize
from scipy.fft import irfft, next_fast_len, rfft
from scipy.special import ndtr

warnings.filterwarnings("ignore")

SLACK = 2e-6


# --------------------------------------------------------------------------- q = 1
def gauss_delta(mu, eps):
    return float(ndtr(mu / 2 - eps / mu) - math.exp(eps) * ndtr(-mu / 2 - eps / mu))


def gauss_eps(mu, delta):
    if gauss_delta(mu, 0.0) <= delta:
        return 0.0
    hi = 1.0
    while gauss_delta(mu, hi) > delta:
        hi *= 2
        if hi > 1e4:
            return float("inf")
    return float(optimize.brentq(lambda e: gauss_delta(mu, e) - delta, 0.0, hi, xtol=1e-13, rtol=1e-14))


# --------------------------------------------------------------------------- PLD bracket
def _cdf_sf(t, q, sigma):
    """cdf and survival function of the one-step privacy loss at the points t"""
    t = np.asarray(t, dtype=np.float64)
    lo = math.log1p(-q) if q < 1 else -math.inf
    ok = t > lo
    with np.errstate(all="ignore"):
        if q < 1:
            arg = np.where(ok, (np.expm1(t) + q) / q, 1.0)
            x = sigma**2 * np.log(arg) + 0.5
        else:
            x = sigma**2 * t + 0.5
    cdf = np.where(ok, (1 - q) * ndtr(x / sigma) + q * ndtr((x - 1) / sigma), 0.0)
    sf = np.where(ok, (1 - q) * ndtr(-x / sigma) + q * ndtr(-(x - 1) / sigma), 1.0)
    return cdf, sf


class Pld:
    """finite masses m[k] on the grid points (k-K)*h, plus mass at +inf; `up` = pessimistic"""

    def __init__(self, m, inf, K, h, up):
        self.m, self.inf, self.K, self.h, self.up = m, inf, K, h, up

    @classmethod
    def one_step(cls, q, sigma, K, h, up):
        t = (np.arange(-K, K + 1)) * h
        cdf, sf = _cdf_sf(t, q, sigma)
        # mass of (t[k-1], t[k]]  – from cdf differences in the lower half, sf differences in the upper
        dm = np.where(cdf[1:] < 0.5, cdf[1:] - cdf[:-1], sf[:-1] - sf[1:])
        dm = np.maximum(dm, 0.0)
        m = np.zeros(2 * K + 1)
        if up:
            m[1:] = dm            # rounded up to the right end
            m[0] += cdf[0]        # everything below the window rounded up to the first point
            inf = float(sf[-1])   # everything above the window → +inf
        else:
            m[:-1] = dm           # rounded down to the left end
            m[-1] += sf[-1]       # everything above the window rounded down to the last point
            inf = 0.0             # mass at or below the first point dropped (→ -inf, contributes nothing)
        return cls(m, inf, K, h, up)

    def conv(self, o):
        K = self.K
        n = 4 * K + 1
        L = next_fast_len(n, real=True)
        full = irfft(rfft(self.m, L) * rfft(o.m, L), L)[:n]   # index s ↔ loss (s - 2K) h
        full = np.maximum(full, 0.0)
        m = full[K : 3 * K + 1].copy()
        inf = self.inf + o.inf - self.inf * o.inf
        if self.up:
            m[0] += full[:K].sum()
            inf += float(full[3 * K + 1 :].sum())
        else:
            m[-1] += full[3 * K + 1 :].sum()
        return Pld(m, inf, K, self.h, self.up)

    def power(self, n):
        res, base = None, self
        while n:
            if n & 1:
                res = base if res is None else res.conv(base)
            n >>= 1
            if n:
                base = base.conv(base)
        return res

    def delta(self, eps):
        t = (np.arange(-self.K, self.K + 1)) * self.h
        w = -np.expm1(np.minimum(eps - t, 0.0))
        return float(np.dot(self.m, w) + self.inf)

    def eps(self, delta):
        lo, hi = -self.K * self.h, self.K * self.h
        if self.delta(hi) > delta:
            return float("inf")
        if self.delta(lo) <= delta:
            return lo
        return float(optimize.brentq(lambda e: self.delta(e) - delta, lo, hi, xtol=1e-12, rtol=1e-14))


def rdp_eps(hist, delta):
    from opacus.accountants import RDPAccountant

    a = RDPAccountant()
    a.history = [tuple(h) for h in hist]
    return float(a.get_epsilon(delta))


def pld_bracket(hist, deltas, gap, max_points=1_500_000):
    """returns {delta: (eps_lo, eps_hi)} or None when the grid would be too large"""
    ntot = sum(n for _, _, n in hist)
    h = gap / max(ntot, 1)
    Lc = max(rdp_eps(hist, min(deltas) * 1e-4), 1.0) + 2.0
    K = int(math.ceil(Lc / h))
    if 2 * K + 1 > max_points:
        return None
    out = {}
    comp = {}
    for up in (True, False):
        tot = None
        for sigma, q, n in hist:
            p = Pld.one_step(q, sigma, K, h, up).power(n)
            tot = p if tot is None else tot.conv(p)
        comp[up] = tot
    for d in deltas:
        if d <= 0:
            out[d] = (float("inf"), float("inf"))
        else:
            out[d] = (comp[False].eps(d), comp[True].eps(d))
    return out


def truth(hist, deltas, gap, max_points=1_500_000):
    """{delta: (lo, hi)}, kind"""
    if all(q == 1.0 for _, q, _ in hist):
        mu = math.sqrt(sum(n / s**2 for s, _, n in hist))
        return {d: (gauss_eps(mu, d),) * 2 if d > 0 else (float("inf"),) * 2 for d in deltas}, "gauss-exact"
    b = pld_bracket(hist, deltas, gap, max_points)
    return (b, "pld-bracket") if b is not None else (None, "rdp-only")


# --------------------------------------------------------------------------- the real accountant
def real_triple(hist, delta, ee, de):
    from opacus.accountants import PRVAccountant

    a = PRVAccountant()
    a.history = [tuple(h) for h in hist]
    if de is None:
        de = delta / 1000
    dprv = a._get_dprv(eps_error=ee, delta_error=de)
    tri = tuple(float(x) for x in dprv.compute_epsilon(delta, de, ee))
    rep = float(a.get_epsilon(delta, eps_error=ee, delta_error=de))
    return tri, rep, de


def check_history(hist, delta, ee, de=None, budget="normal"):
    """the property on the real accountant at one input; None or (key, what, replay)"""
    try:
        (lo, est, hi), rep, de = real_triple(hist, delta, ee, de)
    except Exception as e:  # noqa: BLE001  (outside the accountant's working range)
        check_history.last = {"raised": type(e).__name__}
        return None
    info = {"triple": (lo, est, hi), "reported": rep}
    check_history.last = info
    desc = f"history={list(hist)} delta={delta} eps_error={ee} delta_error={de}: (lower, estimate, upper)=({lo:.6g}, {est:.6g}, {hi:.6g})"
    if not (lo <= est <= hi):
        return ("C07:triple-order", "triple not ordered; " + desc, info)
    if rep != hi:
        return ("C07:reported-not-upper", f"get_epsilon returned {rep}, the upper bound of the triple is {hi}; " + desc, info)
    ds = [delta, delta - 2 * de, delta + 2 * de]
    gap = (0.3 if budget == "small" else 0.15) * ee
    tr, kind = truth(hist, ds, gap, max_points=400_000 if budget == "small" else 3_000_000)
    info["truth"] = kind
    r_up = rdp_eps(hist, delta - 2 * de) if delta - 2 * de > 0 else float("inf")
    info["rdp"] = r_up
    if hi > r_up + 2 * ee + SLACK:
        return ("C07:above-rdp", f"reported eps {hi:.6g} exceeds the RDP accountant's sound bound {r_up:.6g} by more than 2*eps_error; " + desc, info)
    if tr is None:
        return None
    info["bracketed"] = True
    info["truth_bracket"] = {str(k): v for k, v in tr.items()}
    t_lo, t_hi = tr[ds[0]]
    if hi < t_lo - SLACK:
        return ("C07:below-truth", f"reported eps (upper) {hi:.6g} is BELOW the true eps(delta) >= {t_lo:.6g} [{kind}]; " + desc, info)
    if lo > t_hi + SLACK:
        return ("C07:lower-above-truth", f"eps_lower {lo:.6g} is above the true eps(delta) <= {t_hi:.6g} [{kind}]; " + desc, info)
    if hi > tr[ds[1]][1] + 2 * ee + SLACK:
        return ("C07:too-loose", f"reported eps {hi:.6g} exceeds the true eps(delta-2*delta_error) <= {tr[ds[1]][1]:.6g} by more than 2*eps_error [{kind}]; " + desc, info)
    if lo < tr[ds[2]][0] - 2 * ee - SLACK:
        return ("C07:lower-too-loose", f"eps_lower {lo:.6g} is below the true eps(delta+2*delta_error) >= {tr[ds[2]][0]:.6g} by more than 2*eps_error [{kind}]; " + desc, info)
    return None


check_history.last = {}


# --------------------------------------------------------------------------- generator
def gen_search_case(rng, i, thorough, style=None):
    """homogeneous / heterogeneous histories with moderate epsilon; both parities; many small groups
    (amplifies a per-group index error beyond eps_error)"""
    for _ in range(200):
        forced = style
        style = forced or ["homog", "hetero", "many-groups", "gauss", "homog-odd-even", "recurring", "gauss-many"][i % 7]
        ee = 10 ** rng.uniform(-3, -1) if thorough else 10 ** rng.uniform(-2, -1)
        delta = 10 ** rng.uniform(-9, -3)
        if style == "gauss-lengths":
            # a short phase and a long phase at clearly different noise levels, in either order (and sometimes a third, medium one):
            # each segment's step count must stay with ITS mechanism whatever order the composition processes them in; exact truth
            sa = rng.uniform(3.0, 8.0)
            sb = sa * rng.choice([rng.uniform(2.0, 4.0), 1 / rng.uniform(2.0, 3.0)])
            ns, nb = rng.randint(1, 4), rng.randint(20, 60)
            hist = [(round(sa, 3), 1.0, ns), (round(sb, 3), 1.0, nb)]
            if rng.random() < 0.4:
                hist.insert(rng.randrange(3), (round(sa * rng.uniform(1.2, 1.8), 3), 1.0, rng.randint(6, 12)))
            if rng.random() < 0.3:
                hist.reverse()
        elif style == "gauss":
            k = rng.randint(1, 4)
            hist = [(round(rng.uniform(3.0, 30.0), 3), 1.0, rng.randint(1, 40)) for _ in range(k)]
        elif style == "recurring":
            # A, B, A(, B, A): the same (sigma, q) in non-adjacent runs – every run must be composed
            a = (round(rng.uniform(0.8, 2.0), 3), rng.choice([0.01, 0.02, 0.05]))
            b = (round(rng.uniform(0.8, 2.0), 3), rng.choice([0.01, 0.02, 0.05]))
            hist = [(x[0], x[1], rng.randint(5, 60)) for x in ([a, b, a, b, a][: rng.choice([3, 3, 4, 5])])]
        elif style == "gauss-many":
            # many comparable segments (a noise schedule changing sigma every epoch): the composed epsilon is
            # well above any single segment's; exact Gaussian truth at q = 1
            k = rng.choice([rng.randint(12, 20), rng.randint(40, 64)])   # tens of segments: a per-merge index slip of one bin adds up
            s0 = rng.uniform(3.5, 6.0) * (1.0 if k <= 20 else 1.8)
            hist = [(round(s0 * rng.uniform(0.95, 1.05), 4), 1.0, rng.randint(1, 3)) for _ in range(k)]
        elif style == "many-groups":
            k = rng.randint(6, 14 if thorough else 10)
            hist = [(round(rng.uniform(0.8, 3.0), 4), rng.choice([0.01, 0.02, 0.05, 0.1, 0.003]), rng.randint(1, 3)) for _ in range(k)]
        elif style == "hetero":
            k = rng.randint(2, 4)
            hist = [(round(rng.uniform(0.7, 2.5), 3), rng.choice([0.001, 0.005, 0.01, 0.05, 0.2]), rng.randint(1, 60)) for _ in range(k)]
        else:
            n = rng.randint(1, 120 if thorough else 40)
            if style == "homog-odd-even":
                n = n + (i // 5) % 2  # alternate parity deterministically
            hist = [(round(rng.uniform(0.6, 3.0), 3), rng.choice([0.001, 0.004, 0.01, 0.03, 0.1, 0.5]), n)]
        ntot = sum(n for *_, n in hist)
        try:
            er = rdp_eps(hist, delta)
        except Exception:  # noqa: BLE001
            continue
        if not (0.15 <= er <= 10.0):
            continue
        # keep the oracle grid affordable: points ~ 2*(er+4)*ntot/(0.15*ee)
        if all(q == 1.0 for _, q, _ in hist) or 2 * (er + 6) * ntot / (0.15 * ee) <= (3_000_000 if thorough else 600_000):
            case = {"hist": hist, "delta": delta, "ee": ee}
            if rng.random() < 0.3:
                case["de"] = delta / rng.choice([4, 10, 30])      # an explicitly supplied, non-negligible delta_error
            return case
    return {"hist": [(1.0, 0.01, 10)], "delta": 1e-5, "ee": 0.05}


def evaluate(case):
    res = check_history(case["hist"], case["delta"], case["ee"], case.get("de"), budget=case.get("budget", "normal"))
    return res, dict(check_history.last)
