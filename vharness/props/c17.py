"""C17 — noise and clipping schedules follow their closed forms and are what is used.

Obligations (Lean, unbounded): closed forms for Exponential / Step / Lambda over any commutative
monoid, construction-is-identity, `scheduled_value_is_used` for every interleaving of scheduler
steps and logical optimizer steps, Lambda resume, the Exponential resume counterexample (D8) and
the repaired-variant resume theorem.

Correspondence: the `Float` instance of the same definitions (driver C17) against the real
`opacus.schedulers.*` classes writing into a real `DPOptimizer` that takes real steps on a real
`GradSampleModule`; the values in force are observed from outside: std of the patched
`torch.normal`, the accountant's history, and the norm of the clipped gradient of a sample whose
gradient is far above the bound.  Scheduler arithmetic is a chain of single IEEE multiplications, so
live values / std / accounted sigma are compared bit-for-bit; the clip actually applied is
recovered from a norm and compared to 1e-9.
"""
from __future__ import annotations

import math

import torch

from .. import core, rig
from ..core import f2h, h2f

PID = "C17"
MODULES = ["OpacusLean.Props.C17"]
THEOREMS = [
    "Opacus.C17.construction_is_identity_exp",
    "Opacus.C17.construction_is_identity_step",
    "Opacus.C17.exp_closed_form",
    "Opacus.C17.step_closed_form",
    "Opacus.C17.lambda_closed_form",
    "Opacus.C17.scheduled_value_is_used",
    "Opacus.C17.lambda_resume_continues",
    "Opacus.C17.exp_resume_counterexample",
    "Opacus.C17.resume_with_live_value",
    # the tie to the source: Generated/Schedulers.lean is re-translated from opacus/schedulers/*.py on every run
    "Opacus.C17.generated_getters_eq_model",
    "Opacus.C17.generated_step_eq_model",
    "Opacus.C17.generated_construct_eq_model",
    "Opacus.C17.generated_default_last_epoch",
]
RULE = (
    "case = (sigma0, C0, noise schedule, clip schedule, op sequence over {ns, cs, opt, save, restore}) drawn from VERIF_SEED; "
    "non-trivial iff the sequence contains a scheduler step that changes a live value AND a later optimizer step; "
    "distinct by (schedule kinds, op sequence)"
)
TRUSTED = ["the translator vharness/props/c17_trans.py (Python `ast` -> Lean text, ~200 lines; supported subset documented in its docstring, anything else is reported as a broken tie) is trusted to render the scheduler classes' getters, base-class step() and constructors faithfully; its output is ALSO run against the real objects by the behavioural correspondence",
           "closed forms are over exact commutative monoids; float rounding of repeated multiplication vs gamma**k is not modelled (the Float driver reproduces the repeated multiplication bit-for-bit)"]
PARTIAL = ["restore-from-state_dict: the live optimizer attribute is not part of any state_dict (finding D8); proved for Lambda from the next scheduler step on, counterexample for Exponential/Step"]

LAMBDAS = {
    "lin": lambda e: 1.0 + 0.25 * e,
    "inv": lambda e: 1.0 / (1.0 + e),
    "alt": lambda e: 0.5 if e % 2 else 1.5,
    "cos": lambda e: 1.0 + 0.5 * math.cos(e),
}


def gen_spec(rng, what):
    k = rng.choice(["none", "exp", "step", "lam", "exp", "step"])
    if k == "none":
        return ("none",)
    if k == "exp":
        return ("exp", rng.choice([0.5, 0.9, 0.99, 1.0, 1.1, 2.0, 0.7071067811865476]))
    if k == "step":
        return ("step", rng.choice([0.5, 0.9, 1.25, 0.3]), rng.choice([1, 2, 3, 5]))
    return ("lam", rng.choice(sorted(LAMBDAS)))


def gen_case(rng, max_ops, with_restore):
    sigma0 = rng.choice([0.0, 0.5, 1.0, 1.1, 2.0, 3.3]) if rng.random() < 0.9 else rng.uniform(0.1, 4)
    c0 = rng.choice([0.1, 1.0, 1.5, 2.0, 10.0]) if rng.random() < 0.9 else rng.uniform(0.1, 4)
    ns, cs = gen_spec(rng, "n"), gen_spec(rng, "c")
    # vopt = a skipped physical batch of a virtual step (signal_skip_step(True); backward; step): clipped with the
    # bound in force when it runs, no noise, no accounting
    alphabet = ["ns", "cs", "opt", "opt", "ns", "vopt", "cs"]
    ops = [rng.choice(alphabet) for _ in range(rng.randint(1, max_ops))]
    if with_restore and len(ops) >= 3:
        i = rng.randrange(1, len(ops) - 1)
        j = rng.randrange(i + 1, len(ops))
        ops = ops[:i] + ["save"] + ops[i:j] + ["restore"] + ops[j:]
    return {"sigma0": sigma0, "c0": c0, "ns": ns, "cs": cs, "ops": ops, "acct": rng.choice(["rdp", "prv"])}


def spec_line(spec, nsteps):
    if spec[0] == "none":
        return "none"
    if spec[0] == "exp":
        return f"exp {f2h(spec[1])}"
    if spec[0] == "step":
        return f"step {f2h(spec[1])} {spec[2]}"
    tab = [LAMBDAS[spec[1]](e) for e in range(nsteps + 2)]
    return f"lam {len(tab)} " + " ".join(f2h(v) for v in tab)


class Real:
    """the real objects for one case"""

    def __init__(self, case):
        from opacus import GradSampleModule
        from opacus.accountants import PRVAccountant, RDPAccountant
        from opacus.optimizers import DPOptimizer

        self.case = case
        self.d = 3
        # both run-length-encoding ledgers (PRV is PrivacyEngine's default); GDP refuses a changing sigma
        if case.get("acct") == "gdp":
            from opacus.accountants import GaussianAccountant
            self.acct = GaussianAccountant()
        else:
            self.acct = PRVAccountant() if case.get("acct") == "prv" else RDPAccountant()
        self.build(first=True)

    def build(self, first):
        from opacus import GradSampleModule
        from opacus.optimizers import DPOptimizer
        from opacus import schedulers as S

        c = self.case
        self.model = GradSampleModule(rig.TokenModel(self.d), loss_reduction="sum")
        inner = torch.optim.SGD(self.model.parameters(), lr=0.0)
        self.opt = DPOptimizer(inner, noise_multiplier=c["sigma0"], max_grad_norm=c["c0"], expected_batch_size=1, loss_reduction="sum")
        self.opt.attach_step_hook(self.acct.get_optimizer_hook_fn(sample_rate=0.01))

        def mk(spec, noise):
            if spec[0] == "none":
                return None
            if spec[0] == "exp":
                return (S.ExponentialNoise if noise else S.ExponentialGradClip)(self.opt, gamma=spec[1])
            if spec[0] == "step":
                return (S.StepNoise if noise else S.StepGradClip)(self.opt, step_size=spec[2], gamma=spec[1])
            if noise:
                return S.LambdaNoise(self.opt, noise_lambda=LAMBDAS[spec[1]])
            return S.LambdaGradClip(self.opt, scheduler_function=LAMBDAS[spec[1]])

        self.nsched = mk(c["ns"], True)
        self.csched = mk(c["cs"], False)

    def live(self):
        return [float(self.opt.noise_multiplier), float(self.opt.max_grad_norm)]

    def do(self, op):
        if op == "ns":
            if self.nsched is not None:
                self.nsched.step()
            return self.live()
        if op == "cs":
            if self.csched is not None:
                self.csched.step()
            return self.live()
        if op == "save":
            self.saved = (
                None if self.nsched is None else dict(self.nsched.state_dict()),
                None if self.csched is None else dict(self.csched.state_dict()),
            )
            return self.live()
        if op == "restore":
            self.build(first=False)
            if self.nsched is not None:
                self.nsched.load_state_dict(self.saved[0])
            if self.csched is not None:
                self.csched.load_state_dict(self.saved[1])
            return self.live()
        if op in ("opt", "vopt"):
            # |g| = 5000 * scale, always well above the live bound (a scheduler may have grown it past 5000)
            cl = float(self.live()[1])
            scale = 1.0 if not (4 * cl > 5000.0) or cl == float("inf") else 2.0 ** math.ceil(math.log2(8 * cl / 5000.0))
            x = torch.tensor([[3000.0 * scale, -4000.0 * scale, 0.0]], dtype=torch.float64)
            w = self.model._module.fc.weight
            with rig.patched_normal("zero") as log:
                if op == "vopt":
                    self.opt.signal_skip_step(True)
                self.opt.zero_grad()   # keeps summed_grad while the previous step was a skipped one
                prev = getattr(w, "summed_grad", None)
                prev = torch.zeros_like(w) if prev is None else prev.detach().clone()
                self.model(x).sum().backward()
                n_hist = sum(h[2] for h in self.acct.history)
                self.opt.step()
            # what THIS physical batch added to the clipped sum
            g = (w.summed_grad.detach() - prev).reshape(-1)
            used_clip = float(g.norm()) * (5000.0 * scale + 1e-6) / (5000.0 * scale)
            if op == "vopt":
                assert sum(h[2] for h in self.acct.history) == n_hist and not log.calls, "a skipped physical batch was noised / accounted"
                return self.live() + [used_clip]
            assert sum(h[2] for h in self.acct.history) == n_hist + 1, "step not accounted"
            std = log.calls[-1][0] if log.calls else 0.0   # std == 0 → no draw requested
            if not log.calls:
                std = 0.0
            acct_sigma = float(self.acct.history[-1][0])
            return self.live() + [used_clip, std, acct_sigma]
        raise ValueError(op)


def detect_variant(ctx):
    """Which resume behaviour does this tree implement?  (witness = Lean `exp_resume_counterexample`)"""
    case = {"sigma0": 1.0, "c0": 1.0, "ns": ("exp", 2.0), "cs": ("none",), "ops": []}
    r = Real(case)
    for op in ["ns", "ns", "save", "restore", "ns"]:
        out = r.do(op)
    # uninterrupted: 8 ; as coded: 2
    return "repaired" if out[0] == 8.0 else "asCoded", out[0]


def gdp_ledger_oracle(rng):
    """The GDP accountant keeps ONE (sigma, q) run: a step with a scheduled sigma other than the recorded one has to be refused
    (ValueError) – or recorded with the value in force; it must never be merged into the run under the old value."""
    ns = ("exp", rng.choice([0.5, 0.8, 1.25])) if rng.random() < 0.5 else ("step", rng.choice([0.5, 0.9]), 1)
    case = {"sigma0": rng.choice([1.0, 1.5, 2.0]), "c0": 1.0, "ns": ns, "cs": ("none",), "ops": [], "acct": "gdp"}
    r = Real(case)
    r.do("opt")
    for _ in range(rng.randint(1, 3)):
        r.do("ns")
    live = r.live()[0]
    n0 = sum(h[2] for h in r.acct.history)
    try:
        r.do("opt")
    except (ValueError, AssertionError):
        return None          # refused: fail-stop, nothing mis-recorded
    hist = [(float(a), float(b), int(n)) for a, b, n in r.acct.history]
    if sum(h[2] for h in hist) == n0 + 1 and not any(abs(h[0] - live) <= 1e-12 for h in hist):
        return ("C17:value-in-force:gdp-ledger", f"GaussianAccountant: a step noised with the scheduled sigma {live} was recorded in the ledger {hist} (initial sigma {case['sigma0']}, schedule {ns})",
                {"failing_input": {"oracle": "gdp-ledger", "case": case}})
    return None


def resume_oracle(case):
    """Property oracle: a restored scheduler must continue the uninterrupted trajectory."""
    if "restore" not in case["ops"]:
        return None
    plain = dict(case, ops=[o for o in case["ops"] if o not in ("save", "restore")])
    a, b = Real(case), Real(plain)
    ra = [a.do(o) for o in case["ops"]]
    rb = [b.do(o) for o in plain["ops"]]
    ia = [r for o, r in zip(case["ops"], ra) if o == "opt"]
    ib = [r for o, r in zip(plain["ops"], rb) if o == "opt"]
    for k, (x, y) in enumerate(zip(ia, ib)):
        if any(not core.close(u, v, 1e-12) for u, v in zip(x, y)):
            kinds = sorted({case["ns"][0], case["cs"][0]} - {"none"})
            return (
                "C17:resume-live-value-not-restored",
                f"after save → fresh objects → load_state_dict the value in force differs from the uninterrupted run (optimizer step #{k}: resumed {x[2:]}, uninterrupted {y[2:]})",
                {"resumed": ia, "uninterrupted": ib, "schedule_kinds": kinds},
            )
    return None


def run_cases(ctx, cases, variant):
    lines, index = [], []
    for ci, c in enumerate(cases):
        nsteps = len(c["ops"])
        lines.append(f"new {f2h(c['sigma0'])} {f2h(c['c0'])} {spec_line(c['ns'], nsteps)} {spec_line(c['cs'], nsteps)}")
        index.append((ci, "new"))
        for o in c["ops"]:
            lines.append("restore_live" if (o == "restore" and variant == "repaired") else o)
            index.append((ci, o))
    replies = ctx.lean_driver("C17", lines)
    per_case = {}
    for (ci, o), rep in zip(index, replies):
        per_case.setdefault(ci, []).append((o, rep))
    for ci, c in enumerate(cases):
        r = Real(c)
        impl = [("new", r.live())] + [(o, r.do(o)) for o in c["ops"]]
        model = per_case[ci]
        ok = True
        for (o, iv), (_, mrep) in zip(impl, model):
            mv = [h2f(t) for t in mrep.split()] if not mrep.startswith("bad") else None
            if mv is None or len(mv) != len(iv):
                ok = False
                break
            for k, (x, y) in enumerate(zip(iv, mv)):
                exact = not (o in ("opt", "vopt") and k == 2)
                if (exact and x != y) or (not exact and not core.close(x, y, 1e-9)):
                    ok = False
            if not ok:
                break
        changed = any(o in ("ns", "cs") for o in c["ops"]) and "opt" in c["ops"]
        ctx.case((c["ns"], c["cs"], tuple(c["ops"])), nontrivial=changed, sample=c,
                 kind=f"{c['ns'][0]}/{c['cs'][0]}" + ("/restore" if "restore" in c["ops"] else ""))
        for o in c["ops"]:
            ctx.count("op:" + o)
        if ok:
            ctx.validated()
        else:
            ctx.mismatch("schedulers", c, [(o, v) for o, v in impl], [m for _, m in model], oracle=lambda cc: resume_oracle(cc) or closed_form_oracle(cc))


def closed_form_oracle(case):
    """Property oracle on the implementation: closed forms + value-in-force, no model involved."""
    c = dict(case, ops=[o for o in case["ops"] if o not in ("save", "restore")])
    r = Real(c)
    kn = kc = 0
    for o in [None] + list(c["ops"]):
        out = r.live() if o is None else r.do(o)     # o is None: right after construction (k = 0 of every schedule)
        kn += o == "ns"
        kc += o == "cs"

        def closed(spec, v0, k):
            if spec[0] == "none":
                return v0
            if spec[0] == "exp":
                return v0 * spec[1] ** k
            if spec[0] == "step":
                return v0 * spec[1] ** (k // spec[2])
            return v0 * LAMBDAS[spec[1]](k)

        es, ec = closed(c["ns"], c["sigma0"], kn), closed(c["cs"], c["c0"], kc)
        if not (core.close(out[0], es, 1e-9) and core.close(out[1], ec, 1e-9)):
            return ("C17:closed-form", f"after {kn} noise / {kc} clip scheduler steps live (sigma, C) = {out[:2]}, closed form ({es}, {ec})", {"ops_prefix": c["ops"]})
        if o == "vopt" and not core.close(out[2], ec, 1e-9):
            return ("C17:value-in-force:physical-batch", f"skipped physical batch clipped with {out[2]}, bound in force {ec}", {"ops_prefix": c["ops"]})
        if o == "opt" and not (core.close(out[2], ec, 1e-9) and core.close(out[3], es * ec, 1e-9) and core.close(out[4], es, 1e-9)):
            return ("C17:value-in-force", f"optimizer step used (clip, std, accounted sigma) = {out[2:]}, scheduled ({ec}, {es*ec}, {es})", {"ops_prefix": c["ops"]})
    return None


def regenerate(ctx):
    from .. import regen
    from . import c17_trans as T
    regen.regenerate(ctx, T, "Opacus.Generated.Sched", "opacus/schedulers")


def run(ctx):
    regenerate(ctx)
    with rig.default_dtype(torch.float64):
        variant, val = detect_variant(ctx)
        ctx.variant["resume"] = variant
        ctx.log("resume variant implemented by this tree:", variant)
        n = ctx.n(120, 2500)
        cases = [gen_case(ctx.rng, ctx.n(12, 30), with_restore=(i % 3 == 0)) for i in range(n)]
        if ctx.thorough:  # exhaustive small scope: every op sequence of length ≤ 6 over {ns, cs, opt} for two schedule pairs
            import itertools
            for L in range(1, 7):
                for ops in itertools.product(["ns", "cs", "opt", "vopt"], repeat=L):
                    cases.append({"sigma0": 1.1, "c0": 1.5, "ns": ("exp", 0.9), "cs": ("step", 0.5, 2), "ops": list(ops)})
            ctx.extra["exhaustive_small_scope"] = "all op sequences of length ≤ 6 over {ns,cs,opt,vopt} for (exp 0.9, step 0.5/2)"
        run_cases(ctx, cases, variant)
        # the property itself on restore: known finding D8 on the unchanged tree
        if variant == "asCoded":
            w = {"sigma0": 1.0, "c0": 1.0, "ns": ("exp", 2.0), "cs": ("none",), "ops": ["ns", "ns", "save", "restore", "ns", "opt"]}
            res = resume_oracle(w)
            if res:
                ctx.property_failure(res[0], res[1], dict(res[2], failing_input=w))
        # independent closed-form search on the implementation
        for i in range(ctx.n(40, 400)):
            c = gen_case(ctx.rng, 15, with_restore=False)
            res = closed_form_oracle(c)
            ctx.count("search:closed-form")
            if res:
                ctx.property_failure(res[0], res[1], dict(res[2], failing_input=c))
        for i in range(ctx.n(6, 60)):
            res = gdp_ledger_oracle(ctx.rng)
            ctx.count("search:gdp-ledger")
            if res:
                ctx.property_failure(res[0], res[1], res[2])


def replay(ctx, rp):
    with rig.default_dtype(torch.float64):
        c = rp.get("failing_input") or rp.get("case")
        if c.get("oracle") == "gdp-ledger":
            import random
            res = next((r for r in (gdp_ledger_oracle(random.Random(k)) for k in range(40)) if r), None)
            print(("REPRODUCED: " + res[0] + " " + res[1]) if res else "not reproduced on this tree")
            if res:
                ctx.violations.append(res[0])
            return
        c = dict(c, ns=tuple(c["ns"]), cs=tuple(c["cs"]))
        for orc in (resume_oracle, closed_form_oracle):
            res = orc(c)
            if res:
                print("REPRODUCED:", res[0], res[1])
                ctx.violations.append(res[0])
                return
        print("not reproduced on this tree")
