"""C02 — one example moves the noise-free clipped sum by at most the clipping norm.

Obligations (Lean, unbounded, over ℝ / any commutative ring): see THEOREMS.
Correspondence:
  clip        real `clip_and_accumulate` of DPOptimizer / DPPerLayerOptimizer / AdaClipDPOptimizer /
              ddp_perlayeroptimizer._clip_and_accumulate_parameter on synthetic per-sample gradients
              (tensor- and list-valued `grad_sample`, several physical batches, empty batches)
              vs the `Float` instance of `Opacus.Clip.clipAndAccumulate` (rel. tol 1e-9)
  ghostnorm   real norm samplers (`compute_linear_norm_sample` 2-D/3-D, `compute_embedding_norm_sample`)
              on small-integer float64 tensors vs the `Int` instance of the model, exactly
  ghost       real GradSampleModuleFastGradientClipping + DPLossFastGradientClipping +
              DPOptimizerFastGradientClipping on Linear/Embedding stacks vs the `Float` model
              (norm samples → get_norm_sample → get_clipping_coef → second backward → accumulate)
Search (property oracle on the real engine, no model involved): neighbouring-batch oracle.
"""
from __future__ import annotations

import math

import numpy as np
import torch
import torch.nn as nn

from .. import core, rig
from ..core import h2f
from . import c02_rig as R

PID = "C02"
MODULES = ["OpacusLean.Props.C02"]
THEOREMS = [
    "Opacus.C02.clip_norm_lt",
    "Opacus.C02.clip_norm_lt_perLayer",
    "Opacus.C02.clip_norm_le_perLayer_joint",
    "Opacus.C02.adaptive_clipped_eq_flat",
    "Opacus.C02.clip_sum_sensitivity",
    "Opacus.C02.clip_sum_sensitivity_adaptive",
    "Opacus.C02.clip_sum_sensitivity_perLayer",
    "Opacus.C02.split_accumulate_eq",
    "Opacus.C02.clip_sum_sensitivity_split",
    "Opacus.C02.linear_norm_sq_2d",
    "Opacus.C02.linear_weight_norm_sq_3d",
    "Opacus.C02.linear_bias_norm_sq_3d",
    "Opacus.C02.embedding_norm_sq",
    "Opacus.C02.linear_bias_norm_sq_3d_counterexample",
    "Opacus.C02.ghost_eq_flat",
    "Opacus.C02.ghost_accumulate_eq_flat",
    "Opacus.C02.ghost_sum_sensitivity",
    "Opacus.C02.linear_bias_norm_3d_counterexample",
    "Opacus.C02.ghost_loss_broadcast_counterexample",
    "Opacus.C02.sensitivity_without_independence_counterexample",
    "Opacus.Clip.clipAndAccumulateExec_store",
    # the tie to the source: Generated/ClipFactor.lean is re-translated from the five clip-factor sites on every run
    "Opacus.C02.generated_clip_factor_eq_model",
]
RULE = (
    "clip case = (optimizer kind, P tensors with shapes, C or per-tensor C_k, list of physical batches of synthetic per-sample gradients) from VERIF_SEED; "
    "non-trivial iff ≥2 samples, ≥2 tensors, at least one sample clipped (factor<1) and one not; distinct by (kind, shapes, batch sizes, C)"
)
TRUSTED = [
    "the translator vharness/props/c02_trans.py (Python `ast` -> real arithmetic for the elementwise clip-factor expression `(C / (n + 1e-6)).clamp(max=1.0)` at its five sites, and the literal order of every .norm(p, …) call next to it; subset in its docstring, anything else is reported as a broken tie) is trusted to render those expressions faithfully; how the norms are assembled (reshape / stack / which tensors) and how the factor is applied (einsum) are tied by the behavioural correspondence only",
    "autograd linearity: the second backward of Σ_i coef_i·ℓ_i yields Σ_i coef_i·∇ℓ_i (ghost path contract)",
]
PARTIAL = [
    "end-to-end 'for any model validation accepts' needs SampleIndependent (what C15 is to deliver); proved with that hypothesis explicit",
]


def fdec(x: float) -> str:
    import struct

    return "%d" % struct.unpack(">Q", struct.pack(">d", float(x)))[0]


# --------------------------------------------------------------------------- clip correspondence
KINDS = ["flat", "perlayer", "adaptive", "perlayer-ddp"]


def gen_clip_case(rng):
    kind = rng.choice(KINDS)
    P = rng.randint(1, 4)
    shapes = [tuple(rng.randint(1, 3) for _ in range(rng.randint(1, 3))) for _ in range(P)]
    nb = rng.choice([1, 1, 2, 3])
    # empty physical batches: AdaClipDPOptimizer and the DDP per-layer hook raise on them (findings D21 / C18-F2,
    # owned by C20 / C18 and replayed there); here they are generated for the optimizers that accept them
    sizes = [rng.randint(0 if (kind not in ("adaptive", "perlayer-ddp") and rng.random() < 0.15) else 1, 5) for _ in range(nb)]
    # list-valued grad_sample (accumulated backward passes) for some batches
    pieces = [rng.randint(1, 2) if s >= 2 else 1 for s in sizes]
    g = torch.Generator().manual_seed(rng.randrange(1 << 30))
    scale = rng.choice([0.1, 1.0, 10.0])
    batches = []
    for s in sizes:
        mags = torch.exp(torch.randn(s, generator=g, dtype=torch.float64))  # spread the norms
        batches.append([torch.randn((s,) + sh, generator=g, dtype=torch.float64) * scale * mags.reshape((s,) + (1,) * len(sh)) for sh in shapes])
    # bound near the median norm so that both branches of the clamp are taken
    norms = []
    for b in batches:
        for i in range(len(b[0])):
            norms.append(math.sqrt(sum(float((t[i] ** 2).sum()) for t in b)))
    med = sorted(norms)[len(norms) // 2] if norms else 1.0
    if kind in ("perlayer", "perlayer-ddp"):
        C = [med * rng.choice([0.2, 0.5, 1.0, 3.0]) / math.sqrt(P) for _ in range(P)]
    else:
        C = med * rng.choice([0.5, 0.9, 1.1, 2.0, 1e6])
    return {"kind": kind, "shapes": shapes, "C": C, "batches": batches, "pieces": pieces}


def real_clip(case):
    from opacus.optimizers import AdaClipDPOptimizer, DPOptimizer, DPPerLayerOptimizer
    from opacus.optimizers.ddp_perlayeroptimizer import _clip_and_accumulate_parameter

    ps = [nn.Parameter(torch.zeros(sh, dtype=torch.float64)) for sh in case["shapes"]]
    inner = torch.optim.SGD(ps, lr=0.0)
    k = case["kind"]
    if k == "flat":
        opt = DPOptimizer(inner, noise_multiplier=1.0, max_grad_norm=case["C"], expected_batch_size=1)
    elif k == "adaptive":
        opt = AdaClipDPOptimizer(inner, noise_multiplier=1.0, max_grad_norm=case["C"], expected_batch_size=1, target_unclipped_quantile=0.5,
                                 clipbound_learning_rate=0.2, max_clipbound=1e9, min_clipbound=1e-9, unclipped_num_std=1.0)
    elif k == "perlayer-ddp":
        # the real DistributedPerLayerOptimizer (rank 0 of a world of 1, no process group needed: its per-parameter tensor
        # hooks are plain autograd hooks), so that the bound each hook was REGISTERED with is what is exercised
        import torch.distributed as dist
        from opacus.optimizers import DistributedPerLayerOptimizer
        saved = (dist.get_rank, dist.get_world_size)
        dist.get_rank, dist.get_world_size = (lambda *a, **kw: 0), (lambda *a, **kw: 1)
        try:
            opt = DistributedPerLayerOptimizer(inner, noise_multiplier=0.0, max_grad_norm=list(case["C"]), expected_batch_size=1, loss_reduction="sum")
        finally:
            dist.get_rank, dist.get_world_size = saved
    else:
        opt = DPPerLayerOptimizer(inner, noise_multiplier=1.0, max_grad_norm=list(case["C"]), expected_batch_size=1)
    for b, pc in zip(case["batches"], case["pieces"]):
        for p, t in zip(ps, b):
            t = t.clone()
            p.grad_sample = t if pc == 1 else [t[: len(t) // 2].clone(), t[len(t) // 2 :].clone()]
        if k == "perlayer-ddp":
            for p in ps:
                p.grad_sample = opt._get_flat_grad_sample(p)
            # a backward pass through every parameter fires the registered hooks (the incoming gradient is ignored by them)
            sum((p * 0.0).sum() for p in ps).backward()
        else:
            opt.clip_and_accumulate()
    return [None if p.summed_grad is None else p.summed_grad.detach().reshape(-1).tolist() for p in ps]


def clip_line(case):
    dl = [int(np.prod(sh)) for sh in case["shapes"]]
    k = {"perlayer-ddp": "perlayer"}.get(case["kind"], case["kind"])
    cs = " ".join(fdec(c) for c in case["C"]) if k == "perlayer" else fdec(case["C"])
    parts = [f"clip {k} {len(dl)} {' '.join(map(str, dl))} {cs} {len(case['batches'])}"]
    for b in case["batches"]:
        B = len(b[0])
        parts.append(str(B))
        for i in range(B):
            for t in b:
                parts.extend(fdec(v) for v in t[i].reshape(-1).tolist())
    return " ".join(parts)


def parse_some(rep):
    if rep == "none":
        return None
    if not rep.startswith("some"):
        return "bad:" + rep[:40]
    return [h2f(t) for t in rep.split()[1:]]


def clip_property_oracle(case):
    """C02 on the implementation at a clip case: drop each sample in turn; the summed_grad must move
    by < C (flat/adaptive: jointly; per-layer: every tensor < C_k)."""
    full = real_clip(case)
    k = case["kind"]
    for bi, b in enumerate(case["batches"]):
        for i in range(len(b[0])):
            sub = dict(case, batches=[[torch.cat([t[:i], t[i + 1 :]]) for t in bb] if j == bi else bb for j, bb in enumerate(case["batches"])], pieces=[1] * len(case["batches"]))
            if k in ("adaptive", "perlayer-ddp") and len(sub["batches"][bi][0]) == 0:   # both raise on an empty batch (findings D21, C18-F2)
                continue
            red = real_clip(sub)
            d = [np.array(u) - np.array(v) for u, v in zip(full, red)]
            if k in ("flat", "adaptive"):
                n = R.flat_norm(d)
                if n > case["C"] * (1 + 1e-9):
                    return (f"C02:sensitivity:clip_and_accumulate:{k}", f"removing sample {i} of physical batch {bi} moves summed_grad by {n} > C={case['C']}", {"moved": n, "bound": case["C"]})
            else:
                for t, c in zip(d, case["C"]):
                    n = float(np.sqrt((t**2).sum()))
                    if n > c * (1 + 1e-9):
                        return (f"C02:sensitivity:clip_and_accumulate:{k}", f"removing sample {i} moves one tensor of summed_grad by {n} > C_k={c}", {"moved": n, "bound": c})
    return None


def clip_oracle_around(cj):
    """the property at the disagreeing case and at its neighbours with the per-layer bounds in increasing / decreasing order
    (a bound applied to the wrong tensor only breaks the bound where it is the larger one)"""
    case = case_from_json(cj)
    cands = [case]
    if isinstance(case["C"], list) and len(set(case["C"])) > 1:
        cands += [dict(case, C=sorted(case["C"])), dict(case, C=sorted(case["C"], reverse=True))]
    for c in cands:
        res = clip_property_oracle(c)
        if res:
            return (res[0], res[1], dict(res[2], failing_input=case_json(c)))
    return None


def case_json(case):
    return dict(case, batches=[[t.tolist() for t in b] for b in case["batches"]])


def case_from_json(c):
    return dict(c, shapes=[tuple(s) for s in c["shapes"]], batches=[[torch.tensor(t, dtype=torch.float64).reshape((-1,) + tuple(sh)) for t, sh in zip(b, c["shapes"])] for b in c["batches"]])


def run_clip(ctx, cases):
    replies = ctx.lean_driver("C02", [clip_line(c) for c in cases])
    for c, rep in zip(cases, replies):
        impl = real_clip(c)
        mod = parse_some(rep)
        impl_flat = None if any(x is None for x in impl) else [v for t in impl for v in t]
        ok = (impl_flat is None and mod is None) or (
            isinstance(mod, list) and impl_flat is not None and len(mod) == len(impl_flat) and all(core.close(a, b, 1e-9, 1e-12) for a, b in zip(impl_flat, mod))
        )
        # non-triviality: both clamp branches taken
        fs = []
        for b in c["batches"]:
            for i in range(len(b[0])):
                if c["kind"] in ("flat", "adaptive"):
                    fs.append(c["C"] / (math.sqrt(sum(float((t[i] ** 2).sum()) for t in b)) + 1e-6) < 1)
                else:
                    fs.extend(ck / (float(t[i].norm()) + 1e-6) < 1 for t, ck in zip(b, c["C"]))
        nt = len(c["shapes"]) >= 2 and sum(len(b[0]) for b in c["batches"]) >= 2 and any(fs) and not all(fs)
        key = (c["kind"], tuple(c["shapes"]), tuple(len(b[0]) for b in c["batches"]), tuple(c["pieces"]), str(c["C"]))
        ctx.case(key, nontrivial=nt, sample={"component": "clip", "kind": c["kind"], "shapes": c["shapes"], "batch_sizes": [len(b[0]) for b in c["batches"]], "C": c["C"]}, kind="clip:" + c["kind"])
        if any(len(b[0]) == 0 for b in c["batches"]):
            ctx.count("clip:empty-physical-batch")
        if len(c["batches"]) > 1:
            ctx.count("clip:multi-physical-batch")
        if any(p > 1 for p in c["pieces"]):
            ctx.count("clip:list-grad_sample")
        if ok:
            ctx.validated()
        else:
            ctx.mismatch("clip", case_json(c), impl, mod, oracle=clip_oracle_around)


# --------------------------------------------------------------------------- ghost norm samplers (exact)
def gen_gn_case(rng):
    k = rng.choice(["lin2", "lin3", "lin3", "emb", "emb"])
    T, O, I, V, D = rng.randint(1, 4), rng.randint(1, 3), rng.randint(1, 4), rng.randint(1, 5), rng.randint(1, 3)
    B = rng.randint(1, 3)
    ri = lambda *sh: [[rng.randint(-4, 4) for _ in range(sh[-1])] for _ in range(sh[0])] if len(sh) == 2 else None
    if k == "lin2":
        return {"k": k, "O": O, "I": I, "b": [[rng.randint(-4, 4) for _ in range(O)] for _ in range(B)], "a": [[rng.randint(-4, 4) for _ in range(I)] for _ in range(B)]}
    if k == "lin3":
        return {"k": k, "T": T, "O": O, "I": I, "b": [[[rng.randint(-4, 4) for _ in range(O)] for _ in range(T)] for _ in range(B)],
                "a": [[[rng.randint(-4, 4) for _ in range(I)] for _ in range(T)] for _ in range(B)]}
    # embedding: ids of shape [B,T] or [B,T1,T2] (flattened by the sampler), repeated ids likely
    shape2 = rng.random() < 0.3
    T2 = rng.randint(1, 2) if shape2 else 1
    return {"k": k, "T": T * T2, "T1": T, "T2": T2, "V": V, "D": D, "ids": [[rng.randrange(V) for _ in range(T * T2)] for _ in range(B)],
            "b": [[[rng.randint(-4, 4) for _ in range(D)] for _ in range(T * T2)] for _ in range(B)]}


def real_gn(c):
    """the real norm samplers on integer-valued float64 tensors → per sample list of integers
    (round(norm²), exact because every intermediate is an integer below 2^53)"""
    from opacus.grad_sample.embedding_norm_sample import compute_embedding_norm_sample
    from opacus.grad_sample.linear import compute_linear_norm_sample

    f = lambda v: torch.tensor(v, dtype=torch.float64)
    sq = lambda t: [int(round(float(x) ** 2)) for x in t]
    if c["k"] in ("lin2", "lin3"):
        lay = nn.Linear(c["I"], c["O"], bias=True, dtype=torch.float64)
        r = compute_linear_norm_sample(lay, [f(c["a"])], f(c["b"]))
        return list(zip(sq(r[lay.weight]), sq(r[lay.bias])))
    lay = nn.Embedding(c["V"], c["D"], dtype=torch.float64)
    ids = torch.tensor(c["ids"])
    b = f(c["b"])
    if c["T2"] > 1:
        ids = ids.reshape(len(ids), c["T1"], c["T2"])
        b = b.reshape(len(ids), c["T1"], c["T2"], c["D"])
    r = compute_embedding_norm_sample(lay, [ids], b)
    return [(x,) for x in sq(r[lay.weight])]


def real_gs_sq(c):
    """squared norms of the real grad samplers' output (what the norm sampler is meant to equal)"""
    from opacus.grad_sample.embedding import compute_embedding_grad_sample
    from opacus.grad_sample.linear import compute_linear_grad_sample

    f = lambda v: torch.tensor(v, dtype=torch.float64)
    if c["k"] in ("lin2", "lin3"):
        lay = nn.Linear(c["I"], c["O"], bias=True, dtype=torch.float64)
        r = compute_linear_grad_sample(lay, [f(c["a"])], f(c["b"]))
        return [(int(round(float((r[lay.weight][i] ** 2).sum()))), int(round(float((r[lay.bias][i] ** 2).sum())))) for i in range(len(c["b"]))]
    lay = nn.Embedding(c["V"], c["D"], dtype=torch.float64)
    lay.max_batch_len = len(c["ids"])
    r = compute_embedding_grad_sample(lay, [torch.tensor(c["ids"])], f(c["b"]))
    return [(int(round(float((r[lay.weight][i] ** 2).sum()))),) for i in range(len(c["ids"]))]


def gn_lines(c):
    out = []
    for i in range(len(c["b"])):
        fl = lambda m: " ".join(str(v) for row in m for v in row)
        if c["k"] == "lin2":
            out.append(f"gn lin2 {c['O']} {c['I']} {' '.join(map(str, c['b'][i]))} {' '.join(map(str, c['a'][i]))}")
        elif c["k"] == "lin3":
            out.append(f"gn lin3 {c['T']} {c['O']} {c['I']} {fl(c['b'][i])} {fl(c['a'][i])}")
        else:
            out.append(f"gn emb {c['T']} {c['V']} {c['D']} {' '.join(map(str, c['ids'][i]))} {fl(c['b'][i])}")
    return out


def gn_property_oracle(c):
    """the property at sampler level, implementation only: the norm sample must equal the norm of the
    grad sample the same layer produces"""
    ns, gs = real_gn(c), real_gs_sq(c)
    for i, (a, b) in enumerate(zip(ns, gs)):
        for j, (x, y) in enumerate(zip(a, b)):
            if x != y:
                pname = ["weight", "bias"][j]
                layer = "Embedding" if c["k"] == "emb" else "Linear"
                rank = {"lin2": 2, "lin3": 3, "emb": 2 if c.get("T2", 1) == 1 else 3}[c["k"]]
                return (f"C02:ghost-norm:{layer}.{pname}:input-rank-{rank}", f"norm sampler gives ‖g‖²={x}, the grad sample of the same layer has ‖g‖²={y} (sample {i})", {"norm_sq_sampler": x, "norm_sq_grad_sample": y})
    return None


def run_gn(ctx, cases, bias_variant):
    lines, idx = [], []
    for ci, c in enumerate(cases):
        ls = gn_lines(c)
        lines += ls
        idx += [ci] * len(ls)
    replies = ctx.lean_driver("C02", lines)
    per = {}
    for ci, rep in zip(idx, replies):
        per.setdefault(ci, []).append(rep)
    for ci, c in enumerate(cases):
        impl = real_gn(c)
        ok = True
        model = []
        for rep, im in zip(per[ci], impl):
            if rep.startswith("bad"):
                ok = False
                model.append(rep)
                continue
            v = [int(t) for t in rep.split()]
            if c["k"] == "lin2":
                m = (v[0], v[1])
            elif c["k"] == "lin3":
                m = (v[0], v[1] if bias_variant == "asCoded" else v[2])
            else:
                m = (v[0],)
            model.append(m)
            ok = ok and tuple(im) == m
        B = len(c["b"])
        rep_ids = c["k"] == "emb" and any(len(set(r)) < len(r) for r in c["ids"])
        nt = (c["k"] == "lin2") or (c["k"] == "lin3" and c["T"] >= 2) or (c["k"] == "emb" and rep_ids)
        ctx.case(("gn", c["k"], str(c["b"]), str(c.get("a", c.get("ids")))), nontrivial=nt, sample={"component": "ghostnorm", **{k: v for k, v in c.items() if k in ("k", "T", "O", "I", "V", "D")}, "B": B}, kind="ghostnorm:" + c["k"])
        if rep_ids:
            ctx.count("ghostnorm:emb-repeated-ids")
        if ok:
            ctx.validated()
        else:
            ctx.mismatch("ghostnorm", c, impl, model, oracle=gn_property_oracle)


# --------------------------------------------------------------------------- ghost pipeline (Float)
GHOST_ARCHS = ["mlp", "seq", "lin", "emb", "embseq", "conv", "ln"]


def gen_ghost_case(rng):
    spec = R.gen_spec(rng, archs=GHOST_ARCHS, ghost_safe=True)
    B = rng.randint(1, 4)
    return {"spec": spec, "B": B, "dseed": rng.randrange(1 << 30), "Cq": rng.choice([0.4, 0.8, 1.2, 1e6]), "reduction": rng.choice(["mean", "sum"]),
            "max_phys": rng.choice([None, None, 1, 2]), "col": False}


def ghost_data(c):
    import random

    x, y = R.gen_data(c["spec"], c["B"], random.Random(c["dseed"]))
    if "C" not in c:
        mg = R.micro_grads(c["spec"], x, y)
        norms = sorted(R.flat_norm(g) for g in mg)
        c["C"] = float(norms[len(norms) // 2] * c["Cq"]) if c["Cq"] < 1e5 else 1e6
        if not c["C"] > 0:   # every per-sample gradient vanishes (dead ReLUs): the property needs max_grad_norm > 0
            c["C"] = 1.0
    return x, y


def ghost_line(e, c, bias_variant, loss_variant):
    """driver request from what the real run fed its samplers"""
    model = e.plain
    layers = [m for m in model.modules() if len(list(m.children())) == 0 and any(p.requires_grad for p in m.parameters(recurse=False))]
    dl = [p.numel() for p in e.opt.params]
    parts = [f"ghost {'a' if bias_variant == 'asCoded' else 'r'} {'a' if loss_variant == 'asCoded' else 'r'} {'col' if c.get('col') else 'vec'} {fdec(c['C'])} {len(dl)} {' '.join(map(str, dl))} {len(layers)} {len(e.records)}"]
    fd = lambda t: " ".join(fdec(v) for v in t.reshape(-1).tolist())
    for B, recs in e.records:
        parts.append(str(B))
        by_layer = {id(r[1]): r for r in recs if r[0] == "ns"}
        by_param = {id(r[1]): r for r in recs if r[0] == "gs"}
        for i in range(B):
            for lay in layers:
                r = by_layer.get(id(lay))
                if r is not None:
                    act, bp = r[2][0], r[3]
                    hb = int(getattr(lay, "bias", None) is not None)
                    if isinstance(lay, nn.Linear) and bp.dim() == 2:
                        parts.append(f"lin2 {bp.shape[1]} {act.shape[1]} {hb} {fd(bp[i])} {fd(act[i])}")
                    elif isinstance(lay, nn.Linear) and bp.dim() == 3:
                        parts.append(f"lin3 {bp.shape[1]} {bp.shape[2]} {act.shape[2]} {hb} {fd(bp[i])} {fd(act[i])}")
                    elif isinstance(lay, nn.Embedding):
                        ids = act[i].reshape(-1)
                        parts.append(f"emb {len(ids)} {lay.num_embeddings} {bp.shape[-1]} {' '.join(str(int(v)) for v in ids.tolist())} {fd(bp[i])}")
                    else:
                        return None
                else:  # fast-gradient-clipping layer: one `other` pseudo-layer per parameter
                    n_other = 0
                    for p in lay.parameters(recurse=False):
                        g = by_param.get(id(p))
                        if g is None:
                            return None
                        parts.append(f"other {g[2][i].numel()} {fd(g[2][i])}")
                        n_other += 1
                    # an `other` layer contributes one pseudo-layer per parameter: adjust the layer count below
        # (layer count is fixed per sample; recomputed after the loop)
    # recompute the number of pseudo-layers per sample
    nl = 0
    B0, recs0 = e.records[0]
    by_layer0 = {id(r[1]) for r in recs0 if r[0] == "ns"}
    for lay in layers:
        nl += 1 if id(lay) in by_layer0 else len(list(lay.parameters(recurse=False)))
    head = parts[0].split()
    head[-2] = str(nl)
    parts[0] = " ".join(head)
    return " ".join(parts)


def run_ghost(ctx, cases, bias_variant, loss_variant):
    runs, lines, keep = [], [], []
    for c in cases:
        x, y = ghost_data(c)
        e = R.EngineRun(c["spec"], x, y, gsm_mode="ghost", clipping="flat", C=c["C"], reduction=c["reduction"], max_phys=c["max_phys"], col=c.get("col", False), capture=True)
        line = ghost_line(e, c, bias_variant, loss_variant)
        if line is None:
            ctx.count("ghost:skipped-unsupported-layer")
            continue
        runs.append(e)
        lines.append(line)
        keep.append(c)
    replies = ctx.lean_driver("C02", lines)
    for c, e, rep in zip(keep, runs, replies):
        ok = False
        mod = rep[:200]
        if rep.startswith("some") and " | norms" in rep:
            a, b = rep.split(" | norms")
            mod_sum = [h2f(t) for t in a.split()[1:]]
            mod_norms = [h2f(t) for t in b.split()]
            impl_sum = [float(v) for t in e.summed for v in np.asarray(t).reshape(-1)]
            impl_norms = [float(v) for t in e.norms for v in np.asarray(t).reshape(-1)]
            mod = {"summed": mod_sum, "norms": mod_norms}
            sc = max([abs(v) for v in impl_sum] + [1e-30])
            ok = (len(mod_sum) == len(impl_sum) and all(core.close(u, v, 1e-9, 1e-11 * max(1.0, sc)) for u, v in zip(impl_sum, mod_sum))
                  and len(mod_norms) == len(impl_norms) and all(core.close(u, v, 1e-9, 1e-12) for u, v in zip(impl_norms, mod_norms)))
        s = c["spec"]
        has3 = s["arch"] in ("seq", "embseq") or (s["arch"] == "lin" and s.get("rank") == 3)
        nt = c["B"] >= 2 and c["C"] < 1e5
        ctx.case(("ghost", s["arch"], s.get("rank"), s["bias"], s["wseed"], c["B"], c["reduction"], c["max_phys"]), nontrivial=nt,
                 sample={"component": "ghost", "arch": s["arch"], "rank": s.get("rank"), "bias": s["bias"], "B": c["B"], "C": c["C"], "reduction": c["reduction"], "max_phys": c["max_phys"]},
                 kind=f"ghost:{s['arch']}" + (":3d" if has3 else "") + (":bias" if s["bias"] else ""))
        if c["max_phys"]:
            ctx.count("ghost:bmm")
        if ok:
            ctx.validated()
        else:
            ctx.mismatch("ghost", {k: v for k, v in c.items()}, {"summed": [np.asarray(t).tolist() for t in e.summed], "norms": [np.asarray(t).tolist() for t in e.norms]}, mod,
                         oracle=lambda cc: neighbour_oracle(dict(cc, gsm_mode="ghost", clipping="flat")))


# --------------------------------------------------------------------------- property oracle on the real engine
def diagnose_key(cfg, x, y, full):
    """stable key for a sensitivity failure: name the faulty mechanism if it can be identified on the
    implementation alone, otherwise the bare configuration signature"""
    s = cfg["spec"]
    if s["arch"] in ("bn", "bn3"):
        if cfg["spec"].get("bn_affine") or cfg["spec"].get("bn_trs") or s["arch"] == "bn3":
            return f"C02:sensitivity:BatchNorm(affine={bool(cfg['spec'].get('bn_affine'))},track_running_stats={bool(cfg['spec'].get('bn_trs'))})-accepted"
        return "C02:sensitivity:BatchNorm(affine=False)-accepted"
    if cfg["gsm_mode"] == "ghost":
        mg = R.micro_grads(s, x, y)
        e = R.EngineRun(s, x, y, gsm_mode="ghost", clipping="flat", C=cfg["C"], reduction=cfg["reduction"], col=cfg.get("col", False))
        bad = []
        for k, (name, ns) in enumerate(zip(e.param_names, e.param_norm_samples)):
            if ns is None:
                continue
            true = [float(np.sqrt((g[k] ** 2).sum())) for g in mg]
            if any(not core.close(float(a), b, 1e-7, 1e-10) for a, b in zip(ns.reshape(-1).tolist(), true)):
                mod = dict(e.plain.named_modules())[name.rsplit(".", 1)[0]]
                rank = R.input_rank(s) if name.startswith(("l1", "e", "c")) else 2
                if s["arch"] == "embseq" and name.startswith("l1"):
                    rank = 3
                bad.append(f"{type(mod).__name__}.{name.rsplit('.', 1)[1]}:input-rank-{rank}")
        if bad:
            return "C02:ghost-norm:" + "+".join(sorted(set(bad)))
        if cfg.get("col"):
            return "C02:ghost-loss-broadcast:per-sample-loss-shape-[B,1]"
    return f"C02:sensitivity:{cfg['gsm_mode']}:{cfg['clipping']}:{s['arch']}"


def neighbour_oracle(cfg):
    """C02 on the implementation: summed_grad of the batch vs the batch minus each example."""
    import random

    s = cfg["spec"]
    x, y = R.gen_data(s, cfg["B"], random.Random(cfg["dseed"]))
    P = len(list(R.build(s).parameters()))
    clipping = cfg["clipping"]
    if "C" not in cfg:
        mg = R.micro_grads(s, x, y)
        norms = sorted(R.flat_norm(g) for g in mg)
        cfg["C"] = float(norms[len(norms) // 2] * cfg.get("Cq", 0.8))
        if not cfg["C"] > 0:   # every per-sample gradient vanishes (dead ReLUs): the property needs max_grad_norm > 0
            cfg["C"] = 1.0
    C = cfg["C"]
    Cs = [C / math.sqrt(P) * (1 + 0.5 * (k % 2)) for k in range(P)] if clipping == "per_layer" else C
    kw = dict(gsm_mode=cfg["gsm_mode"], clipping=clipping, C=Cs, reduction=cfg["reduction"], max_phys=cfg.get("max_phys"), col=cfg.get("col", False))
    full = R.EngineRun(s, x, y, **kw).summed
    worst = None
    for i in range(cfg["B"]):
        keep = [j for j in range(cfg["B"]) if j != i]
        red = R.EngineRun(s, x[keep], y[keep], **kw).summed
        d = R.diff(full, red)
        if clipping == "per_layer":
            over = max(float(np.sqrt((t**2).sum())) / c for t, c in zip(d, Cs))
            joint = R.flat_norm(d) / math.sqrt(sum(c * c for c in Cs))
            ratio = max(over, joint)
        else:
            ratio = R.flat_norm(d) / C
        if ratio > 1 + 1e-9 and (worst is None or ratio > worst[0]):
            worst = (ratio, i)
    if worst is None:
        return None
    key = diagnose_key(cfg, x, y, full)
    return (key, f"removing example {worst[1]} of {cfg['B']} moves summed_grad by {worst[0]:.6g}×C (C={C:.6g}); config: arch={s['arch']} rank={R.input_rank(s)} bias={s['bias']} "
            f"gsm={cfg['gsm_mode']} clipping={clipping} reduction={cfg['reduction']} max_phys={cfg.get('max_phys')} loss-shape={'[B,1]' if cfg.get('col') else '[B]'}",
            {"ratio": worst[0], "removed_index": worst[1], "failing_input": {k: v for k, v in cfg.items()}})


def gen_search_cfg(rng, thorough=False):
    mode = rng.choice(R.GSM_MODES)
    clipping = "flat" if mode == "ghost" else rng.choice(R.CLIPPINGS)
    archs = None
    if mode == "ghost":
        archs = ["mlp", "seq", "lin", "emb", "embseq", "conv", "ln", "gn", "lnre"]
    spec = R.gen_spec(rng, archs=archs, ghost_safe=(mode == "ghost"))
    if rng.random() < 0.15:
        # a parameter with two uses in one forward pass: hooks / functorch / ew sum both uses; ghost clipping computes one
        # norm per use and must REFUSE such a model (it does: NotImplementedError "Parameter tying is not supported")
        spec = dict(spec, arch="tied")
        spec.pop("rank", None)
    if mode == "ew" and clipping == "adaptive" and spec["arch"] in ("conv", "gn"):
        clipping = "flat"   # AdaClip uses .view on ExpandedWeights' non-contiguous conv grad_sample: raises (no release) — noted in the report
    return {"spec": spec, "B": rng.randint(2, 4 if not thorough else 6), "dseed": rng.randrange(1 << 30), "Cq": rng.choice([0.3, 0.8, 1.5]),
            "gsm_mode": mode, "clipping": clipping, "reduction": rng.choice(["mean", "sum"]), "max_phys": rng.choice([None, None, 1, 2]), "col": False}


# --------------------------------------------------------------------------- variants / witnesses
def detect_bias_variant():
    """Lean witness `linear_bias_norm_sq_3d_counterexample`: two positions, backprop ½."""
    from opacus.grad_sample.linear import compute_linear_norm_sample

    lay = nn.Linear(1, 1, bias=True, dtype=torch.float64)
    r = compute_linear_norm_sample(lay, [torch.ones(1, 2, 1, dtype=torch.float64)], torch.full((1, 2, 1), 0.5, dtype=torch.float64))
    v = float(r[lay.bias][0])
    return ("repaired" if core.close(v, 1.0, 1e-12) else "asCoded"), v


D1_WITNESS = {"spec": {"arch": "lin", "I": 2, "H": 2, "O": 2, "T": 3, "T2": 2, "V": 3, "bias": True, "act": "id", "loss": "sq", "scale": 1.0, "wseed": 7, "rank": 3, "pool": "mean"},
              "B": 3, "dseed": 11, "Cq": 0.5, "gsm_mode": "ghost", "clipping": "flat", "reduction": "mean", "max_phys": None, "col": False}
D11_WITNESS = {"spec": {"arch": "mlp", "I": 2, "H": 2, "O": 1, "T": 2, "T2": 2, "V": 3, "bias": False, "act": "tanh", "loss": "sq", "scale": 1.0, "wseed": 3},
               "B": 3, "dseed": 5, "Cq": 0.5, "gsm_mode": "ghost", "clipping": "flat", "reduction": "mean", "max_phys": None, "col": True}
D3_WITNESS = {"spec": {"arch": "bn", "I": 2, "H": 3, "O": 2, "T": 2, "T2": 2, "V": 3, "bias": True, "act": "tanh", "loss": "sq", "scale": 1.0, "wseed": 5},
              "B": 4, "dseed": 9, "C": 0.1, "gsm_mode": "hooks", "clipping": "flat", "reduction": "mean", "max_phys": None, "col": False}


def detect_loss_variant():
    """does a per-sample loss of shape [B,1] broadcast against coeff[B]?  (Lean witness
    `ghost_loss_broadcast_counterexample`)"""
    import random

    c = dict(D11_WITNESS)
    x, y = R.gen_data(c["spec"], c["B"], random.Random(c["dseed"]))
    mg = R.micro_grads(c["spec"], x, y)
    C = float(sorted(R.flat_norm(g) for g in mg)[1] * 0.5)
    e = R.EngineRun(c["spec"], x, y, gsm_mode="ghost", clipping="flat", C=C, reduction="mean", col=True)
    ref = R.np_clipped_sum(mg, "flat", C)
    err = max(float(np.abs(a - b).max()) for a, b in zip(e.summed, ref))
    return ("repaired" if err < 1e-9 else "asCoded"), err


def bn_accepted(spec=None):
    """is the D3 witness model (or a variant of it) accepted by validation and by GradSampleModule(strict=True)?"""
    from opacus import GradSampleModule
    from opacus.validators import ModuleValidator

    m = R.build(spec or D3_WITNESS["spec"])
    try:
        errs = ModuleValidator.validate(m, strict=False)
        GradSampleModule(m, strict=True)
        return len(errs) == 0
    except Exception:
        return False


def regenerate(ctx):
    from .. import regen
    from . import c02_trans as T
    regen.regenerate(ctx, T, "Opacus.Generated.ClipFactor", "clip-factor sites (optimizers/*.py, grad_sample_module_fast_gradient_clipping.py)")


def run(ctx):
    regenerate(ctx)
    torch.set_num_threads(2)
    with rig.default_dtype(torch.float64):
        bv, val = detect_bias_variant()
        lv, err = detect_loss_variant()
        ctx.variant["linear_bias_norm_3d"] = bv
        ctx.variant["ghost_loss_broadcast"] = lv
        ctx.log(f"variants on this tree: 3-D bias norm sampler {bv} (witness value {val}), [B,1] loss broadcast {lv}")
        # 1. correspondence
        run_clip(ctx, [gen_clip_case(ctx.rng) for _ in range(ctx.n(100, 2000))])
        run_gn(ctx, [gen_gn_case(ctx.rng) for _ in range(ctx.n(120, 2400))], bv)
        gcases = [gen_ghost_case(ctx.rng) for _ in range(ctx.n(40, 600))]
        for c in gcases[:: 7]:
            if c["spec"]["arch"] == "mlp" and c["spec"]["O"] >= 1:
                c["col"] = True            # exercise the [B,1] path of the wrapper under the detected variant
        run_ghost(ctx, gcases, bv, lv)
        # 2. replay of the Lean counterexample witnesses on the real code
        for name, w, variant in (("D1", D1_WITNESS, bv), ("D11", D11_WITNESS, lv)):
            res = neighbour_oracle(dict(w))
            ctx.count("witness:" + name)
            if res:
                ctx.property_failure(res[0], res[1], res[2])
            elif variant == "asCoded":
                ctx.mismatch("witness-" + name, w, "property holds at the witness", "asCoded variant detected but the Lean counterexample does not reproduce")
        if bn_accepted():
            res = neighbour_oracle(dict(D3_WITNESS))
            ctx.count("witness:D3")
            if res:
                ctx.property_failure(res[0], res[1], res[2])
        else:
            ctx.variant["bn_affine_false"] = "rejected-by-validation"
        # every other BatchNorm configuration in training mode couples the samples of a batch as well: whatever validation
        # accepts must satisfy the bound
        for aff, trs, arch in ((True, False, "bn"), (True, True, "bn"), (False, True, "bn"), (True, False, "bn3"), (True, True, "bn3")):
            w = dict(D3_WITNESS, spec=dict(D3_WITNESS["spec"], bn_affine=aff, bn_trs=trs, arch=arch, T=4))
            ctx.count("witness:BatchNorm-variants")
            if bn_accepted(w["spec"]):
                for mode in ("hooks", "ew"):
                    try:
                        res = neighbour_oracle(dict(w, gsm_mode=mode))
                    except Exception as e:  # noqa: BLE001 - accepted by validation but refused at the first backward (functorch runs
                        ctx.count("witness:BatchNorm-variant-raises-at-backward:" + type(e).__name__)   # BatchNorm on single samples): nothing released
                        continue
                    if res:
                        ctx.property_failure(res[0], res[1], res[2])
                        break
            else:
                ctx.count("witness:BatchNorm-variant-rejected-by-validation")
        # 3. failing-input search: neighbouring-batch oracle on the real engine
        for it in range(ctx.n(45, 900) + ctx.n(10, 100)):
            cfg = gen_search_cfg(ctx.rng, ctx.thorough)
            if it >= ctx.n(45, 900):
                # every run: adaptive clipping over a logical batch split into several physical batches (the bound that the
                # noise is calibrated to must be the bound every physical batch was clipped with)
                cfg.update(clipping="adaptive", gsm_mode=ctx.rng.choice(["hooks", "functorch"]), max_phys=ctx.rng.choice([1, 2]), B=ctx.rng.randint(3, 5),
                           Cq=ctx.rng.choice([0.3, 0.8]))
            try:
                res = neighbour_oracle(cfg)
            except Exception as e:
                if cfg["gsm_mode"] == "ghost" and cfg["spec"]["arch"] == "tied" and isinstance(e, NotImplementedError):
                    ctx.count("search:ghost:tied-parameters-refused")   # the bound holds vacuously: nothing is released
                    continue
                # the unchanged tree takes every other generated step without raising
                ctx.count("search:engine-raised:" + type(e).__name__)
                ctx.property_failure(f"C02:search:engine-raised:{type(e).__name__}:{cfg['gsm_mode']}:{cfg['clipping']}:{cfg['spec']['arch']}",
                                     f"one logical step raised {type(e).__name__}: {str(e)[:200]} (arch={cfg['spec']['arch']}, gsm={cfg['gsm_mode']}, clipping={cfg['clipping']}, max_phys={cfg.get('max_phys')})",
                                     {"failing_input": dict(cfg)})
                continue
            ctx.count(f"search:{cfg['gsm_mode']}:{cfg['clipping']}" + (":bmm" if cfg["max_phys"] else ""))
            ctx.count("search:rank-%d" % R.input_rank(cfg["spec"]))
            ctx.count("search:arch:" + cfg["spec"]["arch"])
            if res:
                ctx.property_failure(res[0], res[1], res[2])


def replay(ctx, rp):
    with rig.default_dtype(torch.float64):
        c = rp.get("failing_input") or rp.get("case")
        res = None
        if isinstance(c, dict) and "batches" in c:
            res = clip_property_oracle(case_from_json(c))
        elif isinstance(c, dict) and "spec" in c:
            c = dict(c)
            c.setdefault("gsm_mode", "ghost")
            c.setdefault("clipping", "flat")
            res = neighbour_oracle(c)
        elif isinstance(c, dict) and "k" in c:
            res = gn_property_oracle(c)
        if res:
            print("REPRODUCED:", res[0], res[1])
            ctx.violations.append(res[0])
        else:
            print("not reproduced on this tree")
