"""C01 helper: correspondence of the GradSampleModule bookkeeping (hooks, activation stack,
_forward_counter, create_or_accumulate / promote, max_batch_len, mean rescale, batch_first permute)
with the Lean machine `Opacus.GSM` (driver `C01m`).

A real `GradSampleModule` is wrapped around an integer-weight model made of nn.Linear / ReLU /
reused layers / DPRNN(relu) (so that every activation, backprop and per-sample gradient is an
exactly representable integer).  The two hook methods and `set_max_batch_length` are wrapped FROM
THE HARNESS to record the event trace (which module, which tensors); the same trace drives the Lean
machine, and after every script step the complete observable state (per parameter:
`_forward_counter`, `_current_grad_sample`, `grad_sample`; per module: stack depth, `max_batch_len`)
is compared bit-for-bit.
"""
from __future__ import annotations

import contextlib

import torch
import torch.nn as nn

from . import c01_arch as A


@contextlib.contextmanager
def traced(log):
    """wrap the hook methods on the class (they are bound at add_hooks time)"""
    from opacus.grad_sample import GradSampleModule
    from opacus.layers.dp_rnn import DPRNNCellBase

    fa, fb, fs = GradSampleModule.capture_activations_hook, GradSampleModule.capture_backprops_hook, DPRNNCellBase.set_max_batch_length

    def wa(self, module, forward_input, forward_output):
        log.append(("fwd", module, [t.detach().clone() for t in forward_input], bool(module.training and torch.is_grad_enabled())))
        return fa(self, module, forward_input, forward_output)

    def wb(self, module, _forward_input, forward_output, loss_reduction, batch_first):
        log.append(("bwd", module, forward_output[0].detach().clone()))
        return fb(self, module, _forward_input, forward_output, loss_reduction, batch_first)

    def ws(self, n):
        log.append(("setmax", self.ih, int(n)))
        log.append(("setmax", self.hh, int(n)))
        return fs(self, n)

    GradSampleModule.capture_activations_hook, GradSampleModule.capture_backprops_hook = wa, wb
    DPRNNCellBase.set_max_batch_length = ws
    try:
        yield
    finally:
        GradSampleModule.capture_activations_hook, GradSampleModule.capture_backprops_hook = fa, fb
        DPRNNCellBase.set_max_batch_length = fs


def integerize(model, seed):
    g = torch.Generator().manual_seed(seed)
    with torch.no_grad():
        for p in model.parameters():
            p.copy_(torch.randint(-2, 3, p.shape, generator=g).double())


def gen_case(rng):
    """spec (c01_arch format, Linear/relu/Reuse/RNN-relu only) + a script"""
    bf = rng.random() < 0.7
    kind = rng.choice(["vec", "seq", "seq", "rnn", "rnn"]) if bf else rng.choice(["seq", "rnn"])
    B = rng.choice([1, 2, 3, 4])
    spec = {"mode": "hooks", "batch_first": bf, "reduction": rng.choice(["mean", "sum"]), "B": B, "seed": rng.randrange(10**6)}
    layers = []
    if kind == "rnn":
        T, F = rng.randint(1, 3), rng.randint(1, 3)
        spec.update(kind="seq", shape=[T, F])
        h = rng.randint(1, 2)
        bid = rng.random() < 0.3
        layers.append({"t": "RNN", "cell": "rnn", "nonlin": "relu", "in": F, "hidden": h, "layers": rng.choice([1, 1, 2]), "bidir": bid, "bias": rng.random() < 0.7})
        cur = h * (2 if bid else 1)
        if rng.random() < 0.5:
            layers.append({"t": "Linear", "in": cur, "out": rng.randint(1, 2), "bias": True})
        if rng.random() < 0.4 and T > 1 and B > 1:
            lens = sorted([rng.randint(1, T) for _ in range(B)], reverse=True)
            lens[0] = T
            spec["packed"] = lens
            layers = layers[:1]
    else:
        shape = [rng.randint(1, 3)] if kind == "vec" else [rng.randint(1, 3), rng.randint(1, 3)]
        spec.update(kind=kind, shape=shape)
        cur = shape[-1]
        refs = []
        for _ in range(rng.randint(1, 4)):
            r = rng.random()
            if r < 0.2 and refs:
                cands = [i for i in refs if layers[i]["in"] == cur]
                if cands:
                    layers.append({"t": "Reuse", "ref": rng.choice(cands)})
                    continue
            if r < 0.35:
                layers.append({"t": "Act", "f": "relu"})
                continue
            o = rng.randint(1, 3)
            L = {"t": "Linear", "in": cur, "out": o, "bias": rng.random() < 0.7}
            if rng.random() < 0.2:
                L["freeze"] = rng.choice([["weight"], ["bias"]]) if L["bias"] else ["weight"]
            if L.get("freeze") == ["weight"] and not L["bias"]:
                del L["freeze"]
            if o == cur:
                refs.append(len(layers))
            layers.append(L)
            cur = o
        if not any(l["t"] == "Linear" for l in layers):
            layers.append({"t": "Linear", "in": cur, "out": 2, "bias": True})
    spec["layers"] = layers
    acts = ["fb", "fb", "fb", "fb", "zero", "ff_bb", "forbid", "allow", "disable", "enable", "eval_fb", "nograd_f", "fb_small"]
    script = [rng.choice(acts) for _ in range(rng.randint(1, 6))]
    if "fb" not in script and "ff_bb" not in script:
        script.insert(0, "fb")
    return spec, script


def _input(spec, seed, B=None):
    g = torch.Generator().manual_seed(seed)
    B = spec["B"] if B is None else B
    x = torch.randint(-2, 3, [B] + list(spec["shape"]), generator=g).double()
    if not spec.get("batch_first", True):
        x = x.transpose(0, 1).contiguous()
    if spec.get("packed") and B == spec["B"]:
        from torch.nn.utils.rnn import pack_padded_sequence

        return pack_padded_sequence(x, torch.tensor(spec["packed"]), batch_first=spec.get("batch_first", True), enforce_sorted=True)
    return x


def _out_tensor(out):
    from torch.nn.utils.rnn import PackedSequence

    return out.data if isinstance(out, PackedSequence) else out


def map_err(e):
    m = str(e)
    if "Poisson sampling is not compatible" in m:
        return "err:accum-forbidden"
    if "pop from empty list" in m:
        return "err:pop-empty"
    if "No activations detected" in m:
        return "err:no-activations"
    if isinstance(e, RuntimeError) and ("size of tensor" in m or "shape" in m or "expanded size" in m or "must match" in m):
        return "err:shape"
    return "err:" + type(e).__name__


def tensor_line(t):
    t = t.detach().double()
    v = t.reshape(-1)
    assert bool((v == v.round()).all()), "non-integer tensor in the machine correspondence"
    return f"{t.dim()} {' '.join(str(s) for s in t.shape)} {' '.join(str(int(x)) for x in v.tolist())}".strip()


def rows_str(t, width):
    return f"{t.shape[0]} " + " ".join(str(int(x)) for x in t.detach().double().reshape(-1).tolist())


def real_dump(params, mods):
    out = []
    for p in params:
        c = rows_str(p._current_grad_sample, 0).strip() if hasattr(p, "_current_grad_sample") else "-"
        gsv = getattr(p, "grad_sample", None)
        if gsv is None:
            g = "none"
        elif isinstance(gsv, list):
            g = f"L {len(gsv)} " + " ".join(rows_str(t, 0).strip() for t in gsv)
        else:
            g = "T " + rows_str(gsv, 0).strip()
        out.append(f"p {int(p._forward_counter)} C {c} G {g}")
    for m in mods:
        st = str(len(m.activations)) if hasattr(m, "activations") else "-"
        ml = str(int(m.max_batch_len)) if hasattr(m, "max_batch_len") else "-"
        out.append(f"m {st} {ml}")
    return " ; ".join(" ".join(s.split()) for s in out)


def run_case(spec, script):
    """returns (driver lines, expected replies computed from the REAL objects, info)"""
    from opacus.grad_sample import GradSampleModule
    from opacus.layers.dp_rnn import RNNLinear

    log = []
    model = A.build_model(spec)
    integerize(model, spec["seed"])
    with traced(log):
        gsm = GradSampleModule(model, batch_first=spec.get("batch_first", True), loss_reduction=spec["reduction"])
        hooked = [m for m in gsm.iterate_submodules(model) if isinstance(m, nn.Linear)]
        params = []
        for m in hooked:
            for p in m.parameters(recurse=False):
                if p.requires_grad and not any(p is q for q in params):
                    params.append(p)
        pid = lambda p: next((i for i, q in enumerate(params) if q is p), -1)
        mid = lambda m: next(i for i, q in enumerate(hooked) if q is m)
        static = f"static {int(spec.get('batch_first', True))} {int(spec['reduction'] == 'mean')} {len(hooked)} " + " ".join(
            f"{int(isinstance(m, RNNLinear))} {m.out_features} {m.in_features} "
            f"{pid(m.weight) if m.weight.requires_grad else -1} {pid(m.bias) if (m.bias is not None and m.bias.requires_grad) else -1}"
            for m in hooked)
        lines, expect = [static], ["ok"]
        seed = spec["seed"]
        info = {"events": 0, "max_stack": 0, "errors": []}

        def flush(status="ok"):
            """turn the logged events into driver lines; the last event carries `status`"""
            evs = list(log)
            log.clear()
            for i, ev in enumerate(evs):
                last = i == len(evs) - 1
                if ev[0] == "fwd":
                    lines.append(f"fwd {mid(ev[1])} {int(ev[3])} {tensor_line(ev[2][-1])}")
                elif ev[0] == "bwd":
                    lines.append(f"bwd {mid(ev[1])} {tensor_line(ev[2])}")
                else:
                    if not any(ev[1] is q for q in hooked):
                        continue
                    lines.append(f"setmax {mid(ev[1])} {ev[2]}")
                expect.append(status if last else "ok")
                info["events"] += 1
            for m in hooked:
                if hasattr(m, "activations"):
                    info["max_stack"] = max(info["max_stack"], len(m.activations))

        def fwd(B=None):
            nonlocal seed
            seed += 1
            out = _out_tensor(gsm(_input(spec, seed, B)))
            w = torch.randint(-2, 3, out.shape, generator=torch.Generator().manual_seed(seed + 5)).double()
            return (out * w).sum()

        dead = False
        for act in script:
            if dead:
                break
            try:
                if act in ("fb", "fb_small"):
                    loss = fwd(B=max(1, spec["B"] - 1) if act == "fb_small" and not spec.get("packed") else None)
                    flush()
                    loss.backward()
                    flush()
                elif act == "ff_bb":
                    l1 = fwd()
                    l2 = fwd()
                    flush()
                    (l1 + l2).backward()
                    flush()
                elif act == "zero":
                    gsm.zero_grad()
                    lines.append("zero"); expect.append("ok")
                elif act == "forbid":
                    gsm.forbid_grad_accumulation()
                    lines.append("forbid"); expect.append("ok")
                elif act == "allow":
                    gsm.allow_grad_accumulation()
                    lines.append("allow"); expect.append("ok")
                elif act == "disable":
                    gsm.disable_hooks()
                    lines.append("disable"); expect.append("ok")
                elif act == "enable":
                    gsm.enable_hooks()
                    lines.append("enable"); expect.append("ok")
                elif act == "eval_fb":
                    gsm.eval()
                    loss = fwd()
                    gsm.train()
                    flush()
                    loss.backward()
                    flush()
                elif act == "nograd_f":
                    with torch.no_grad():
                        fwd()
                    flush()
            except Exception as e:  # the exception surfaces from the hook of the LAST logged event
                st = map_err(e)
                info["errors"].append(st)
                flush(st)
                dead = True
                break
            lines.append(f"dump {len(params)}")
            expect.append(real_dump(params, hooked))
        info["modules"], info["params"] = len(hooked), len(params)
        info["tied"] = any(sum(1 for m in hooked for q in m.parameters(recurse=False) if q is p) > 1 for p in params) or any(l["t"] == "Reuse" for l in spec["layers"])
    return lines, expect, info
