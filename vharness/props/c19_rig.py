"""Real-object rig for C19: a small model built from a spec, wrapped by the real Opacus classes,
driven by the op alphabet of the Lean machine (`wrap m`, `wrapopt`, `fwd a`, `bwd`, `step k`, `ozg`,
`mzg`, `hooks b`, `unwrap`) and observed from outside (`__dict__` of parameters / modules, hook dicts,
`id()` of parameters).

spec = {"rg": [bool per parameter], "layers": [(kind, [param idx…], user_fwd_hooks)], "seed": int}
Every layer maps (B,4) → (B,4) and owns two parameters (weight-like, bias-like):
  both      nn.Linear(4,4)        grad sampler + norm sampler
  gradOnly  nn.LayerNorm(4)       grad sampler only
  neither   Affine (custom)       no sampler → functorch (`prepare_layer`)
"""
from __future__ import annotations

import copy

import torch
import torch.nn as nn

F = 4
MODELLED_P = {"grad_sample", "_forward_counter", "_current_grad_sample", "summed_grad", "_norm_sample"}
MODELLED_M = {"activations", "max_batch_len", "ft_compute_sample_grad", "autograd_grad_sample_hooks"}


class Affine(nn.Module):
    def __init__(self):
        super().__init__()
        self.w = nn.Parameter(torch.ones(F))
        self.b = nn.Parameter(torch.zeros(F))

    def forward(self, x):
        return x * self.w + self.b


def _noop_hook(*a):
    return None


def build_model(spec):
    """returns (module, [layer modules in spec order], [parameters in spec order])"""
    g = torch.Generator().manual_seed(1234 + int(spec.get("seed", 0)))
    mods, layers = [], []
    for kind, idx, ufh in spec["layers"]:
        if kind == "both":
            m = nn.Linear(F, F)
        elif kind == "gradOnly":
            m = nn.LayerNorm(F)
        else:
            m = Affine()
        with torch.no_grad():
            for j, p in enumerate(m.parameters()):
                p.copy_(torch.randn(p.shape, generator=g) * 0.5 + (1.0 if (j == 0 and kind != "both") else 0.0))
        for _ in range(ufh):
            m.register_forward_hook(_noop_hook)
        layers.append(m)
        mods += [m, nn.Tanh()]
    model = nn.Sequential(*mods[:-1])
    params = []
    for m in layers:
        params += list(m.parameters())
    assert len(params) == len(spec["rg"]), "spec: two parameters per layer, indices in order"
    for p, rg in zip(params, spec["rg"]):
        p.requires_grad_(bool(rg))
    return model, layers, params


def map_err(e: BaseException) -> str:
    m = str(e)
    if isinstance(e, AttributeError) and "_norm_sample" in m:
        return "err:no-norm-sample"
    if isinstance(e, NotImplementedError) and "Parameter tying" in m:
        return "err:tied"
    if isinstance(e, AttributeError) and "grad_sample" in m:
        return "err:attr-error"
    if "no hooks found" in m:
        return "err:no-hooks-found"
    if "add hooks twice" in m:
        return "err:already-wrapped"
    if "Expanded Weights accumulates" in m:
        return "err:ew-accum"
    if "Per sample gradient is not initialized" in m or "Per sample gradient not found" in m:
        return "err:no-grad-sample"
    if "haven't been cleared" in m:
        return "err:processed"
    if m == "no-graph":
        return "err:no-graph"
    return "err:" + type(e).__name__


class RealWrap:
    def __init__(self, spec, B=3):
        self.spec = spec
        self.B = B
        self.model, self.layers, self.params = build_model(spec)
        self.base_pkeys = [set(p.__dict__) for p in self.params]
        self.base_mkeys = [set(m.__dict__) for m in self.model.modules()]
        self.param_ids = [id(p) for p in self.model.parameters()]
        self.inner = torch.optim.SGD(self.model.parameters(), lr=0.05, momentum=0.9)
        self.gm = None
        self.mode = None
        self.dopt = None
        self.crit = None
        self.losses = []
        self.k = 0
        self.unwrapped = None

    # ------------------------------------------------------------------ observation
    def dump(self):
        root = self.model.__dict__.get("autograd_grad_sample_hooks")
        ps = []
        for p in self.params:
            d = p.__dict__
            if "grad_sample" not in d:
                gs = "-"
            elif d["grad_sample"] is None:
                gs = "N"
            elif isinstance(d["grad_sample"], list):
                gs = f"L{len(d['grad_sample'])}"
            else:
                gs = "T"
            fc = str(d["_forward_counter"]) if "_forward_counter" in d else "-"
            cur = "1" if "_current_grad_sample" in d else "0"
            sg = "-" if "summed_grad" not in d else ("N" if d["summed_grad"] is None else "T")
            ns = "1" if "_norm_sample" in d else "0"
            ps.append(f"{gs} {fc} {cur} {sg} {ns}")
        ls = []
        for (kind, idx, ufh), m in zip(self.spec["layers"], self.layers):
            d = m.__dict__
            act = str(len(d["activations"])) if "activations" in d else "-"
            mbl = "1" if "max_batch_len" in d else "0"
            ft = "1" if "ft_compute_sample_grad" in d else "0"
            nf, nb = len(m._forward_hooks) - ufh, len(m._backward_hooks)
            oh = "1" if (nf, nb) == (1, 1) else ("0" if (nf, nb) == (0, 0) else f"X{nf}/{nb}")
            fb = {None: "-", False: "F", True: "T"}[m._is_full_backward_hook]
            ls.append(f"{act} {mbl} {ft} {oh} {fb}")
        return f"R {'-' if root is None else len(root)} | " + ";".join(ps) + " | " + ";".join(ls)

    def unmodelled(self):
        """attributes on user objects that the model does not know about"""
        out = []
        for i, p in enumerate(self.params):
            extra = set(p.__dict__) - self.base_pkeys[i] - MODELLED_P
            if extra:
                out.append((f"param{i}", sorted(extra)))
        for j, m in enumerate(self.model.modules()):
            extra = set(m.__dict__) - self.base_mkeys[j] - MODELLED_M
            if extra:
                out.append((f"module{j}", sorted(extra)))
        return out

    def batch(self, k):
        g = torch.Generator().manual_seed(77 + k)
        return torch.randn(self.B, F, generator=g), torch.randint(0, F, (self.B,), generator=g)

    # ------------------------------------------------------------------ ops
    def do(self, op):
        o = op.split()
        try:
            self._do(o)
            return "ok " + self.dump()
        except (AttributeError, ValueError, RuntimeError, NotImplementedError, IndexError) as e:
            return map_err(e) + " " + self.dump()

    def _do(self, o):
        from opacus.grad_sample import wrap_model
        from opacus.optimizers import DPOptimizer, DPOptimizerFastGradientClipping
        from opacus.utils.fast_gradient_clipping_utils import DPLossFastGradientClipping

        if o[0] == "wrap":
            kw = {"max_grad_norm": 1.0} if o[1] == "ghost" else {}
            self.gm = wrap_model(self.model, o[1], batch_first=True, loss_reduction="mean", **kw)
            self.mode = o[1]
        elif o[0] == "wrapopt":
            cls = DPOptimizerFastGradientClipping if self.mode == "ghost" else DPOptimizer
            self.dopt = cls(self.inner, noise_multiplier=1.0, max_grad_norm=1.0, expected_batch_size=self.B, loss_reduction="mean",
                            generator=torch.Generator().manual_seed(5))
            if self.mode == "ghost":
                self.crit = DPLossFastGradientClipping(self.gm, self.dopt, nn.CrossEntropyLoss(reduction="mean"), "mean")
        elif o[0] == "fwd":
            x, y = self.batch(self.k)
            self.k += 1
            f = self.gm if self.gm is not None and self.unwrapped is None else self.model
            if o[1] == "1":
                out = f(x)
                if self.mode == "ghost" and self.crit is not None and self.unwrapped is None:
                    self.losses.append(self.crit(out, y))
                else:
                    self.losses.append(nn.functional.cross_entropy(out, y))
            elif self.k % 2:
                with torch.no_grad():
                    f(x)
            else:
                f.eval()
                try:
                    f(x)
                finally:
                    f.train()
        elif o[0] == "bwd":
            if not self.losses:
                if self.gm is None or self.unwrapped is not None:
                    return
                raise IndexError("no-graph")
            self.losses.pop().backward()
        elif o[0] == "step":
            if self.dopt is None:
                raise AttributeError("grad_sample: not-wrapped")   # never generated
            if o[1] == "1":
                self.dopt.signal_skip_step(True)
            self.dopt.step()
        elif o[0] == "ozg":
            self.dopt.zero_grad()
        elif o[0] == "mzg":
            if self.gm is not None and self.unwrapped is None:
                self.gm.zero_grad()
        elif o[0] == "hooks":
            (self.gm.enable_hooks if o[1] == "1" else self.gm.disable_hooks)()
        elif o[0] == "unwrap":
            self.unwrapped = self.gm.to_standard_module()
            # graphs built through the wrapper and not yet backpropagated stay usable: `loss.backward()` after unwrapping is ordinary use
            self.inflight = list(self.losses) if self.mode in ("hooks", "functorch") else []
            self.losses = []
        else:
            raise ValueError("bad op " + " ".join(o))


def twin_of(real: "RealWrap"):
    """a never-wrapped model with the same parameter values, and a fresh optimizer carrying the
    same inner-optimizer state"""
    tw, tlayers, tparams = build_model(real.spec)
    with torch.no_grad():
        for a, b in zip(tparams, real.params):
            a.copy_(b)
    topt = torch.optim.SGD(tw.parameters(), lr=0.05, momentum=0.9)
    topt.load_state_dict(copy.deepcopy(real.inner.state_dict()))
    return tw, topt
