"""C09 — Poisson sampling: independent inclusion at the accounted rate, empties kept.

Obligations (Lean, unbounded): a batch is a function of the uniform draws — `i` is in batch `b`
iff `u[b][i] < q` (`inclusion_pointwise`), batches are ascending, duplicate-free and in range,
an epoch has exactly `steps` batches with the empty ones kept; for every N, W >= 1 and every
permutation the rank-strided shards are pairwise disjoint, cover `range N` and have sizes
`N/W + [r < N mod W]`; the empty-batch collate has the item's structure for flat tuple items
(and the counterexamples for bare-tensor / dict / nested items); the accounted rate equals the
sampler's rate iff `int(1/(1/L)) = L`, and is never below it; `expected_batch_size` is the floor
where it is, with the N=98, L=49 counterexample.

Correspondence: the Float instance of `Sampler.epoch` against the real
`UniformWithReplacementSampler` (directly, as `DPDataLoader.batch_sampler`, and through a full
DataLoader iteration): the harness clones the torch generator, reproduces the `torch.rand(N)` draws
and compares index lists exactly, over several epochs; the distributed sampler for W <= 4 with
`torch.distributed` rank/world patched; the collate model against `DPDataLoader.collate_fn([])`
over generated item structures; the exact binary64 model against the real loader/engine facts.
"""
from __future__ import annotations

import torch

from .. import core, rig
from ..core import f2h
from . import c09_real as R

PID = "C09"
MODULES = ["OpacusLean.Props.C09", "OpacusLean.Props.C08"]
THEOREMS = [
    "Opacus.C09.inclusion_pointwise",
    "Opacus.C09.batch_wellformed",
    "Opacus.C09.epoch_len",
    "Opacus.C09.inclusion_epoch",
    "Opacus.C09.shards_partition",
    "Opacus.C09.dist_batch_wellformed",
    "Opacus.C09.dist_epoch_len_repaired",
    "Opacus.C09.dist_epoch_asCoded",
    "Opacus.C09.dist_drops_empty_counterexample",
    "Opacus.C09.empty_collate_shape_partial",
    "Opacus.C09.empty_collate_repaired",
    "Opacus.C09.empty_collate_counterexample",
    "Opacus.C09.rate_consistency",
    "Opacus.C09.rate_consistency_repaired",
    "Opacus.C09.rate_consistency_counterexample",
    "Opacus.C09.ebs_is_floor_partial",
    "Opacus.C09.ebs_counterexample",
    "Opacus.C09.grid_inclusion_probability",
    # the tie to the source: Generated/SamplerArith.lean is re-translated from utils/uniform_sampler.py on every run
    "Opacus.C09.generated_num_samples_eq_model",
    "Opacus.C09.generated_iter_eq_model",
    "Opacus.C09.generated_iter_inclusion_law",
    # the tie to the source: Generated/FloatBookkeeping.lean is re-translated from privacy_engine.py, accountants/utils.py, utils/uniform_sampler.py on every run
    "Opacus.C08.generated_bookkeeping_eq_model",
]
RULE = (
    "sampler case = (N, sample rate or (batch size -> L), seed, epochs, mode in {sampler, loader-sampler, loader}) drawn from VERIF_SEED; "
    "non-trivial iff the epoch contains a non-empty batch AND (an empty batch or >= 2 distinct batches); distinct by (mode, N, rate, seed); "
    "distributed case = (N, W<=4, rate, shuffle, seeds, epoch), non-trivial iff W >= 2 and some rank draws a non-empty batch; "
    "collate case = item structure (tuple/list/bare tensor/dict/nested; dtypes; python scalars; str; ndarray), distinct by structure; "
    "rate case = (N, batch size), non-trivial iff len(loader) >= 2"
)
TRUSTED = [
    "the translator vharness/props/c09_iter_trans.py (Python `ast` -> the two samplers' __iter__ as functions of the uniforms drawn per batch; subset in its docstring: one draw of num_samples uniforms from the sampler's own generator per batch, mask = draw < sample_rate, nonzero positions, the rank's shard, one unconditional yield; anything else is reported as a broken tie) is trusted to render the two generators faithfully; torch.rand / nonzero / randperm are outside the repository (their behaviour is what the sampler correspondence reproduces from a cloned generator on every run)",
    "torch.rand(N, generator) yields i.i.d. uniform float32 draws on the 2^-24 grid, deterministic in the generator state; torch compares them with sample_rate rounded to float32 "
    "(P(include) = ceil(float32(q)*2^24)/2^24, within 2^-24 of q): the distributional part of the property rests on this contract plus inclusion_pointwise",
    "torch.randperm yields a permutation (shards_partition is proved for every permutation); Python slice semantics [r:N:W] = positions congruent to r mod W",
    "default_collate semantics for non-empty batches (the collate oracle compares the empty batch with the loader's own non-empty output)",
]
PARTIAL = [
    "independence/uniformity of torch.rand is trusted, not proved; chi-square smoke statistics are reported in the thorough tier, not judged",
    "rate consistency and expected_batch_size fail as coded for some L (findings D14, D12): proved as iff / _partial with counterexamples",
    "distributed sampler: dropped empty local batches until fix 52db04e (finding D15; both behaviours stay in the model, the run detects which one the tree has); empty collate is wrong for non-flat items (finding D20)",
]


# --------------------------------------------------------------------------- generators
def gen_sampler_case(rng, big=False):
    mode = rng.choice(["sampler", "sampler", "loader-sampler", "loader"])
    N = rng.choice([1, 2, 3, 5, 8, 13, 20, 33, 64, 100]) if not big else rng.randint(100, 600)
    c = {"mode": mode, "N": N, "seed": rng.randrange(2**31), "epochs": rng.choice([1, 1, 2, 3])}
    if mode == "sampler":
        r = rng.random()
        if r < 0.45:
            c["q"] = 1 / rng.choice([1, 2, 3, 4, 5, 7, 10, 16, 49, 93, 99])
        elif r < 0.8:
            c["q"] = rng.choice([0.3, 0.07, 0.5, 0.25, 0.9, 1.0, 0.01, 0.6, rng.uniform(0.02, 1.0)])
        else:
            c["q"] = rng.uniform(0.001, 0.2)
            c["steps"] = rng.randint(0, 12)
        if rng.random() < 0.15:
            c["steps"] = rng.randint(0, 8)
    else:
        c["bs"] = rng.randint(1, max(1, min(N, 12)))
    return c


def gen_dist_case(rng):
    W = rng.choice([1, 2, 2, 3, 3, 4, 4])
    N = rng.choice([W, W + 1, 5, 7, 10, 16, 23, 40, rng.randint(W, 80)])
    N = max(N, 1)
    r = rng.random()
    q = 1.0 if r < 0.25 else (rng.choice([0.5, 0.2, 0.1, 1 / 3, 0.05]) if r < 0.8 else rng.uniform(0.01, 0.9))
    c = {"N": N, "W": W, "q": q, "shuffle": rng.random() < 0.7, "shuffle_seed": rng.randrange(1000), "epoch": rng.randrange(4), "seed": rng.randrange(2**31)}
    if q >= 1.0 or rng.random() < 0.4:
        c["steps"] = rng.randint(1, 6)
    return c


DTS = ["f16", "f32", "f64", "i8", "i16", "i32", "i64", "u8", "bool"]


def gen_leaf(rng, allow_odd):
    r = rng.random()
    if r < 0.6:
        return ["T", [rng.choice([1, 2, 3, 4]) for _ in range(rng.choice([0, 1, 1, 2, 3]))], rng.choice(DTS)]
    if r < 0.8:
        return ["S", rng.choice(["pyInt", "pyFloat", "pyBool"])]
    if allow_odd and r < 0.9:
        return ["STR"]
    if allow_odd:
        return ["NP", [rng.choice([1, 2, 3]) for _ in range(rng.choice([1, 2]))], rng.choice(["f32", "f64", "i64", "u8"])]
    return ["T", [2], "f32"]


def gen_item(rng, depth=0):
    r = rng.random()
    if depth == 0:
        if r < 0.45:   # the documented case: flat tuple / list of tensors and scalars
            return ["TUP", [gen_leaf(rng, False) for _ in range(rng.randint(0, 4))], rng.choice(["tuple", "list"])]
        if r < 0.55:
            return ["TUP", [gen_leaf(rng, True) for _ in range(rng.randint(1, 4))], rng.choice(["tuple", "list"])]
        if r < 0.7:    # bare tensor / scalar item
            return gen_leaf(rng, False)
        if r < 0.85:
            return ["DICT", [[k, gen_item(rng, 1)] for k in rng.sample(["x", "y", "z", "w"], rng.randint(1, 3))]]
        return ["TUP", [gen_item(rng, 1) for _ in range(rng.randint(1, 3))], "tuple"]
    if r < 0.7 or depth >= 2:
        return gen_leaf(rng, False)
    if r < 0.85:
        return ["TUP", [gen_item(rng, depth + 1) for _ in range(rng.randint(1, 3))], "tuple"]
    return ["DICT", [[k, gen_item(rng, depth + 1)] for k in rng.sample(["a", "b", "c"], rng.randint(1, 2))]]


# --------------------------------------------------------------------------- correspondence: samplers
def lists_str(ls):
    return str(len(ls)) + "".join(f" {len(l)}" + "".join(f" {i}" for i in l) for l in ls)


def sampler_correspondence(ctx, cases, vlen):
    lines, index = [], []
    runs = []
    for ci, c in enumerate(cases):
        r = R.run_sampler(c)
        runs.append(r)
        q32 = f2h(R.f32(r["sampler_q"]))
        for e, (got, draws) in enumerate(zip(r["epochs"], r["draws"])):
            flat = " ".join(f2h(v) for d in draws for v in d)
            if c["mode"] == "sampler" and c.get("steps") is not None:
                lines.append(f"epoch {c['steps']} {q32} {c['N']} {len(draws)} {flat}")
            else:
                lines.append(f"epochq {f2h(r['sampler_q'])} {q32} {c['N']} {len(draws)} {flat}")
            index.append((ci, e))
    reps = ctx.lean_driver("C09", lines)
    ok = [True] * len(cases)
    modelout = {}
    for (ci, e), rep in zip(index, reps):
        want = lists_str(runs[ci]["epochs"][e])
        modelout.setdefault(ci, []).append(rep[:300])
        if rep.strip() != want.strip():
            ok[ci] = False
    for ci, (c, r) in enumerate(zip(cases, runs)):
        allb = [b for ep in r["epochs"] for b in ep]
        nontriv = any(allb) and (any(len(b) == 0 for b in allb) or len({tuple(b) for b in allb}) >= 2)
        ctx.case((c["mode"], c["N"], f2h(r["sampler_q"]), c["seed"]), nontrivial=nontriv, sample=c, kind="sampler:" + c["mode"])
        ctx.count("sampler:batches", len(allb))
        ctx.count("sampler:empty-batches", sum(1 for b in allb if not b))
        if ok[ci]:
            ctx.validated()
        else:
            ctx.mismatch("uniform_sampler", c, {"epochs": r["epochs"], "len": r["len"], "q": r["sampler_q"]}, modelout[ci], oracle=sampler_oracle)


def sampler_oracle(case):
    """Property on the real sampler, no model: exactly len(sampler) batches per epoch, each batch
    ascending / duplicate-free / in range, and i in batch b iff the reproduced draw u[b][i] < q."""
    r = R.run_sampler(case)
    q32 = R.f32(r["sampler_q"])
    for e, (got, draws) in enumerate(zip(r["epochs"], r["draws"])):
        if len(got) != r["len"]:
            return ("C09:sampler:epoch-length", f"{case}: epoch {e} delivered {len(got)} batches, len(sampler)={r['len']}", {})
        for b, (idx, u) in enumerate(zip(got, draws)):
            want = [i for i, v in enumerate(u) if v < q32]
            if idx != want:
                kind = "not-wellformed" if (sorted(set(idx)) != idx or any(i < 0 or i >= case["N"] for i in idx)) else "inclusion-law"
                return (f"C09:sampler:{kind}", f"{case}: epoch {e} batch {b} is {idx}; the positions with u < q are {want}", {"u": u, "q": q32})
    return None


def large_sampler_oracle(case):
    """the inclusion law on datasets far larger than the correspondence uses (around 2^16, 2^20, 2^21 – sizes at which an
    implementation that draws its uniforms in pieces would start to differ): i is in batch b iff the reproduced u[b][i] < q,
    for EVERY position up to the last one.  Real sampler against the statement's definition, no model."""
    from opacus.utils.uniform_sampler import DistributedUniformWithReplacementSampler, UniformWithReplacementSampler
    N, seed, q, steps = case["N"], case["seed"], case["q"], case["steps"]
    g = torch.Generator().manual_seed(seed)
    clone = torch.Generator()
    if case["oracle"] == "large-sampler-dist":
        smp = DistributedUniformWithReplacementSampler(total_size=N, sample_rate=q, shuffle=False, generator=g, steps=steps)
        clone.set_state(g.get_state())
        base = torch.arange(smp.rank, N, smp.num_replicas)
        n_local = len(base)
    else:
        smp = UniformWithReplacementSampler(num_samples=N, sample_rate=q, generator=g, steps=steps)
        clone.set_state(g.get_state())
        base, n_local = None, N
    got = [list(b) for b in smp]
    if len(got) != steps:
        return (f"C09:sampler:epoch-length:N={N}", f"{case}: delivered {len(got)} batches for steps={steps}", {})
    for b, idx in enumerate(got):
        pos = (torch.rand(n_local, generator=clone) < q).nonzero(as_tuple=False).reshape(-1)
        want = (pos if base is None else base[pos]).tolist()
        if idx != want:
            missing = sorted(set(want) - set(idx))[:5]
            extra = sorted(set(idx) - set(want))[:5]
            return ("C09:sampler:inclusion-law:large-dataset", f"{case}: batch {b} has {len(idx)} indices, the positions with u < q are {len(want)}; "
                    f"first missing {missing}, first unexpected {extra} (largest delivered index {max(idx) if idx else None}, N-1 = {N - 1})", {})
    return None


def dist_correspondence(ctx, cases, variant):
    lines, index, runs = [], [], []
    for ci, c in enumerate(cases):
        res = R.run_dist(c)
        runs.append(res)
        q32 = f2h(R.f32(c["q"]))
        for r in res:
            flat = " ".join(f2h(v) for d in r["draws"] for v in d)
            perm = " ".join(map(str, r["perm"]))
            lines.append(f"dist {variant} {r['len']} {q32} {c['W']} {r['rank']} {len(r['perm'])} {perm} {len(r['draws'])} {flat}")
            index.append((ci, r["rank"]))
    nl = len(lines)
    sidx = [ci for ci, c in enumerate(cases) if c.get("steps") is None]
    lines += [f"stepsq {f2h(cases[ci]['q'])}" for ci in sidx]
    reps = ctx.lean_driver("C09", lines)
    ok = [True] * len(cases)
    mo = {}
    for ci, rep in zip(sidx, reps[nl:]):
        if any(r["len"] != int(rep) for r in runs[ci]):
            ok[ci] = False
            mo.setdefault(ci, []).append("steps " + rep)
    for (ci, rank), rep in zip(index, reps[:nl]):
        r = runs[ci][rank]
        want = f"{r['num_samples']} {r['num_samples']} " + lists_str(r["got"])
        mo.setdefault(ci, []).append(rep[:300])
        if rep.strip() != want.strip():
            ok[ci] = False
    for ci, (c, res) in enumerate(zip(cases, runs)):
        nontriv = c["W"] >= 2 and any(any(b for b in r["got"]) for r in res)
        ctx.case(("dist", c["N"], c["W"], f2h(c["q"]), c["seed"], c["shuffle"], c["epoch"]), nontrivial=nontriv, sample=c, kind=f"dist:W={c['W']}")
        if ok[ci]:
            ctx.validated()
        else:
            ctx.mismatch("distributed_sampler", c, [{"rank": r["rank"], "got": r["got"], "num_samples": r["num_samples"]} for r in res], mo[ci], oracle=R.dist_oracle)


# --------------------------------------------------------------------------- correspondence: collate
def collate_correspondence(ctx, specs, variants):
    lines = []
    for s in specs:
        v = variants.get(R.item_class(s), "asCoded")
        lines.append(f"collate {v} {R.item_line(s)}")
    reps = ctx.lean_driver("C09", lines)
    for s, rep in zip(specs, reps):
        got, _ = R.real_empty_collate(s)
        cls = R.item_class(s)
        ctx.case(R.item_line(s), nontrivial=True, sample=s, kind="collate:" + cls)
        if got.strip() == rep.strip():
            ctx.validated()
        else:
            ctx.mismatch("empty_collate", {"item": s}, got, rep, oracle=R.collate_oracle)


# --------------------------------------------------------------------------- correspondence: rates
def rate_correspondence(ctx, vlen):
    top = ctx.n(2000, 2000)
    lines = [f"rate {vlen} {L}" for L in range(1, top + 1)]
    reps = ctx.lean_driver("C09", lines)
    for L, rep in zip(range(1, top + 1), reps):
        f = R.loader_facts(L, 1)
        lm, qs, qa, lt = rep.split()
        impl = (f["len_dp"], f2h(f["sampler_q"]), f2h(1 / f["len_dp"]))
        ctx.case(("rate", L), nontrivial=L >= 2, kind="rate:loader")
        if impl == (int(lm), qs, qa) and f["loader_q"] == f["sampler_q"]:
            ctx.validated()
        else:
            ctx.mismatch("loader_rate", {"N": L, "bs": 1}, impl, rep, oracle=R.rate_oracle)
    # engine level: accountant rate and expected_batch_size
    rng = ctx.rng
    ecases = [(L, 1) for L in ([1, 2, 49, 93, 98, 99] + rng.sample(range(3, 2001), ctx.n(60, 1500)))]
    for _ in range(ctx.n(120, 1500)):
        bs = rng.randint(1, 40)
        N = rng.randint(bs, 60 * bs)
        ecases.append((N, bs))
    ecases += [(98, 2), (49, 1), (98, 1), (186, 2)]
    # a fifth of the cases reuse an engine that was first made private on ANOTHER dataset
    priors = [((rng.randint(5, 400), rng.randint(1, 7)) if k % 5 == 4 else None) for k in range(len(ecases))]
    facts = [R.engine_facts(N, bs, prior=pr) for (N, bs), pr in zip(ecases, priors)]
    lines = []
    for f in facts:
        lines.append(f"rate {vlen} {f['L']}")
        lines.append(f"ebs {vlen} {f['N']} {f['L']} 1")
    reps = ctx.lean_driver("C09", lines)
    for k, ((N, bs), f) in enumerate(zip(ecases, facts)):
        lm, qs, qa, lt = reps[2 * k].split()
        em = int(reps[2 * k + 1].split()[0])
        impl = (f["len_dp"], f2h(f["sampler_q"]), f2h(f["acc_q"]), f["ebs"])
        ctx.case(("engine", N, bs), nontrivial=f["L"] >= 2, sample={"N": N, "bs": bs}, kind="rate:engine")
        if f["ebs"] != N // f["L"]:
            ctx.count("rate:ebs-below-floor")
        if f["len_dp"] != f["L"]:
            ctx.count("rate:len-truncated")
        if impl == (int(lm), qs, qa, em) and isinstance(f["ebs"], int):
            ctx.validated()
        else:
            ctx.mismatch("engine_rate", {"N": N, "bs": bs, "prior": priors[k]}, impl, [reps[2 * k], reps[2 * k + 1]], oracle=R.rate_oracle)


# --------------------------------------------------------------------------- variants
def detect_variants(ctx):
    v = {}
    l93 = R.loader_facts(93, 1)["len_dp"]
    v["len"] = "asCoded" if l93 == 92 else "repaired"
    # distributed: three local batches that are certainly empty
    res = R.run_dist({"N": 8, "W": 2, "q": 1e-30, "steps": 3, "shuffle": False, "shuffle_seed": 0, "epoch": 0, "seed": 1})
    v["dist-empty"] = "asCoded" if len(res[0]["got"]) == 0 else "repaired"
    wit = {
        "bare-tensor-item": ["T", [5, 3], "f32"],
        "dict-item": ["DICT", [["x", ["T", [3], "f32"]], ["y", ["T", [], "i64"]]]],
        "nested-item": ["TUP", [["T", [3], "f32"], ["TUP", [["T", [2], "f32"], ["T", [], "i64"]], "tuple"]], "tuple"],
        "str-element": ["TUP", [["T", [3], "f32"], ["STR"]], "tuple"],
        "ndarray-element": ["TUP", [["NP", [3], "f32"], ["S", "pyInt"]], "tuple"],
        "scalar-item": ["S", "pyInt"],
    }
    cv = {}
    for cls, spec in wit.items():
        cv[cls] = "asCoded" if R.collate_oracle({"item": spec}) else "repaired"
    v["collate"] = cv
    for k, val in v.items():
        ctx.variant[k] = val
    ctx.log("variants implemented by this tree:", v)
    return v, wit


def report(ctx, res, case):
    if res:
        ctx.property_failure(res[0], res[1], dict(res[2], failing_input=case))
    return res


def regenerate(ctx):
    from .. import regen
    from . import c09_trans as T
    regen.regenerate(ctx, T, "Opacus.Generated.Sampler", "utils/uniform_sampler.py")
    from . import c09_iter_trans as TI
    regen.regenerate(ctx, TI, "Opacus.Generated.SamplerIter", "__iter__ of both Poisson samplers (utils/uniform_sampler.py)")
    from . import c08_trans as T8
    regen.regenerate(ctx, T8, "Opacus.Generated.Float", "float bookkeeping (privacy_engine.py, accountants/utils.py, utils/uniform_sampler.py)")


def run(ctx):
    regenerate(ctx)
    rng = ctx.rng
    v, wit = detect_variants(ctx)

    # 1. single-process sampler, three observation levels
    cases = [gen_sampler_case(rng) for _ in range(ctx.n(200, 3000))]
    cases += [gen_sampler_case(rng, big=True) for _ in range(ctx.n(10, 100))]
    sampler_correspondence(ctx, cases, v["len"])

    # 2. distributed sampler, W <= 4, patched rank/world
    dcases = [gen_dist_case(rng) for _ in range(ctx.n(120, 2000))]
    dist_correspondence(ctx, dcases, v["dist-empty"])

    # 3. empty-batch collate
    specs = list(wit.values()) + [gen_item(rng) for _ in range(ctx.n(150, 2500))]
    seen, uniq = set(), []
    for s in specs:
        k = R.item_line(s) + str(s)
        if k not in seen:
            seen.add(k)
            uniq.append(s)
    collate_correspondence(ctx, uniq, v["collate"])

    # 4. rates, epoch length, expected batch size: binary64 model vs the real loader / engine
    rate_correspondence(ctx, v["len"])

    # 5. Lean counterexample witnesses replayed on the real code (property oracles, no model)
    for case in ({"N": 93, "bs": 1}, {"N": 98, "bs": 2}):
        ctx.count("witness-replay")
        report(ctx, R.rate_oracle(case), case)
    wd = {"N": 8, "W": 2, "q": 1e-30, "steps": 3, "shuffle": False, "shuffle_seed": 0, "epoch": 0, "seed": 1}
    report(ctx, R.dist_oracle(wd), wd)
    for cls, spec in wit.items():
        ctx.count("witness-replay")
        report(ctx, R.collate_oracle({"item": spec}), {"item": spec})
    cc = {"item": ["TUP", [["T", [3], "f32"], ["T", [], "f32"]], "tuple"], "collate": "cast64"}
    report(ctx, R.collate_oracle(cc), cc)

    # 6. failing-input search with the property oracles
    for _ in range(ctx.n(60, 1000)):
        c = gen_sampler_case(rng)
        ctx.count("search:sampler")
        report(ctx, sampler_oracle(c), c)
    # every run: the inclusion law on large datasets (just above 2^16, 2^20, 2^21 and one random size), both samplers
    for i, N in enumerate([(1 << 16) + 1 + rng.randrange(500), (1 << 20) + 1 + rng.randrange(5000), (1 << 21) + 1 + rng.randrange(5000), rng.randrange(1 << 18, 3 << 20)][: ctx.n(4, 4)]):
        c = {"oracle": "large-sampler", "N": N, "seed": rng.randrange(2**31), "q": 400.0 / N, "steps": 2}
        ctx.count("search:sampler:large-dataset")
        report(ctx, large_sampler_oracle(c), c)
    for _ in range(ctx.n(60, 1000)):
        c = gen_dist_case(rng)
        ctx.count("search:dist")
        report(ctx, R.dist_oracle(c), c)
    for _ in range(ctx.n(12, 200)):
        W = rng.randint(2, 4)
        c = {"oracle": "loader-dist", "N": rng.randint(W, 40), "W": W, "seed": rng.randrange(1 << 30)}
        ctx.count("search:loader-dist")
        report(ctx, R.loader_dist_oracle(c), c)
    for _ in range(ctx.n(12, 200)):
        c = {"oracle": "live-iterators", "N": rng.randint(5, 60), "q": rng.choice([0.1, 0.2, 0.25, 0.05]), "seed": rng.randrange(1 << 30), "before": rng.randint(0, 6), "peek": rng.randint(1, 25)}
        ctx.count("search:live-iterators")
        report(ctx, R.live_iterators_oracle(c), c)
    for _ in range(ctx.n(80, 1500)):
        s = gen_item(rng)
        ctx.count("search:collate")
        report(ctx, R.collate_oracle({"item": s}), {"item": s})
    for _ in range(ctx.n(60, 1500)):
        bs = rng.randint(1, 30)
        c = {"N": rng.randint(bs, 80 * bs), "bs": bs}
        ctx.count("search:rate")
        report(ctx, R.rate_oracle(c), c)


def replay(ctx, rp):
    c = rp.get("failing_input") or rp.get("case")
    if str(c.get("oracle", "")).startswith("large-sampler"):
        res = large_sampler_oracle(c)
    elif c.get("oracle") == "loader-dist":
        res = R.loader_dist_oracle(c)
    elif c.get("oracle") == "live-iterators":
        res = R.live_iterators_oracle(c)
    elif "item" in c:
        res = R.collate_oracle(c)
    elif "W" in c:
        res = R.dist_oracle(c)
    elif "mode" in c:
        res = sampler_oracle(c)
    else:
        res = R.rate_oracle(c)
    if res:
        print("REPRODUCED:", res[0], res[1])
        ctx.violations.append(res[0])
    else:
        print("not reproduced on this tree")
