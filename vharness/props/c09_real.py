"""C09 helpers that drive the *real* Opacus samplers, DPDataLoader, collate wrapper and engine."""
from __future__ import annotations

import collections
import contextlib
import struct
import warnings

import numpy as np
import torch
import torch.nn as nn
from torch.utils.data import DataLoader, Dataset, TensorDataset

from .. import core
from ..core import f2h

warnings.filterwarnings("ignore")


def f32(x: float) -> float:
    """the threshold torch actually compares float32 draws with: sample_rate rounded to float32"""
    return float(np.float32(x))


def clone_gen(g):
    g2 = torch.Generator()
    g2.set_state(g.get_state())
    return g2


class IndexData(Dataset):
    """item i = (float tensor [i, i+0.5], int64 i): delivered batches reveal their indices"""

    def __init__(self, n):
        self.n = n

    def __len__(self):
        return self.n

    def __getitem__(self, i):
        return torch.tensor([float(i), i + 0.5]), torch.tensor(int(i))


class ConstData(Dataset):
    def __init__(self, item, n=4):
        self.item, self.n = item, n

    def __len__(self):
        return self.n

    def __getitem__(self, i):
        return self.item


# --------------------------------------------------------------------------- single-process sampler
def run_sampler(case):
    """Real UniformWithReplacementSampler / DPDataLoader for one case.  Returns the index lists of
    `epochs` consecutive epochs, the uniform draws reproduced from a clone of the generator, and
    the facts (sample_rate, len)."""
    from opacus.data_loader import DPDataLoader
    from opacus.utils.uniform_sampler import UniformWithReplacementSampler

    N, seed, mode = case["N"], case["seed"], case["mode"]
    g = torch.Generator().manual_seed(seed)
    if mode == "sampler":
        kw = {}
        if case.get("steps") is not None:
            kw["steps"] = case["steps"]
        s = UniformWithReplacementSampler(num_samples=N, sample_rate=case["q"], generator=g, **kw)
        q, it, dl = s.sample_rate, s, None
    else:
        dl = DPDataLoader.from_data_loader(DataLoader(IndexData(N), batch_size=case["bs"]), generator=g)
        s, q = dl.batch_sampler, dl.sample_rate
        it = s if mode == "loader-sampler" else dl
    g2 = clone_gen(g)
    epochs, draws = [], []
    for _ in range(case.get("epochs", 1)):
        if mode == "loader":
            got = []
            for x, y in it:
                assert x.shape[0] == y.shape[0] and x.dtype == torch.float32 and y.dtype == torch.int64 and tuple(x.shape[1:]) == (2,)
                got.append([int(v) for v in y.tolist()])
            torch.empty((), dtype=torch.int64).random_(generator=g2)   # the DataLoader iterator's base seed
        else:
            got = [[int(v) for v in b] for b in it]
        epochs.append(got)
        # reproduce the draws of this epoch from the cloned generator: as many as the sampler announces, at least as many as delivered
        k = max(len(s), len(got))
        draws.append([torch.rand(N, generator=g2).to(torch.float64).tolist() for _ in range(k)])
    return {"epochs": epochs, "draws": draws, "q": float(q), "len": len(s), "sampler_q": float(s.sample_rate)}


# --------------------------------------------------------------------------- distributed sampler
@contextlib.contextmanager
def fake_dist(world, rank):
    import torch.distributed as D
    ow, orank = D.get_world_size, D.get_rank
    D.get_world_size = lambda *a, **k: world
    D.get_rank = lambda *a, **k: rank
    try:
        yield
    finally:
        D.get_world_size, D.get_rank = ow, orank


def run_dist(case):
    """Real DistributedUniformWithReplacementSampler on every rank of a patched world."""
    from opacus.utils.uniform_sampler import DistributedUniformWithReplacementSampler

    N, W = case["N"], case["W"]
    out = []
    for rank in range(W):
        g = torch.Generator().manual_seed(case["seed"] + 1000 * rank)
        with fake_dist(W, rank):
            kw = {}
            if case.get("steps") is not None:
                kw["steps"] = case["steps"]
            s = DistributedUniformWithReplacementSampler(
                total_size=N, sample_rate=case["q"], shuffle=case["shuffle"], shuffle_seed=case["shuffle_seed"], generator=g, **kw
            )
        s.set_epoch(case["epoch"])
        g2 = clone_gen(g)
        got = [[int(v) for v in b.tolist()] for b in s]
        if case["shuffle"]:
            pg = torch.Generator().manual_seed(case["shuffle_seed"] + case["epoch"])
            perm = torch.randperm(N, generator=pg).tolist()
        else:
            perm = list(range(N))
        ns = int(s.num_samples)
        draws = [torch.rand(ns, generator=g2).to(torch.float64).tolist() for _ in range(len(s))]
        out.append({"rank": rank, "got": got, "perm": perm, "num_samples": ns, "draws": draws, "len": len(s)})
    return out


def dist_oracle(case):
    """Property on the real distributed sampler: every rank delivers exactly len(sampler) local
    batches per epoch (empty ones included); with sample_rate >= 1 the local batches are the shards:
    pairwise disjoint, covering range(N), of the balanced sizes."""
    res = run_dist(case)
    for r in res:
        if len(r["got"]) != r["len"]:
            return ("C09:distributed:empty-local-batch-dropped",
                    f"DistributedUniformWithReplacementSampler(total_size={case['N']}, sample_rate={case['q']}, steps={case.get('steps')}) on rank {r['rank']}/{case['W']} "
                    f"yielded {len(r['got'])} batches for len(sampler)={r['len']} (empty local batches are skipped)", {"rank": r["rank"]})
        for b in r["got"]:
            if len(set(b)) != len(b) or any(i < 0 or i >= case["N"] for i in b):
                return ("C09:distributed:batch-malformed", f"rank {r['rank']} batch {b}", {})
    if case["q"] >= 1.0:
        shards = [sorted(r["got"][0]) if r["got"] else [] for r in res]
        allidx = sorted(i for s in shards for i in s)
        if allidx != list(range(case["N"])):
            return ("C09:distributed:shards-not-a-partition", f"N={case['N']} W={case['W']}: union of shards = {allidx[:20]}…", {"shards": shards})
        for r, s in zip(res, shards):
            want = case["N"] // case["W"] + (1 if r["rank"] < case["N"] % case["W"] else 0)
            if len(s) != want:
                return ("C09:distributed:shard-size", f"rank {r['rank']} shard size {len(s)} != {want}", {})
    return None


# --------------------------------------------------------------------------- collate
DT_NAMES = {
    torch.float16: "f16", torch.float32: "f32", torch.float64: "f64", torch.int8: "i8", torch.int16: "i16",
    torch.int32: "i32", torch.int64: "i64", torch.uint8: "u8", torch.bool: "bool",
}
NP_NAMES = {"float16": "f16", "float32": "f32", "float64": "f64", "int8": "i8", "int16": "i16", "int32": "i32", "int64": "i64", "uint8": "u8", "bool": "bool"}
TORCH_OF = {v: k for k, v in DT_NAMES.items()}


def build_item(spec):
    """spec (JSON-able) -> Python object.  spec grammar mirrors the Lean `Item`."""
    k = spec[0]
    if k == "T":
        return torch.zeros(tuple(spec[1]), dtype=TORCH_OF[spec[2]])
    if k == "NP":
        return np.zeros(tuple(spec[1]), dtype={v: kk for kk, v in NP_NAMES.items()}[spec[2]])
    if k == "S":
        return {"pyInt": 3, "pyFloat": 2.5, "pyBool": True}[spec[1]]
    if k == "STR":
        return "abc"
    if k == "TUP":
        xs = [build_item(x) for x in spec[1]]
        return tuple(xs) if spec[2] == "tuple" else xs
    if k == "DICT":
        return {key: build_item(v) for key, v in spec[1]}
    raise ValueError(k)


def item_line(spec):
    k = spec[0]
    if k in ("T", "NP"):
        return f"{k} {len(spec[1])} " + "".join(f"{d} " for d in spec[1]) + spec[2]
    if k == "S":
        return f"S {spec[1]}"
    if k == "STR":
        return "STR"
    if k == "TUP":
        return f"TUP {len(spec[1])}" + "".join(" " + item_line(x) for x in spec[1])
    if k == "DICT":
        return f"DICT {len(spec[1])}" + "".join(f" {key} " + item_line(v) for key, v in spec[1])
    raise ValueError(k)


def item_class(spec):
    """which manifestation of finding D20 (if any) an item structure belongs to"""
    k = spec[0]
    if k == "T":
        return "scalar-item" if len(spec[1]) == 0 else "bare-tensor-item"
    if k == "NP":
        return "scalar-item" if len(spec[1]) == 0 else "ndarray-element"
    if k == "S":
        return "scalar-item"
    if k == "DICT":
        return "dict-item"
    if k == "STR":
        return "str-element"
    kinds = {x[0] for x in spec[1]}
    if kinds & {"TUP", "DICT"}:
        return "nested-item"
    if "STR" in kinds:
        return "str-element"
    if "NP" in kinds:
        return "ndarray-element"
    return "flat"


def describe(b):
    """canonical description of a collated batch, in the driver's grammar"""
    if isinstance(b, torch.Tensor):
        return f"T {b.dim()} " + "".join(f"{d} " for d in b.shape) + DT_NAMES.get(b.dtype, str(b.dtype))
    if isinstance(b, dict):
        return f"D {len(b)}" + "".join(f" {k} " + describe(v) for k, v in b.items())
    if isinstance(b, (list, tuple)):
        if all(isinstance(x, str) for x in b) and not isinstance(b, tuple) and len(b) == 0:
            return "L 0"
        return f"L {len(b)}" + "".join(" " + describe(x) for x in b)
    return "?" + type(b).__name__


def real_empty_collate(spec, collate="default"):
    from opacus.data_loader import DPDataLoader
    item = build_item(spec)
    kw = {}
    if collate == "cast64":
        from torch.utils.data._utils.collate import default_collate
        kw["collate_fn"] = cast64_collate
    try:
        dl = DPDataLoader.from_data_loader(DataLoader(ConstData(item), batch_size=2, **kw))
    except TypeError:
        return "err:init", None
    try:
        out = dl.collate_fn([])
    except TypeError:
        return "err:collate", dl
    return describe(out), dl


def cast64_collate(batch):
    from torch.utils.data._utils.collate import default_collate
    return [t.to(torch.float64) for t in default_collate(batch)]


def expected_empty(b):
    """the batch structure with the batch dimension set to zero"""
    if isinstance(b, torch.Tensor):
        return f"T {b.dim()} 0 " + "".join(f"{d} " for d in b.shape[1:]) + DT_NAMES.get(b.dtype, str(b.dtype))
    if isinstance(b, dict):
        return f"D {len(b)}" + "".join(f" {k} " + expected_empty(v) for k, v in b.items())
    if isinstance(b, (list, tuple)):
        if len(b) and all(isinstance(x, str) for x in b):
            return "L 0"
        return f"L {len(b)}" + "".join(" " + expected_empty(x) for x in b)
    return "?" + type(b).__name__


def collate_oracle(case):
    """Property on the real code: the empty batch has the structure, trailing shapes and dtypes of a
    non-empty batch produced by the loader's own collate function, with batch dimension 0."""
    spec, coll = case["item"], case.get("collate", "default")
    item = build_item(spec)
    plain = DataLoader(ConstData(item), batch_size=2, **({"collate_fn": cast64_collate} if coll == "cast64" else {}))
    want = expected_empty(plain.collate_fn([item, item]))
    got, _ = real_empty_collate(spec, coll)
    if got != want:
        cls = item_class(spec) if coll == "default" else "custom-collate-fn"
        return (f"C09:empty-collate:{cls}", f"DPDataLoader over items of structure `{item_line(spec)}` (collate={coll}): empty batch is `{got}`, a non-empty batch has the form `{want}`",
                {"empty": got, "expected": want})
    return None


# --------------------------------------------------------------------------- engine facts
def make_loader(N, bs):
    ds = TensorDataset(torch.zeros(N, 2), torch.zeros(N, dtype=torch.long))
    return DataLoader(ds, batch_size=bs)


def loader_facts(N, bs):
    from opacus.data_loader import DPDataLoader
    dl = make_loader(N, bs)
    L = len(dl)
    dp = DPDataLoader.from_data_loader(dl)
    return {"L": L, "len_dp": len(dp), "sampler_q": float(dp.batch_sampler.sample_rate), "loader_q": float(dp.sample_rate)}


def engine_facts(N, bs, world=None, prior=None):
    """make_private on a loader over N samples with batch size bs: len(dp_loader), the rate handed
    to the accountant (observed from one accounted step), expected_batch_size.  `prior=(N0, bs0)`:
    the SAME engine has first been used for a make_private on another dataset (engine reuse is legal:
    cross-validation folds, a second model on one ledger) – the facts must be those of the current call."""
    from opacus import PrivacyEngine
    pe = PrivacyEngine()
    if prior is not None:
        m0 = nn.Linear(2, 2)
        pe.make_private(module=m0, optimizer=torch.optim.SGD(m0.parameters(), lr=0.0), data_loader=make_loader(*prior), noise_multiplier=1.0, max_grad_norm=1.0)
    dl = make_loader(N, bs)
    L = len(dl)
    m = nn.Linear(2, 2)
    opt = torch.optim.SGD(m.parameters(), lr=0.0)
    m2, o2, dp = pe.make_private(module=m, optimizer=opt, data_loader=dl, noise_multiplier=1.0, max_grad_norm=1.0)
    for p in m2.parameters():
        p.grad_sample = torch.zeros(1, *p.shape)
    o2.step_hook(o2)
    return {"L": L, "N": N, "len_dp": len(dp), "sampler_q": float(dp.batch_sampler.sample_rate), "acc_q": float(pe.accountant.history[-1][1]),
            "ebs": o2.expected_batch_size, "loader_q": float(dp.sample_rate)}


def rate_oracle(case):
    """Property on the real engine: the probability the sampler uses is the rate handed to the
    accountant, an epoch has len(original loader) batches, and expected_batch_size is the integer part
    of q*N with q = 1/len(original loader) (exact rational arithmetic)."""
    e = engine_facts(case["N"], case["bs"], prior=tuple(case["prior"]) if case.get("prior") else None)
    L, N = e["L"], e["N"]
    d14 = e["len_dp"] == int(1 / (1 / L)) and e["sampler_q"] == 1 / L and e["acc_q"] == 1 / e["len_dp"]
    if (e["len_dp"] != L or e["acc_q"] != e["sampler_q"]) and not d14:
        # finding D14 has an exact signature (len(dp_loader) = int(1/(1/L)), sampler 1/L, accountant 1/len(dp_loader))
        return ("C09:rate:inconsistent",
                f"N={N}, batch_size={case['bs']}: len(loader)={L}, len(dp_loader)={e['len_dp']}; sampler includes with q={e['sampler_q']!r}, accountant is told q={e['acc_q']!r}", {"facts": e})
    if e["len_dp"] != L or e["acc_q"] != e["sampler_q"]:
        return ("C09:rate:accounted-rate-differs-from-sampler-rate",
                f"N={N}, batch_size={case['bs']}: len(loader)={L} but len(dp_loader)={e['len_dp']}; sampler includes with q={e['sampler_q']!r}, accountant is told q={e['acc_q']!r}", {"facts": e})
    if e["ebs"] != N // L and e["ebs"] != int(N * (1 / e["len_dp"])):
        # not the binary64 truncation of finding D12 (which has this exact signature): something else
        return ("C09:expected-batch-size:not-q-times-N",
                f"N={N}, len(loader)={L}" + (f", engine first used on a dataset of {case['prior'][0]} samples" if case.get("prior") else "")
                + f": expected_batch_size={e['ebs']}, the integer part of q*N is {N // L}", {"facts": e})
    if e["ebs"] != N // L:
        return ("C09:expected-batch-size:float-truncation",
                f"N={N}, len(loader)={L}: expected_batch_size={e['ebs']} but the integer part of N*(1/L) is {N // L}", {"facts": e})
    return None


# --------------------------------------------------------------------------- loader-level distributed shards, live iterators
def loader_dist_oracle(case):
    """Property on the real DPDataLoader(distributed=True): with sample_rate >= 1 every rank's (only) batch is its shard; the
    shards of the W ranks are pairwise disjoint and cover the dataset WHATEVER generator each rank brings (ranks commonly seed
    their generators with base + rank)."""
    from opacus.data_loader import DPDataLoader

    N, W = case["N"], case["W"]
    ds = torch.utils.data.TensorDataset(torch.arange(N))
    shards = []
    for rank in range(W):
        g = torch.Generator().manual_seed(case["seed"] + (rank if case.get("per_rank_seed", True) else 0))
        with fake_dist(W, rank):
            dl = DPDataLoader(ds, sample_rate=1.0, distributed=True, generator=g)
            first = next(iter(dl))[0]
        shards.append(sorted(int(v) for v in first.tolist()))
    allidx = sorted(i for s in shards for i in s)
    if allidx != list(range(N)):
        dup = sorted({i for i in allidx if allidx.count(i) > 1})
        missing = sorted(set(range(N)) - set(allidx))
        return ("C09:distributed:loader-shards-not-a-partition", f"DPDataLoader(distributed=True, sample_rate=1) on {W} ranks with generators seeded {case['seed']} + rank, N={N}: "
                f"indices {dup[:8]} are in several shards, {missing[:8]} in none", {"shards": shards})
    return None


def live_iterators_oracle(case):
    """Property on the real sampler: an epoch has len(sampler) batches – also when another iterator over the same sampler
    (a peek at a batch, an evaluation pass over the private loader) is opened while the epoch is running."""
    from opacus.utils.uniform_sampler import UniformWithReplacementSampler

    s = UniformWithReplacementSampler(num_samples=case["N"], sample_rate=case["q"], generator=torch.Generator().manual_seed(case["seed"]))
    L = len(s)
    it = iter(s)
    got = 0
    for _ in range(min(case["before"], L)):
        next(it)
        got += 1
    other = iter(s)
    for _ in range(case["peek"]):
        try:
            next(other)
        except StopIteration:
            break
    for _ in it:
        got += 1
    if got != L:
        return ("C09:epoch-length:second-iterator", f"UniformWithReplacementSampler(num_samples={case['N']}, sample_rate={case['q']}): len = {L}; an epoch interrupted after {case['before']} "
                f"batches by {case['peek']} batch(es) drawn through a second iterator delivered {got} batches", {"delivered": got, "len": L})
    return None
