"""C14 — DPMultiheadAttention computes the same function as nn.MultiheadAttention.

Obligations (Lean, unbounded in E, h | E, L, S, B, kdim, vdim, masks, for every scalar ring and every
choice of softmax / -inf / scaling): the model of `DPMultiheadAttention.forward` — projections,
scaling, batch_first transposes, `view(L, B*h, d).transpose(0, 1)` as a flat-index map, mask checks /
padding / broadcasting, bmm, head merge, output projection, head-averaged weights — equals the
per-batch-element, per-head specification for batch_first=False and for the repaired batch_first
merge; counterexamples for the as-coded batch_first merge (h = 2) and mask check; the
state_dict translation round-trips.

Correspondence: the `Float` instance of the same definitions (driver C14) against the real layers:
model ≡ `DPMultiheadAttention` (output, averaged weights, pre-softmax scores, error kind) and
spec ≡ `torch.nn.MultiheadAttention`; tolerance 1e-9, and bit-for-bit for the pre-softmax scores on
small-integer tensors with a power-of-two scaling.

Search: the property oracle on the real code (no model): DP layer loaded from the torch layer's
state_dict vs the torch layer — output, averaged weights, parameter (and input) gradients, and
the state_dict loading back into a fresh torch layer unchanged.
"""
from __future__ import annotations

import copy
import itertools

import torch

from .. import core, rig  # noqa: F401  (rig: thread limit, warnings filter)
from . import c14_rig as R

PID = "C14"
MODULES = ["OpacusLean.Props.C14"]
THEOREMS = [
    "Opacus.C14.head_split_merge_roundtrip",
    "Opacus.C14.mha_refines_spec_seq_first",
    "Opacus.C14.mha_refines_spec_batch_first_repaired",
    "Opacus.C14.avg_weights_eq",
    "Opacus.C14.mergeHeadsBFCoded_apply",
    "Opacus.C14.batch_first_merge_single_head_partial",
    "Opacus.C14.batch_first_merge_single_target_partial",
    "Opacus.C14.batch_first_single_head_partial",
    "Opacus.C14.batch_first_mask_square_partial",
    "Opacus.C14.mask_shape_rejected",
    "Opacus.C14.batch_first_merge_counterexample",
    "Opacus.C14.batch_first_mask_rejected_counterexample",
    "Opacus.C14.kpm_float_rejected_counterexample",
]
RULE = (
    "case = (num_heads h, head_dim d, bias, add_bias_kv, add_zero_attn, kdim, vdim, batch_first, L, S, B, attn_mask kind+shape, "
    "key_padding_mask kind+shape, tensor seed, integer?) drawn from VERIF_SEED; non-trivial iff the layer returns a result and the "
    "index plumbing matters (B*h > 1 and more than one key after padding) or the case exercises a mask check (error branch); "
    "distinct by that tuple without the seed"
)
TRUSTED = [
    "dropout = 0 (the dropout module is not modelled); softmax, -inf, scaling and division by num_heads are opaque scalar operations shared by model and specification",
    "parameter gradients: not modelled; equal functions of (parameters, inputs) have equal gradients under the autograd contract, and the gradients are compared on the real code by the search oracle",
]
PARTIAL = [
    "mask domain: boolean masks and additive masks of the layer's own floating dtype (torch happens to accept e.g. a float16 attn_mask next to a float64 key_padding_mask through type promotion; such mixed-dtype masks and the deprecated uint8 masks are compared model-vs-DP-layer only)",
    "batch_first=True as coded: head merge wrong for num_heads > 1 and L > 1, attn_mask accepted only if L = S = B (finding D7); proved for the repaired variant, counterexamples for asCoded",
]

KEY_MERGE = "C14:batch_first:head-merge"
KEY_MASK = "C14:batch_first:attn-mask-rejected"
KEY_KPM = "C14:key_padding_mask:float-rejected"
KEY_SQUEEZE = "C14:load_state_dict:bias_kv-squeeze:embed_dim=1"

NO_MASK = {"kind": "none"}
VALID_MASKS = ("none", "b2", "f2", "b3", "f3")
VALID_KPMS = ("none", "bool", "add")


# ----------------------------------------------------------------------------- generators
def _bool_rows(rng, shape, keep_col0, p=0.35):
    n = 1
    for s in shape:
        n *= s
    data = [rng.random() < p for _ in range(n)]
    if keep_col0:
        c = shape[-1]
        for i in range(0, n, c):
            data[i] = False
    return data


def _float_vals(rng, n, integer, keep_col0, cols):
    out = []
    for i in range(n):
        if integer:
            v = float(rng.randint(-2, 2))
        else:
            v = round(rng.gauss(0, 1), 6)
        if rng.random() < 0.08 and not (keep_col0 and i % cols == 0):
            v = float("-inf")
        out.append(v)
    return out


def gen_mask(rng, case, allow_invalid=True):
    h, L, S, B = case["h"], case["L"], case["S"], case["B"]
    integer = case.get("integer", False)
    keep0 = rng.random() < 0.95
    r = rng.random()
    if r < 0.25:
        return dict(NO_MASK)
    kind = rng.choice(["b2", "f2", "b3", "f3"])
    shape = [L, S] if kind.endswith("2") else [B * h, L, S]
    if allow_invalid and rng.random() < 0.22:
        what = rng.choice(["swap", "plus", "BB", "n", "bad", "other", "uint8", "one"])
        if what == "swap":
            shape = shape[:-2] + [S, L]
        elif what == "plus":
            shape = shape[:-1] + [S + 1]
        elif what == "BB":            # the shape the as-coded batch_first check asks for
            shape = shape[:-2] + [B, B]
        elif what == "one":
            shape = shape[:-2] + [1, 1]
        elif what == "n" and kind.endswith("3"):
            shape = [B] + shape[1:]
        elif what == "bad":
            n = shape[0] * shape[1] * (shape[2] if len(shape) > 2 else 1)
            return {"kind": "bad", "dtype": rng.choice(["int64", "float16", "int32"]), "shape": shape, "data": [0] * n}
        elif what == "other":
            shape = rng.choice([[S], [1, B * h, L, S]])
            n = 1
            for s in shape:
                n *= s
            return {"kind": "other", "shape": shape, "data": [0.0] * n}
        elif what == "uint8":
            kind = "u" + kind[1]
    n = 1
    for s in shape:
        n *= s
    if kind[0] in "bu":
        data = [int(x) for x in _bool_rows(rng, shape, keep0)]
        if kind[0] == "b":
            data = [bool(x) for x in data]
    else:
        data = _float_vals(rng, n, integer, keep0, shape[-1])
    return {"kind": kind, "shape": shape, "data": data}


def gen_kpm(rng, case, allow_invalid=True):
    S, B = case["S"], case["B"]
    integer = case.get("integer", False)
    r = rng.random()
    if r < 0.45:
        return dict(NO_MASK)
    shape = [B, S]
    if allow_invalid and rng.random() < 0.12:
        shape = rng.choice([[B, S + 1], [B + 1, S], [S, B]])
    kind = "bool" if r < 0.8 else ("add" if r < 0.94 else "ubool")
    keep0 = rng.random() < 0.95
    n = shape[0] * shape[1]
    if kind == "add":
        data = _float_vals(rng, n, integer, keep0, shape[1])
    else:
        data = [int(x) for x in _bool_rows(rng, shape, keep0)]
        if kind == "bool":
            data = [bool(x) for x in data]
    return {"kind": kind, "shape": shape, "data": data}


def gen_case(rng, integer=False, allow_invalid=True, small=False):
    h = rng.choice([1, 2, 2, 3, 4] if not small else [1, 2, 3])
    d = rng.choice([1, 4] if integer else [1, 2, 3, 4]) if not small else rng.choice([1, 2] if not integer else [1, 4])
    E = h * d
    c = {
        "h": h, "d": d, "bias": rng.random() < 0.6, "abkv": rng.random() < 0.4, "aza": rng.random() < 0.4,
        "kdim": rng.choice([None, None, E, 1, 2, 3, 5]), "vdim": rng.choice([None, None, E, 1, 2, 3, 5]),
        "bf": rng.random() < 0.5, "L": rng.randint(1, 4), "S": rng.randint(1, 4), "B": rng.randint(1, 3),
        "seed": rng.getrandbits(30), "integer": bool(integer),
    }
    if rng.random() < 0.12:      # the square shapes for which the as-coded batch_first mask check passes
        c["L"] = c["S"] = c["B"]
    c["mask"] = gen_mask(rng, c, allow_invalid)
    c["kpm"] = gen_kpm(rng, c, allow_invalid)
    return c


def case_key(c):
    return (c["h"], c["d"], c["bias"], c["abkv"], c["aza"], c["kdim"], c["vdim"], c["bf"], c["L"], c["S"], c["B"],
            c["mask"]["kind"], tuple(c["mask"].get("shape", ())), c["kpm"]["kind"], tuple(c["kpm"].get("shape", ())), c.get("integer", False))


# ----------------------------------------------------------------------------- property oracle (real code only)
def _maxdiff(a, b):
    a, b = a.detach().reshape(-1), b.detach().reshape(-1)
    if a.shape != b.shape:
        return float("inf")
    worst = 0.0
    for x, y in zip(a.tolist(), b.tolist()):
        if not core.close(x, y, 1e-9, 1e-10):
            worst = max(worst, abs(x - y) if (x == x and y == y) else float("inf"))
    return worst


def sig(c):
    return ("need_weights=False," if not c.get("nw", True) else "") + ("dropout=0.3/eval," if c.get("dropout") else "") + f"h={c['h']},bias={int(c['bias'])},bias_kv={int(c['abkv'])},zero_attn={int(c['aza'])},kdim={c['kdim']},vdim={c['vdim']},batch_first={int(c['bf'])},mask={c['mask']['kind']},kpm={c['kpm']['kind']}"


def oracle(case):
    """The property on the real code: DP layer loaded from the torch layer's state_dict must behave
    like the torch layer.  Returns None or (key, what, replay)."""
    if case["mask"]["kind"] not in VALID_MASKS or case["kpm"]["kind"] not in VALID_KPMS:
        return None                       # dtype outside the property's domain (bool / the layer's float dtype)
    t = R.make_tensors(case)
    tl = R.build_torch(case, t)
    sd0 = {k: v.detach().clone() for k, v in tl.state_dict().items()}
    try:
        dp = R.build_dp(case, tl.state_dict())
    except Exception as e:  # noqa: BLE001
        if case["abkv"] and case["h"] * case["d"] == 1 and "size mismatch for seq_bias_k.bias" in str(e):
            return (KEY_SQUEEZE, "embed_dim=1, add_bias_kv=True: load_state_dict squeezes bias_k (1,1,1) to a 0-dim tensor and then fails with a size mismatch", {})
        return (f"C14:load_state_dict:{type(e).__name__}", f"DPMultiheadAttention.load_state_dict(nn.MultiheadAttention.state_dict()) raises {type(e).__name__}: {str(e)[:160]} [{sig(case)}]", {})
    # state_dict loads back into the torch layer unchanged
    try:
        fresh = R.build_torch(case, {k: torch.zeros_like(v) for k, v in t.items()})
        fresh.load_state_dict(dp.state_dict())
        sd1 = fresh.state_dict()
        bad = [k for k in sd0 if k not in sd1 or sd0[k].shape != sd1[k].shape or not torch.equal(sd0[k], sd1[k])]
        if bad or set(sd1) != set(sd0):
            return ("C14:state_dict:roundtrip", f"state_dict() of the DP layer loaded into nn.MultiheadAttention changes {bad or sorted(set(sd1) ^ set(sd0))} [{sig(case)}]", {})
    except Exception as e:  # noqa: BLE001
        return (f"C14:state_dict:{type(e).__name__}", f"nn.MultiheadAttention.load_state_dict(dp.state_dict()) raises {type(e).__name__}: {str(e)[:160]} [{sig(case)}]", {})
    if not case.get("nw", True):
        # a query row with every key masked: torch's own two paths disagree there (NaN from the softmax path,
        # whatever the fused kernel does for need_weights=False) – no reference value, outside the property
        r0 = R.run_layer(tl, dict(case, nw=True), t, grads=False)
        if r0["status"] == "ok" and bool(torch.isnan(r0["out"]).any()):
            return None
    rt = R.run_layer(tl, case, t, grads=True)
    if rt["status"] != "ok":
        return None                       # torch rejects the input: outside the property's domain
    rd = R.run_layer(dp, case, t, grads=True)
    if rd["status"] != "ok":
        if case["bf"] and rd["status"] in ("err:mask-size2", "err:mask-size3"):
            key = KEY_MASK
        elif rd["status"] == "err:kpm-dtype" and case["kpm"]["kind"] == "add":
            key = KEY_KPM
        else:
            key = f"C14:dp-raises:{rd['status'][4:40]}"
        return (key, f"nn.MultiheadAttention accepts the input, DPMultiheadAttention raises {rd['message'][:150]} [{sig(case)}, L={case['L']} S={case['S']} B={case['B']}]",
                {"torch_out": R.flat(rt["out"])[:16]})
    if (rt["w"] is None) != (rd["w"] is None):
        return ("C14:weights-differ", f"need_weights={case.get('nw', True)}: attention weights returned by only one of the layers [{sig(case)}]", {})
    dw = _maxdiff(rt["w"], rd["w"]) if rt["w"] is not None else 0
    do = _maxdiff(rt["out"], rd["out"])
    if dw > 0:
        return ("C14:weights-differ", f"averaged attention weights differ by {dw:.3g} [{sig(case)}]", {"torch": R.flat(rt["w"])[:32], "dp": R.flat(rd["w"])[:32]})
    if do > 0:
        key = KEY_MERGE if (case["bf"] and case["h"] > 1 and case["L"] > 1) else "C14:output-differs"
        return (key, f"attention output differs from nn.MultiheadAttention by {do:.3g} [{sig(case)}, L={case['L']} S={case['S']} B={case['B']}]",
                {"torch": R.flat(rt["out"])[:32], "dp": R.flat(rd["out"])[:32]})
    if not (torch.isnan(rt["out"]).any() or (rt["w"] is not None and torch.isnan(rt["w"]).any())):
        gd = R.dp_param_grads_as_torch(dp, case)
        for name, p in tl.named_parameters():
            if p.grad is None and name not in gd:
                continue
            if name not in gd or p.grad is None:
                return ("C14:param-grad-missing", f"gradient of {name} present in only one of the layers [{sig(case)}]", {})
            dg = _maxdiff(p.grad, gd[name])
            if dg > 0:
                return (f"C14:param-grad-differs:{name}", f"gradient of {name} differs by {dg:.3g} [{sig(case)}]", {"torch": R.flat(p.grad)[:32], "dp": R.flat(gd[name])[:32]})
        for name in ("query", "key", "value"):
            dg = _maxdiff(rt["gin"][name], rd["gin"][name])
            if dg > 0:
                return (f"C14:input-grad-differs:{name}", f"gradient w.r.t. {name} differs by {dg:.3g} [{sig(case)}]", {})
    return None


def oracle_around(known):
    """oracle for a correspondence break: a failure whose key is a known finding does not explain a
    *new* break, so look at the case and at its neighbours (other layout, no masks) for an unlisted one"""
    def f(case):
        cands = [case]
        c2 = copy.deepcopy(case); c2["bf"] = not case["bf"]; cands.append(c2)
        c3 = copy.deepcopy(case); c3["mask"] = dict(NO_MASK); c3["kpm"] = dict(NO_MASK); cands.append(c3)
        c4 = copy.deepcopy(c3); c4["bf"] = False; cands.append(c4)
        for c in cands:
            res = oracle(c)
            if res is not None and res[0] not in known:
                return (res[0], res[1], dict(res[2], failing_input=c))
        return None
    return f


# ----------------------------------------------------------------------------- witnesses / variant detection
def _I(n):
    return [[1.0 if i == j else 0.0 for j in range(n)] for i in range(n)]


W_BASE = {"h": 2, "d": 1, "bias": False, "abkv": False, "aza": False, "kdim": None, "vdim": None, "bf": True, "L": 2, "S": 1, "B": 1,
          "seed": 0, "integer": True, "mask": dict(NO_MASK), "kpm": dict(NO_MASK),
          "explicit": {"Wq": _I(2), "Wk": _I(2), "Wv": _I(2), "Wo": _I(2), "query": [1, 1, 1, 1], "key": [1, 1], "value": [1, 2]}}
W_MERGE = W_BASE                                                               # Lean: batch_first_merge_counterexample
W_MASK = dict(W_BASE, mask={"kind": "f2", "shape": [2, 1], "data": [0.0, 0.0]})   # Lean: batch_first_mask_rejected_counterexample
W_KPM = {"h": 1, "d": 1, "bias": False, "abkv": False, "aza": False, "kdim": None, "vdim": None, "bf": False, "L": 1, "S": 2, "B": 1,
         "seed": 0, "integer": True, "mask": dict(NO_MASK), "kpm": {"kind": "add", "shape": [1, 2], "data": [0.0, 0.0]},
         "explicit": {"Wq": [[1.0]], "Wk": [[1.0]], "Wv": [[1.0]], "Wo": [[1.0]], "query": [1], "key": [1, 1], "value": [1, 3]}}


def dp_run(case):
    t = R.make_tensors(case)
    tl = R.build_torch(case, t)
    dp = R.build_dp(case, tl.state_dict())
    return R.run_layer(dp, case, t), R.run_layer(tl, case, t)


def detect_variants(ctx):
    v = {}
    rd, rt = dp_run(W_MERGE)
    assert rt["status"] == "ok" and R.flat(rt["out"]) == [1.0, 2.0, 1.0, 2.0], "torch does not compute the witness as expected"
    o = R.flat(rd["out"]) if rd["status"] == "ok" else None
    v["merge"] = "asCoded" if o == [1.0, 1.0, 2.0, 2.0] else "repaired"
    rd, rt = dp_run(W_MASK)
    assert rt["status"] == "ok"
    v["maskCheck"] = "asCoded" if rd["status"] == "err:mask-size2" else "repaired"
    rd, rt = dp_run(W_KPM)
    assert rt["status"] == "ok"
    v["kpmFloat"] = "asCoded" if rd["status"] == "err:kpm-dtype" else "repaired"
    return v


# ----------------------------------------------------------------------------- correspondence
def _cmp(impl, model, exact=False):
    """-> None if equal else (index, impl value, model value)"""
    if len(impl) != len(model):
        return ("len", len(impl), len(model))
    for i, (x, y) in enumerate(zip(impl, model)):
        if exact:
            if not (x == y or (x != x and y != y)):
                return (i, x, y)
        elif not core.close(x, y, 1e-9, 1e-11):
            return (i, x, y)
    return None


def nontrivial(c, status):
    if status != "ok":
        return c["mask"]["kind"] != "none" or c["kpm"]["kind"] != "none"
    return c["B"] * c["h"] > 1 and (c["S"] + int(c["abkv"]) + int(c["aza"])) > 1


def run_cases(ctx, cases, variant, known):
    lines, real = [], []
    for c in cases:
        t = R.make_tensors(c)
        tl = R.build_torch(c, t)
        try:
            dp = R.build_dp(c, tl.state_dict())
        except Exception:  # noqa: BLE001 – reported by the oracle below (search), the forward model is still compared
            dp = R.build_dp_manual(c, t)
            ctx.count("dp:load_state_dict-raises")
            res = oracle(c)
            if res:
                ctx.property_failure(res[0], res[1], dict(res[2], failing_input=c))
        rd = R.run_layer(dp, c, t)
        rt = R.run_layer(tl, c, t)
        lines.append(R.driver_line("fwd", c, variant, R.params_from_dp(dp, c), t))
        lines.append(R.driver_line("spec", c, variant, R.params_from_torch(tl, c), t))
        real.append((rd, rt))
    replies = ctx.lean_driver("C14", lines)
    orc = oracle_around(known)
    for i, c in enumerate(cases):
        rd, rt = real[i]
        mf, ms = R.parse_reply(replies[2 * i]), R.parse_reply(replies[2 * i + 1])
        exact = bool(c.get("integer")) and R.scale_is_exact(c["d"])
        ctx.case(case_key(c), nontrivial=nontrivial(c, rd["status"]), sample={k: v for k, v in c.items() if k != "explicit"},
                 kind=f"{'bf' if c['bf'] else 'sf'}/h{c['h']}/{c['mask']['kind']}/{c['kpm']['kind']}")
        ctx.count("dp:" + (rd["status"] if rd["status"].startswith("err:") and len(rd["status"]) < 20 else rd["status"][:18]))
        ctx.count("torch:" + ("ok" if rt["status"] == "ok" else "rejects"))
        if exact:
            ctx.count("exact-score-cases")
        # leg A: model of the DP layer ≡ the DP layer (results and error kinds)
        bad = None
        if mf[0] != rd["status"]:
            bad = ("status", rd["status"], mf[0])
        elif rd["status"] == "ok":
            for name, impl, mod, ex in (("out", rd["out"], mf[1], False), ("weights", rd["w"], mf[2], False), ("scores", rd["scores"], mf[3], exact)):
                r = _cmp(R.flat(impl), mod, ex)
                if r:
                    bad = (name,) + r
                    break
        if bad:
            ctx.mismatch("model-vs-DPMultiheadAttention", c, {"status": rd["status"], "diff_at": str(bad), "message": rd.get("message")},
                         {"status": mf[0]}, oracle=orc)
            continue
        # leg B: specification ≡ nn.MultiheadAttention (on the inputs torch accepts)
        if rt["status"] == "ok" and c["mask"]["kind"] in VALID_MASKS and c["kpm"]["kind"] in VALID_KPMS:
            bad = None
            if ms[0] != "ok":
                bad = ("status", "ok", ms[0])
            else:
                for name, impl, mod, ex in (("out", rt["out"], ms[1], False), ("weights", rt["w"], ms[2], False), ("scores", rt["scores"], ms[3], exact)):
                    r = _cmp(R.flat(impl), mod, ex)
                    if r:
                        bad = (name,) + r
                        break
            if bad:
                ctx.mismatch("spec-vs-nn.MultiheadAttention", c, {"status": rt["status"], "diff_at": str(bad)}, {"status": ms[0]}, oracle=orc)
                continue
        ctx.validated()


def search(ctx, cases):
    """failing-input search with the property oracle on the real code"""
    for i, c in enumerate(cases):
        if i % 3 == 2:
            # the way nn.TransformerEncoderLayer / DecoderLayer call their attention: no weights requested
            c = dict(c, nw=False)
            ctx.count("search:oracle:need_weights=False")
        elif i % 5 == 1:
            # a layer built with dropout > 0, evaluated in eval() mode (dropout is the identity there for torch.nn)
            c = dict(c, dropout=0.3)
            ctx.count("search:oracle:dropout-eval-mode")
        ctx.count("search:oracle")
        res = oracle(c)
        if res:
            ctx.property_failure(res[0], res[1], dict(res[2], failing_input=c))


def grid_cases(rng, thorough):
    """structured sweep: every (h, bias, add_bias_kv, add_zero_attn, kdim?, batch_first) × mask kind"""
    out = []
    hs = [1, 2, 3] if thorough else [1, 2]
    for h, bias, abkv, aza, kd, bf in itertools.product(hs, [True, False], [False, True], [False, True], [None, 3], [False, True]):
        for mk, kk in (("none", "none"), ("b2", "none"), ("f2", "bool"), ("b3", "none"), ("f3", "bool"), ("none", "bool"), ("none", "add")):
            if not thorough and rng.random() < 0.6:
                continue
            d = rng.choice([1, 2, 3])
            c = {"h": h, "d": d, "bias": bias, "abkv": abkv, "aza": aza, "kdim": kd, "vdim": kd, "bf": bf,
                 "L": rng.randint(2, 4), "S": rng.randint(1, 3), "B": rng.randint(1, 3), "seed": rng.getrandbits(30), "integer": False}
            B, L, S = c["B"], c["L"], c["S"]
            c["mask"] = dict(NO_MASK)
            if mk != "none":
                shape = [L, S] if mk.endswith("2") else [B * h, L, S]
                n = shape[0] * shape[1] * (shape[2] if len(shape) == 3 else 1)
                c["mask"] = {"kind": mk, "shape": shape,
                             "data": _bool_rows(rng, shape, True) if mk[0] == "b" else _float_vals(rng, n, False, True, S)}
            c["kpm"] = dict(NO_MASK)
            if kk != "none":
                c["kpm"] = {"kind": kk, "shape": [B, S],
                            "data": _bool_rows(rng, [B, S], True) if kk == "bool" else _float_vals(rng, B * S, False, True, S)}
            out.append(c)
    return out


def run(ctx):
    torch.set_num_threads(2)
    variant = detect_variants(ctx)
    ctx.variant.update(variant)
    ctx.log("variants implemented by this tree:", variant)
    known = {f["key"] for f in ctx.findings if f.get("status") == "known"}
    # replay of the Lean counterexample witnesses on the real code
    for w, key, vk in ((W_MERGE, KEY_MERGE, "merge"), (W_MASK, KEY_MASK, "maskCheck"), (W_KPM, KEY_KPM, "kpmFloat")):
        ctx.count("witness-replay")
        if variant[vk] == "asCoded":
            res = oracle(w)
            if res is None:
                raise core.InfraError(f"variant {vk}=asCoded but the oracle accepts the witness")
            ctx.property_failure(res[0], res[1], dict(res[2], failing_input=w))
    # correspondence
    cases = [gen_case(ctx.rng) for _ in range(ctx.n(130, 2600))]
    cases += [gen_case(ctx.rng, integer=True) for _ in range(ctx.n(50, 1000))]
    cases += grid_cases(ctx.rng, ctx.thorough)
    run_cases(ctx, cases, variant, known)
    # failing-input search on the real code (valid inputs only)
    scases = [gen_case(ctx.rng, allow_invalid=False) for _ in range(ctx.n(150, 3000))]
    search(ctx, scases + [c for c in cases if c["mask"]["kind"] in ("none", "b2", "f2", "b3", "f3")][: ctx.n(100, 2000)])


def replay(ctx, rp):
    c = rp.get("failing_input") or rp.get("case")
    for cand in ([c] if rp.get("failing_input") else [c]):
        res = oracle(cand)
        if res:
            print("REPRODUCED:", res[0], res[1])
            ctx.violations.append(res[0])
            return
    print("not reproduced on this tree")
