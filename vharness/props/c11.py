"""C11 — no per-sample gradient is ever released twice; stale state never leaks.

Obligations (Lean, all finite op sequences by induction): `no_double_release`, `release_shape`,
`no_release_unless_released`, `step_step_raises`, `step_backward_step_raises`,
`poisson_second_backward_raises`, `module_zero_grad_then_step_raises` for the standard optimizers
(DPOptimizer / per-layer / adaptive share the protocol), and `ghost_double_release_counterexample`
(finding D10) for the ghost-clipping optimizer as coded.

Correspondence: the protocol machine (Model/Engine.lean, driver Engine) against the real
GradSampleModule + DPOptimizer / DPOptimizerFastGradientClipping + accountant objects in the exact
token setting (see engine_rig.py): after EVERY op the full observable state (grad_sample entries and
their `_processed` flags, summed_grad multiset + flag, skip queue, `_is_last_step_skipped`, accountant
history, and the events noise/account/inner-step in order) is compared textually.

Oracle (real code only): decode every gradient handed to the inner optimizer into token
multiplicities; any token released twice, any reuse sequence that does not raise, is a property failure.
"""
from __future__ import annotations

import itertools

import torch
import torch.nn as nn

from .. import rig
from . import engine_check as EC
from . import engine_rig as E

PID = "C11"
MODULES = ["OpacusLean.Props.C11"]
THEOREMS = [
    "Opacus.C11.no_double_release",
    "Opacus.C11.release_shape",
    "Opacus.C11.no_release_unless_released",
    "Opacus.C11.step_step_raises",
    "Opacus.C11.step_backward_step_raises",
    "Opacus.C11.poisson_second_backward_raises",
    "Opacus.C11.module_zero_grad_then_step_raises",
    "Opacus.C11.ghost_double_release_counterexample",
    "Opacus.C11.ghost_no_double_release_partial",
    "Opacus.C11.accumulated_kept",
    # the tie to the source: Generated/ZeroGrad.lean is re-translated from both DP optimizers' zero_grad on every run
    "Opacus.C11.generated_zero_grad_eq_model",
    "Opacus.C11.fresh_optimizer_releases_own_batch",
    "Opacus.C11.fresh_optimizer_inheriting_leaks",
    "Opacus.C11.generated_init_eq_model",
]
RULE = (
    "case = (optimizer kind std|ghost, accumulation allowed?, accountant rdp|gdp, op sequence over {fwdbwd n, step, optimizer.zero_grad, "
    "module.zero_grad, signal_skip_step b, set sigma, set clip}) from VERIF_SEED (thorough: plus every sequence up to length 5 over a 6-letter alphabet); "
    "non-trivial iff the real run contains at least one released step AND at least one op whose outcome is an error or a skipped step; distinct by (config, op sequence)"
)
TRUSTED = [
    "the translator vharness/props/c11_trans.py (Python `ast` -> the effect of zero_grad on one parameter's (grad_sample, summed_grad) given _is_last_step_skipped, for DPOptimizer and DPOptimizerFastGradientClipping; subset in its docstring, anything else is reported as a broken tie) is trusted to render zero_grad faithfully; every other step of the protocol machine is tied by the behavioural correspondence",
    "tokens abstract gradient VALUES: clipping arithmetic is C02/C03's business; here per-sample gradients are one-hot rows with clip factor exactly 1",
    "one optimised parameter tensor (flags are set and checked per parameter in the same loop; hooks give every parameter its grad_sample in the same backward)",
]
PARTIAL = [
    "a second optimizer constructed on a used module (training in phases): the theorem fresh_optimizer_releases_own_batch covers the standard optimizer's first step after construction (constructor state re-translated from DPOptimizer.__init__, generated_init_eq_model); longer histories across several optimizer objects, and the ghost optimizer, are covered by the real-objects oracle (fresh_optimizer_oracle) only",
    "ghost clipping optimizer: the guarantee fails as coded (D10, counterexample proved); it is proved under the usage discipline `a backward or a clearing between two step() calls` (ghost_no_double_release_partial); the correspondence covers every ghost sequence",
]

CFGS = [
    ("std", True, False, 1.5, 2.0),
    ("std", False, False, 1.5, 2.0),
    ("std", True, True, 1.5, 2.0),
    ("ghost", True, False, 1.5, 2.0),
    ("ghost", False, False, 1.5, 2.0),
]

D10_KEY = "C11:ghost:step-after-step-reaccumulates-p.grad"


def oracle_lines(cfg, ops, real):
    """property oracle on the real run; returns None or (key, what, replay)"""
    kind = cfg[0]
    rel = EC.released_tokens(real)
    flat = [t for r in rel for t in r]
    dup = sorted({t for t in flat if flat.count(t) > 1})
    if dup:
        hz = EC.ghost_hazard(ops) if kind == "ghost" else None
        key = D10_KEY if hz is not None else f"C11:double-release:{kind}"
        return (key, f"{kind} optimizer: tokens {dup} handed to the inner optimizer more than once (releases {rel})", {"releases": rel, "ops": ops, "cfg": cfg})
    # gradients clipped and accumulated for the current logical batch are dropped by nothing but their release:
    # only a step changes the accumulator, and optimizer.zero_grad clears it only after a release
    st = [EC.parse_line(l) for l in real]
    for i, op in enumerate(ops):
        if i + 1 >= len(st):
            break
        a, b = st[i]["sum"].split(":")[0], st[i + 1]["sum"].split(":")[0]
        if a not in ("none", "") and b != a and (op[0] != "step") and not ((op[0] == "ozg" or (kind == "ghost" and op[0] == "fwdbwd")) and st[i]["ls"] == "0"):  # ghost's backward runs optimizer.zero_grad between its passes
            return (f"C11:accumulated-dropped:{kind}", f"{kind} optimizer: op #{i} {op} changed the accumulated (clipped, not yet released) gradients from tokens [{a}] to [{b}]",
                    {"ops": ops, "cfg": cfg})
    outs = [EC.parse_line(l)["out"] for l in real[1:]]
    # the skip signals are a FIFO: the k-th step that reaches the skip test consumes the k-th signal sent (none queued = release).
    # A signal consumed by another step merges two logical batches under one noise draw and one accountant record (stale
    # accumulated state leaks into the next release).  Checked up to the first step that raises.
    fifo = []
    for i, (op, o) in enumerate(zip(ops, outs)):
        if op[0] == "sig":
            fifo.append(bool(op[1]))
        elif op[0] == "step":
            if o not in ("released", "skipped"):
                break
            want = fifo.pop(0) if fifo else False
            if (o == "skipped") != want:
                return (f"C11:skip-signal-order:{kind}", f"{kind} optimizer: step at op #{i} was {o}, but the oldest unconsumed skip signal says {'skip' if want else 'release'} "
                        f"(signals are consumed first-in first-out, one per step)", {"ops": ops, "cfg": cfg})
    # reuse must raise (standard optimizers)
    if kind == "std":
        last_rel, dirty = None, False
        for i, (op, o) in enumerate(zip(ops, outs)):
            if op[0] == "step" and o == "released":
                last_rel, dirty = i, True
            elif op[0] in ("ozg", "mzg"):
                dirty = False
            elif op[0] == "step" and dirty and last_rel is not None and o in ("released", "skipped"):
                return (f"C11:reuse-not-raised:{kind}", f"step at op #{i} after the release at op #{last_rel} without clearing did not raise ({o})", {"ops": ops, "cfg": cfg})
        if not cfg[1]:
            pend = False
            for i, (op, o) in enumerate(zip(ops, outs)):
                if op[0] == "fwdbwd":
                    if pend and o != "err:accum-forbidden":
                        return ("C11:poisson-second-backward-not-raised", f"second backward at op #{i} with accumulation forbidden did not raise ({o})", {"ops": ops, "cfg": cfg})
                    pend = True
                elif op[0] in ("ozg", "mzg"):
                    pend = False
    return None


ATTACKS = [
    [],
    [("step",)],
    [("step",), ("step",)],
    [("fwdbwd", 1), ("step",)],
    [("mzg",), ("fwdbwd", 1), ("step",)],
    [("ozg",), ("fwdbwd", 1), ("step",)],
    [("ozg",), ("step",)],
    [("sig", 1), ("step",), ("step",)],
    [("mzg",), ("fwdbwd", 1), ("step",), ("ozg",), ("fwdbwd", 1), ("step",)],
]


def case_oracle(case):
    """failing-input search around a disagreeing case: the case itself, its full original sequence,
    and a fixed set of reuse attempts appended to the disagreeing prefix"""
    cfg, ops = tuple(case["cfg"]), [tuple(o) for o in case["ops"]]
    full = [tuple(o) for o in case.get("full_ops", [])]
    with rig.default_dtype(torch.float64):
        for cand in ([full] if full else []) + [ops + a for a in ATTACKS]:
            cand = EC.normalise_ops(cfg, cand)
            try:
                real = E.run_real(cfg, cand, **case.get("kw", {}))
            except AssertionError:
                continue
            res = oracle_lines(cfg, cand, real)
            if res:
                res[2]["failing_input"] = {"cfg": cfg, "ops": cand, "kw": case.get("kw", {})}
                return res
    return None


def fresh_optimizer_oracle(seed):
    """PROPERTY on the real objects, no model: a DP optimizer constructed for a module that was already trained with another one
    (training in phases, a second make_private, a changed clipping norm) starts clean – what an earlier optimizer clipped and
    accumulated but never released (an interrupted logical batch), or released and left behind, must not enter or block its first release.
    Tokens: Linear(d, 1) without bias, loss = sum of outputs, one-hot inputs – a released gradient is the multiset of its tokens."""
    import random as _r
    from opacus import GradSampleModule
    from opacus.optimizers import DPOptimizer, DPPerLayerOptimizer
    rng = _r.Random(seed)
    d = 12
    per_layer = rng.random() < 0.4
    scenario = rng.choice(["interrupted", "released-then-module-zero-grad", "released-then-nothing"])
    A = [rng.randrange(d) for _ in range(rng.randint(1, 4))]
    B = [rng.randrange(d) for _ in range(rng.randint(1, 4))]
    info = {"failing_input": {"oracle": "fresh-optimizer", "seed": seed}, "scenario": scenario, "per_layer": per_layer, "A": A, "B": B}
    with rig.default_dtype(torch.float64):
        lin = nn.Linear(d, 1, bias=False)
        gsm = GradSampleModule(lin, loss_reduction="sum")

        def mk(clip):
            cls = DPPerLayerOptimizer if per_layer else DPOptimizer
            return cls(torch.optim.SGD(lin.parameters(), lr=0.0), noise_multiplier=0.0, max_grad_norm=([clip] if per_layer else clip), expected_batch_size=1, loss_reduction="sum")

        def fb(tokens):
            x = torch.zeros(len(tokens), d)
            for r, t in enumerate(tokens):
                x[r, t] = 1.0
            gsm(x).sum().backward()

        opt1 = mk(1e6)
        fb(A)
        if scenario == "interrupted":
            opt1.signal_skip_step(True)
            opt1.step()
            opt1.zero_grad()
        else:
            opt1.step()
            if scenario == "released-then-module-zero-grad":
                gsm.zero_grad()
            else:
                opt1.zero_grad()
        opt2 = mk(2e6)
        try:
            fb(B)
            opt2.step()
        except Exception as e:  # noqa: BLE001
            return (f"C11:fresh-optimizer-blocked:{scenario}", f"a new {'DPPerLayerOptimizer' if per_layer else 'DPOptimizer'} on a module used before ({scenario}; earlier batch {A}): its first step on batch {B} raised {type(e).__name__}: {str(e)[:120]}", info)
        got = lin.weight.grad.reshape(-1)
        want = torch.zeros(d)
        for t in B:
            want[t] += 1.0
        if not torch.equal(got, want):
            return (f"C11:stale-accumulator-inherited:{scenario}", f"a new {'DPPerLayerOptimizer' if per_layer else 'DPOptimizer'} on a module used before ({scenario}): its first release on batch {B} is {got.tolist()}, "
                    f"expected the tokens of {B} only (earlier optimizer's batch was {A})", info)
    return None


def detect_variant():
    cfg = ("ghost", True, False, 1.5, 2.0)
    ops = [("fwdbwd", 2), ("sig", 1), ("step",), ("step",)]
    real = E.run_real(cfg, ops)
    rel = EC.released_tokens(real)
    return ("asCoded" if rel == [[0, 0, 1, 1]] else "repaired"), real


def regenerate(ctx):
    from .. import regen
    from . import c11_trans as T
    regen.regenerate(ctx, T, "Opacus.Generated.ZeroGrad", "zero_grad (optimizers/optimizer.py, optimizer_fast_gradient_clipping.py)")


def run(ctx):
    regenerate(ctx)
    with rig.default_dtype(torch.float64):
        variant, wreal = detect_variant()
        ctx.variant["ghost_reaccumulate"] = variant
        cases = []
        n = ctx.n(260, 4000)
        for i in range(n):
            cfg = CFGS[i % len(CFGS)]
            ops = EC.gen_ops(ctx.rng, cfg, ctx.n(22, 40), allow_setters=True)
            if cfg[0] == "std" and i % 3 == 2:   # DPPerLayerOptimizer shares the protocol (its joint bound is fixed at construction: no clip writes)
                cases.append((cfg, [o for o in ops if o[0] != "clip"], {"clipping": "per_layer"}))
            elif cfg[0] == "std" and not cfg[1] and i % 3 == 1:
                # Poisson sampling through PrivacyEngine.make_private on a module the USER wrapped in GradSampleModule beforehand
                cases.append((cfg, ops, {"via_engine": True, "prewrapped": True}))
            else:
                cases.append((cfg, ops))
        if ctx.thorough:
            alpha = [("fwdbwd", 1), ("step",), ("ozg",), ("mzg",), ("sig", 1), ("sig", 0)]
            for cfg in (CFGS[0], CFGS[1], CFGS[3]):
                for L in range(1, 6):
                    for ops in itertools.product(alpha, repeat=L):
                        cases.append((cfg, list(ops)))
            ctx.extra["exhaustive_small_scope"] = "every op sequence of length ≤ 5 over {fwdbwd 1, step, ozg, mzg, sig 1, sig 0} for std/accum, std/poisson, ghost"
        if variant == "repaired":
            # the model only has the as-coded ghost behaviour: sequences through the repaired spot are judged by the oracle only
            keep = []
            for case in cases:
                cfg, ops = case[0], case[1]
                if cfg[0] == "ghost" and EC.ghost_hazard(ops) is not None:
                    res = oracle_lines(cfg, ops, E.run_real(cfg, ops))
                    ctx.count("oracle-only:ghost-hazard")
                    if res:
                        ctx.property_failure(res[0], res[1], dict(res[2], failing_input={"cfg": cfg, "ops": ops}))
                else:
                    keep.append(case)
            cases = keep

        kws = {}

        def on_case(cfg, ops, real, model, diff):
            outs = [EC.parse_line(l)["out"] for l in real[1:]]
            nontrivial = ("released" in outs) and any(o.startswith("err") or o == "skipped" for o in outs)
            ctx.case((cfg, tuple(ops)), nontrivial=nontrivial, sample={"cfg": cfg, "ops": ops}, kind=f"{cfg[0]}/{'accum' if cfg[1] else 'poisson'}/{'gdp' if cfg[2] else 'rdp'}")
            for o in outs:
                ctx.count("out:" + o)
            if diff is None:
                ctx.validated()
            # the property oracle runs on every real trace (it is cheap), not only on mismatches
            res = oracle_lines(cfg, ops, real) if not real[0].startswith("harness-assertion") else None
            if res:
                ctx.property_failure(res[0], res[1], dict(res[2], failing_input={"cfg": cfg, "ops": ops, "kw": kws.get((cfg, tuple(ops)), {})}))

        kws.update({(c[0], tuple(EC.normalise_ops(c[0], c[1]))): (c[2] if len(c) > 2 else {}) for c in cases})
        bad = EC.compare(ctx, cases, on_case)
        for cfg, ops, real, model, diff in bad[:5]:
            # shrink: shortest prefix that still disagrees
            ops_s = ops[:diff] if diff else ops
            ctx.mismatch("protocol-machine", {"cfg": cfg, "ops": ops_s, "full_ops": ops, "kw": kws.get((cfg, tuple(ops)), {})}, real[: diff + 1], model[: diff + 1], oracle=case_oracle,
                         note=f"first differing op index {diff}: {ops[diff-1] if diff else 'new'}")
        # every run: a fresh DP optimizer on a module another one has used (real objects against the rule, no model)
        for _ in range(ctx.n(24, 300)):
            sd = ctx.rng.randrange(1 << 30)
            ctx.count("search:fresh-optimizer-on-used-module")
            res = fresh_optimizer_oracle(sd)
            if res:
                ctx.property_failure(res[0], res[1], res[2])
        # Lean witness replay (ghost_double_release_counterexample) on the real code
        if variant == "asCoded":
            res = oracle_lines(("ghost", True, False, 1.5, 2.0), [("fwdbwd", 2), ("sig", 1), ("step",), ("step",)], wreal)
            if res:
                ctx.property_failure(res[0], res[1], dict(res[2], failing_input={"cfg": ("ghost", True, False, 1.5, 2.0), "ops": [("fwdbwd", 2), ("sig", 1), ("step",), ("step",)]}))


def replay(ctx, rp):
    c = rp.get("failing_input") or rp.get("case")
    res = fresh_optimizer_oracle(c["seed"]) if isinstance(c, dict) and c.get("oracle") == "fresh-optimizer" else case_oracle(c)
    if res:
        print("REPRODUCED:", res[0], res[1])
        ctx.violations.append(res[0])
    else:
        print("not reproduced on this tree")
