"""C08 — calibrated noise never overshoots the requested (epsilon, delta) budget.

Obligations (Lean, unbounded): for ANY accountant function `eps` (no monotonicity), whenever the
fuel-bounded transcription of `get_noise_multiplier` returns sigma, `eps sigma <= target` and
`target - eps sigma <= tol` (it returns the high end by construction); the doubling loop raises
above MAX_SIGMA and never returns a sigma above it; termination with an explicit fuel bound;
the float truncations `int(1/(1/L))`, `int(epochs/(1/L))` lose at most one and never gain — for
every rounding with relative error 2^-53 *and* for the executable exact-binary64 model; calibration
and training agree on (q, steps) iff `L' = L` and `steps_cal = epochs*L`; kernel-evaluated witnesses
on Lean's own Float where they do not (L=93 -> 92; (75,3) -> 224).

Correspondence: (1) the exact binary64 model vs CPython for every L <= 10^4 (10^6 thorough) and
vs the real DPDataLoader / get_noise_multiplier on samples; (2) the Float instance of the same
`getNoiseMultiplier` definition vs the real `get_noise_multiplier`, with the real rdp/gdp/prv
accountants (their answers recorded and fed to the model as the `eps` table) and with synthetic
accountant functions (non-monotone, NaN, constant, stepped) exercising every branch incl. the
raise and the fuel bound; the whole query sequence is compared bit-for-bit.

Search on the real code: direct calibration (steps given) fed back into the accountant, and the
end-to-end `make_private_with_epsilon` -> epochs*len(loader) accounted steps -> `get_epsilon`.
"""
from __future__ import annotations

import math
import struct

import torch

from .. import core, rig
from ..core import f2h, h2f
from . import c08_real as R

PID = "C08"
MODULES = ["OpacusLean.Props.C08"]
THEOREMS = [
    "Opacus.C08.bisection_invariant",
    "Opacus.C08.bisection_invariant_le",
    "Opacus.C08.doubling_guard",
    "Opacus.C08.doubling_terminates",
    "Opacus.C08.bisection_terminates",
    "Opacus.C08.bisection_terminates_lipschitz",
    "Opacus.C08.terminates",
    "Opacus.C08.steps_trunc_bounds",
    "Opacus.C08.steps_trunc_bounds_model",
    "Opacus.C08.steps_consistent_iff",
    "Opacus.C08.steps_consistent_repaired",
    "Opacus.C08.calibration_sound_partial",
    "Opacus.C08.calibration_sound_repaired",
    "Opacus.C08.overshoot_witnesses",
    "Opacus.C08.model_agrees_with_float",
    "Opacus.Binary64.rne_rel_error",
    # the tie to the source: Generated/FloatBookkeeping.lean is re-translated from privacy_engine.py, accountants/utils.py, utils/uniform_sampler.py on every run
    "Opacus.C08.generated_bookkeeping_eq_model",
    # … and Generated/CalibLoops.lean from the two while loops of get_noise_multiplier
    "Opacus.C08.generated_calibration_loops_eq_model",
]
RULE = (
    "calibration case = (accountant in {rdp,gdp,prv} or synthetic eps family+params, target, delta, L, epochs|steps, tolerance, fuel) drawn from VERIF_SEED; "
    "non-trivial iff the routine evaluates eps at >= 3 sigmas or raises; distinct by (family, params, target, L, epochs); "
    "binary64 cases = every L in the exhaustive range (non-trivial iff int(1/(1/L)) != L or int(E/(1/L)) != E*L for some E); "
    "end-to-end cases = (accountant, L, epochs, target)"
)
TRUSTED = [
    "the translator vharness/props/c08_loop_trans.py (Python `ast` -> one iteration of each `while` loop of get_noise_multiplier in continuation-passing form over the reals: guards, arithmetic, the epsilon queries and their position, the raise, which variables a branch updates; subset in its docstring, anything else is reported as a broken tie) is trusted to render the loops faithfully; the whole query sequence of the real function is also compared with the model by the behavioural correspondence",
    "the accountants' get_epsilon is an opaque oracle here (C06/C07/C12 are about its value); C08 is about the search around it and the step/rate bookkeeping",
    "exact binary64 model covers the normal range only (no subnormals/overflow/signs); tied to hardware floats by kernel Float witnesses and the exhaustive CPython comparison",
]
PARTIAL = [
    "end-to-end statement fails as coded (finding D14): proved conditional on L' = L and steps_cal = epochs*L (steps_consistent_iff), counterexample witnesses where the condition fails",
    "termination: proved for eps with a local modulus of continuity (Lipschitz corollary); the real loop has no iteration bound",
]

FUEL_D = 64


# --------------------------------------------------------------------------- binary64 vs CPython
def bits(x: float) -> int:
    return struct.unpack(">Q", struct.pack(">d", float(x)))[0]


def py_len(L, variant):
    return int(1 / (1 / L)) if variant == "asCoded" else L


def py_lenrange(lo, hi, variant):
    s1 = s2 = 0
    ex = []
    for L in range(lo, hi):
        q = 1 / L
        l2 = py_len(L, variant)
        s1 = (s1 + bits(q)) & (2**64 - 1)
        s2 = (s2 + bits(1 / l2)) & (2**64 - 1)
        if l2 != L:
            ex += [L, l2]
    return "%016x %016x %d %s" % (s1, s2, len(ex) // 2, " ".join(map(str, ex)))


def py_stepsrange(E, lo, hi, variant):
    ex = []
    for L in range(lo, hi):
        s = int(E / (1 / L)) if variant == "asCoded" else E * L
        if s != E * L:
            ex += [L, s]
    return "%d %s" % (len(ex) // 2, " ".join(map(str, ex)))


def binary64_vs_cpython(ctx, vlen, vsteps):
    top = ctx.n(10_000, 1_000_000)
    chunk = 2000
    reqs, want = [], []
    for lo in range(1, top + 1, chunk):
        hi = min(lo + chunk, top + 1)
        reqs.append(f"lenrange {vlen} {lo} {hi}")
        want.append(("len", lo, hi, py_lenrange(lo, hi, vlen)))
    topE = ctx.n(2000, 20_000)
    for E in range(0, 51):
        for lo in range(1, topE + 1, chunk):
            hi = min(lo + chunk, topE + 1)
            reqs.append(f"stepsrange {vsteps} {E} {lo} {hi}")
            want.append(("steps", (E, lo), hi, py_stepsrange(E, lo, hi, vsteps)))
    got = ctx.lean_driver("C08", reqs, timeout=3000)
    nex = 0
    for (kind, lo, hi, w), g in zip(want, got):
        w, g = w.strip(), g.strip()
        k = int(w.split()[2 if kind == "len" else 0])
        nex += k
        ctx.case((kind, lo, hi), nontrivial=k > 0, kind="binary64:" + kind)
        if w == g:
            ctx.validated()
        else:
            ctx.mismatch("binary64-" + kind, {"range": [lo, hi]}, w[:400], g[:400], oracle=None,
                         note="exact binary64 model disagrees with CPython float arithmetic")
    ctx.count("binary64:L-values", top)
    ctx.count("binary64:exceptional(L|E,L)", nex)
    ctx.extra["binary64_exhaustive"] = f"int(1/(1/L)) and bits of 1/L, 1/L' for every 1 <= L <= {top}; int(E/(1/L)) for E <= 50, L <= {topE}"


# --------------------------------------------------------------------------- calibration correspondence
def model_calib_line(case, table):
    t = case["target"]
    items = " ".join(f"{f2h(s)} {f2h(e)}" for s, e in table)
    return f"calib {f2h(t)} {f2h(case['tol'])} {f2h(R.max_sigma())} {FUEL_D} {case['fuel']} {len(table)} {items}"


def parse_model(rep):
    w = rep.split()
    if w[0] == "ok":
        return ("ok", h2f(w[1]), [h2f(x) for x in w[3:]])
    if w[0] in ("err:budget-too-low", "err:fuel"):
        return (w[0], None, [h2f(x) for x in w[2:]])
    return (rep, None, [])


def gen_synth(rng):
    fam = rng.choice(["inv", "inv", "wiggle", "stair", "high", "low", "nan", "invsq", "jump"])
    target = rng.choice([0.1, 0.5, 1.0, 3.0, 8.0, 10.0]) if rng.random() < 0.8 else rng.uniform(0.05, 20)
    if rng.random() < 0.04:
        target = float("inf")
    tol = rng.choice([0.01, 0.01, 0.1, 0.001, 0.5, 0.0])
    c = math.exp(rng.uniform(math.log(0.05), math.log(5e6)))
    p = {"c": c, "k": rng.choice([3, 7, 19, 101]), "a": rng.uniform(0.05, 0.6), "at": rng.uniform(0.0, 3.0)}
    fuel = rng.choice([0, 1, 2, 5, 40, 80, 80, 80])
    return {"mech": "synthetic", "family": fam, "params": p, "target": target, "tol": tol, "fuel": fuel, "delta": 1e-5, "q": 0.01, "steps": 100}


def gen_real(rng, mechs=("rdp", "gdp", "prv")):
    mech = rng.choice(mechs)
    L = rng.choice([rng.randint(2, 60), rng.randint(60, 400), rng.choice(R.EXC_L), rng.randint(400, 5000)])
    target = rng.choice([0.5, 1.0, 2.0, 3.0, 5.0, 8.0]) if rng.random() < 0.8 else round(rng.uniform(0.3, 12), 3)
    delta = rng.choice([1e-5, 1e-6, 1e-3, 1 / (10 * L)])
    tol = rng.choice([0.01, 0.01, 0.05, 0.002])
    c = {"mech": mech, "target": target, "delta": delta, "tol": tol, "L": L, "fuel": 200}
    if rng.random() < 0.6:
        c["epochs"] = rng.choice([1, 1, 2, 3, 5, 10, 20])
    else:
        # small step budgets too (one lost step then exceeds the bisection slack), with small L
        c["steps"] = rng.randint(1, 3000) if rng.random() < 0.5 else rng.randint(1, 60)
        if rng.random() < 0.4:
            c["L"] = rng.randint(2, 12)
    # the caller's accountant options (get_noise_multiplier's **kwargs) apply to every query of the search
    if rng.random() < 0.3:
        if mech == "gdp":
            c["opts"] = {"poisson": False}
        elif mech == "rdp":
            c["opts"] = {"alphas": [float(a) for a in range(2, rng.choice([6, 10, 33]))]}
        else:
            c["opts"] = {"eps_error": rng.choice([0.05, 0.1])}
    return c


def calib_correspondence(ctx, cases, vsteps):
    """Run the real routine (recording what the accountant answered), then the model on the same
    eps table; compare outcome, sigma and the whole query sequence bit-for-bit."""
    runs = [R.run_real(c) for c in cases]
    lines = [model_calib_line(c, r["table"]) for c, r in zip(cases, runs)]
    # the step count the real routine handed to the accountant vs the binary64 model
    sreq, sidx = [], []
    for i, (c, r) in enumerate(zip(cases, runs)):
        if c["mech"] != "synthetic" and "epochs" in c and r["hist"]:
            sreq.append(f"steps {vsteps} asCoded {c['epochs']} {c['L']}")
            sidx.append(i)
    reps = ctx.lean_driver("C08", lines + sreq)
    steps_model = {i: int(rep.split()[0]) for i, rep in zip(sidx, reps[len(lines):])}
    for i, (c, r, rep) in enumerate(zip(cases, runs, reps)):
        kind, sigma, qs = parse_model(rep)
        impl = (r["outcome"], r["sigma"], r["queries"])
        same = (
            kind == r["outcome"]
            and (sigma is None) == (r["sigma"] is None)
            and (sigma is None or f2h(sigma) == f2h(r["sigma"]))
            and [f2h(x) for x in qs] == [f2h(x) for x in r["queries"]]
        )
        if r["pending"] is not None and rep.startswith("err:eps-miss"):
            # the accountant raised at this sigma; the model asks for exactly that sigma next
            same = rep.split()[1] == f2h(r["pending"])
        if i in steps_model:
            hs = {h[2] for h in r["hist"]}
            hq = {f2h(h[1]) for h in r["hist"]}
            same = same and hs == {steps_model[i]} and hq == {f2h(1 / c["L"])}
        elif c["mech"] != "synthetic" and "steps" in c and r["hist"]:
            # `steps=` given: the model hands exactly that count (and the given rate) to the accountant
            hs = {h[2] for h in r["hist"]}
            hq = {f2h(h[1]) for h in r["hist"]}
            same = same and hs == {c["steps"]} and hq == {f2h(1 / c["L"])}
        nontriv = len(r["queries"]) >= 3 or r["outcome"] != "ok"
        key = (c["mech"], c.get("family"), round(c["target"], 6) if c["target"] == c["target"] else "nan", c.get("L"), c.get("epochs"), c.get("steps"), c["fuel"],
               round(c["params"]["c"], 6) if "params" in c else None)
        ctx.case(key, nontrivial=nontriv, sample={k: v for k, v in c.items()}, kind=f"calib:{c['mech']}:{c.get('family', 'real')}")
        ctx.count("calib-outcome:" + r["outcome"])
        ctx.count("calib-queries", len(r["queries"]))
        if same:
            ctx.validated()
        else:
            ctx.mismatch("get_noise_multiplier", c, {"outcome": impl[0], "sigma": impl[1], "queries": impl[2], "hist_steps": sorted({h[2] for h in r["hist"]})},
                         {"reply": rep[:600], "steps_model": steps_model.get(i)}, oracle=R.calibration_oracle)


# --------------------------------------------------------------------------- run
def detect_variants(ctx):
    v = {}
    l93 = R.real_len_dp(93)
    v["len"] = "asCoded" if l93 == 92 else ("repaired" if l93 == 93 else f"unknown({l93})")
    s = R.real_gnm_steps(3, 75)
    v["gnm_steps"] = "asCoded" if s == 224 else ("repaired" if s == 225 else f"unknown({s})")
    e = R.engine_facts("rdp", 75, 3, 3.0, 1e-5)
    v["engine_steps"] = "asCoded" if e["cal_steps"] == 224 else ("repaired" if e["cal_steps"] == 225 else f"unknown({e['cal_steps']})")
    for k, val in v.items():
        ctx.variant[k] = val
    ctx.log("variants implemented by this tree:", v)
    return v


def norm_variant(x):
    return x if x in ("asCoded", "repaired") else "asCoded"


def regenerate(ctx):
    from .. import regen
    from . import c08_trans as T
    regen.regenerate(ctx, T, "Opacus.Generated.Float", "float bookkeeping (privacy_engine.py, accountants/utils.py, utils/uniform_sampler.py)")
    from . import c08_loop_trans as TL
    regen.regenerate(ctx, TL, "Opacus.Generated.Calib", "accountants/utils.py:get_noise_multiplier loops")


def run(ctx):
    regenerate(ctx)
    torch.manual_seed(ctx.rng.randrange(2**31))
    v = detect_variants(ctx)
    vlen, vsteps = norm_variant(v["len"]), norm_variant(v["gnm_steps"])

    # 1. exact binary64 model vs CPython (exhaustive)
    binary64_vs_cpython(ctx, "asCoded", "asCoded")

    # 2. calibration: model vs real routine
    cases = [gen_synth(ctx.rng) for _ in range(ctx.n(150, 3000))]
    cases += R.EDGE_SYNTH
    nreal = ctx.n(14, 150)
    cases += [gen_real(ctx.rng, ("rdp", "gdp")) for _ in range(nreal)]
    cases += [gen_real(ctx.rng, ("prv",)) for _ in range(ctx.n(3, 40))]
    calib_correspondence(ctx, cases, vsteps)

    # 3. Lean witnesses replayed on the real code
    R.replay_witnesses(ctx, v)

    # 4. failing-input search on the real code
    R.search(ctx, v)


def replay(ctx, rp):
    c = rp.get("failing_input") or rp.get("case")
    res = R.replay_oracle(c)
    if res:
        print("REPRODUCED:", res[0], res[1])
        ctx.violations.append(res[0])
    else:
        print("not reproduced on this tree")
