"""C01 helper: correspondence of the REAL registered grad samplers (called directly, looked up in
`GradSampleModule.GRAD_SAMPLERS`) with the Lean model (driver `C01`).

Exact channel `i`: small-integer float64 tensors, compared bit-for-bit with the `Int` instance.
Float channel `f`: normalisation layers on generic float64 activations (x̂ is computed by the same
torch functional the sampler calls and handed to the model as an opaque tensor), tolerance 1e-9.
"""
from __future__ import annotations

import math

import torch
import torch.nn as nn
import torch.nn.functional as F

from ..core import close, f2h, h2f


def sampler_for(layer):
    from opacus.grad_sample import GradSampleModule

    return GradSampleModule.GRAD_SAMPLERS[type(layer)]


def ints(t):
    """flat list of python ints of an integer-valued float64 tensor (None if not integral)"""
    v = t.detach().double().reshape(-1)
    if v.numel() and (not bool(torch.isfinite(v).all()) or not bool((v == v.round()).all()) or float(v.abs().max()) > 2**50):
        return None
    return [int(x) for x in v.tolist()]


def enc(ch, t):
    if ch == "i":
        v = ints(t)
        assert v is not None, "non-integral tensor on the exact channel"
        return " ".join(str(x) for x in v)
    return " ".join(f2h(x) for x in t.detach().double().reshape(-1).tolist())


def rint(g, shape, lo=-3, hi=3):
    return torch.randint(lo, hi + 1, tuple(shape), generator=g).double()


def view_as(g_rng, t):
    """same values, different memory layout (the samplers must not care)"""
    k = g_rng.choice(["contiguous", "contiguous", "transposed", "sliced", "expanded-batch"])
    if k == "transposed" and t.dim() >= 2:
        return t.transpose(0, -1).contiguous().transpose(0, -1), k
    if k == "sliced" and t.dim() >= 1 and t.shape[-1] > 0:
        big = torch.zeros(*t.shape[:-1], t.shape[-1] * 2, dtype=t.dtype)
        big[..., ::2] = t
        return big[..., ::2], k
    return t, "contiguous"


def parse_blocks(reply):
    """'W 4 1 2 3 4 B -' -> {'W': ['1','2','3','4'], 'B': None} ; 'err:…' -> {'err': …}"""
    if reply.startswith("err:") or reply.startswith("bad"):
        return {"err": reply}
    toks, out, i = reply.split(), {}, 0
    while i < len(toks):
        tag = toks[i]
        if tag == "K":
            out["K"] = int(toks[i + 1])
            i += 2
            continue
        if toks[i + 1] == "-":
            out[tag] = None
            i += 2
        else:
            n = int(toks[i + 1])
            out[tag] = toks[i + 2 : i + 2 + n]
            i += 2 + n
    return out


def same(ch, impl_t, model_tokens):
    """compare an implementation tensor with the model's flat token list"""
    if impl_t is None or model_tokens is None:
        return impl_t is None and model_tokens is None
    v = impl_t.detach().double().reshape(-1).tolist()
    if len(v) != len(model_tokens):
        return False
    if ch == "i":
        return all(float(int(m)) == x for x, m in zip(v, model_tokens))
    return all(close(x, h2f(m), 1e-9, 1e-11) for x, m in zip(v, model_tokens))


# --------------------------------------------------------------------------- cases
# every generator returns a dict with: comp (component), line (driver request), run() -> impl result
# (dict of tensors / 'err:…'), check(impl, blocks) -> bool, key, nontrivial, sample (JSON-able)

def gen_linear(rng, g, variant):
    from opacus.layers.dp_rnn import RNNLinear

    N = rng.choice([0, 1, 2, 2, 3, 4])
    mid = [rng.randint(1, 3) for _ in range(rng.choice([0, 0, 1, 1, 2, 3]))]
    O, I = rng.randint(1, 4), rng.randint(1, 4)
    wr = rng.random() < 0.85
    br = rng.choice([None, True, True, True, False])
    cls = rng.choice([nn.Linear, nn.Linear, RNNLinear])
    layer = cls(I, O, bias=br is not None).double()
    layer.weight.requires_grad_(wr)
    if br is not None:
        layer.bias.requires_grad_(br)
    a = rint(g, [N] + mid + [I])
    b = rint(g, [N] + mid + [O])
    a, la = view_as(rng, a)
    b, lb = view_as(rng, b)
    T = math.prod(mid)
    line = f"i linear {N} {T} {O} {I} {int(wr)} {'n' if br is None else int(br)} {enc('i', a)} {enc('i', b)}"

    def run():
        return sampler_for(layer)(layer, [a], b), layer

    def check(res, blk):
        ret, layer = res
        if set(ret.keys()) - {layer.weight, layer.bias}:
            return False
        w, bb = ret.get(layer.weight), (ret.get(layer.bias) if layer.bias is not None else None)
        if w is not None and tuple(w.shape) != (N, O, I):
            return False
        if bb is not None and tuple(bb.shape) != (N, O):
            return False
        return same("i", w, blk.get("W")) and same("i", bb, blk.get("B"))

    return dict(comp="sampler:" + cls.__name__, line=line, run=run, check=check,
                key=("linear", cls.__name__, N, tuple(mid), O, I, wr, br, la, lb),
                nontrivial=N >= 1 and T >= 1 and (wr or br) and O * I > 1,
                sample={"layer": cls.__name__, "N": N, "mid": mid, "O": O, "I": I, "weight_requires_grad": wr, "bias": br, "layout": [la, lb]})


def gen_embedding(rng, g, variant):
    N = rng.choice([0, 1, 2, 3, 4])
    mid = [rng.randint(1, 3) for _ in range(rng.choice([0, 1, 1, 2]))]
    V, D = rng.randint(1, 5), rng.randint(1, 3)
    pad = rng.randrange(V) if rng.random() < 0.4 else None
    layer = nn.Embedding(V, D, padding_idx=pad).double()
    idx = torch.randint(0, V, [N] + mid, generator=g)
    if pad is not None and idx.numel():
        idx.view(-1)[0] = pad
    b = rint(g, [N] + mid + [D])
    b, lb = view_as(rng, b)
    T = math.prod(mid)
    line = f"i embedding {variant['D2']} {-1 if pad is None else pad} {N} {T} {V} {D} {' '.join(str(int(x)) for x in idx.reshape(-1).tolist())} {enc('i', b)}"

    def run():
        return sampler_for(layer)(layer, [idx], b), layer

    def check(res, blk):
        ret, layer = res
        w = ret.get(layer.weight)
        if w is None or "K" not in blk:
            return False
        return tuple(w.shape) == (blk["K"], V, D) and same("i", w, blk.get("W"))

    return dict(comp="sampler:Embedding", line=line, run=run, check=check,
                key=("embedding", N, tuple(mid), V, D, pad, lb),
                nontrivial=N >= 1 and V > 1,
                sample={"layer": "Embedding", "N": N, "mid": mid, "V": V, "D": D, "padding_idx": pad})


def gen_embbag(rng, g, variant):
    N = rng.randint(1, 4)
    V, D = rng.randint(1, 5), rng.randint(1, 3)
    mode = rng.choice(["sum", "mean"])
    lens = [rng.randint(0, 4) for _ in range(N)]
    L = sum(lens)
    index = torch.randint(0, V, (L,), generator=g)
    off = torch.tensor([sum(lens[:i]) for i in range(N)], dtype=torch.long)
    layer = nn.EmbeddingBag(V, D, mode=mode).double()
    b = rint(g, [N, D])
    if mode == "mean":  # keep the exact channel exact: backprops divisible by every bag length
        b = b * 12
    line = f"i embbag {variant['D22']} {mode} {N} {L} {V} {D} {' '.join(str(int(x)) for x in index.tolist())} {' '.join(str(int(x)) for x in off.tolist())} {enc('i', b)}"
    dup = any(len(set(index[o : o + ln].tolist())) < ln for o, ln in zip(off.tolist(), lens))

    def run():
        return sampler_for(layer)(layer, [index, off], b), layer

    def check(res, blk):
        ret, layer = res
        w = ret.get(layer.weight)
        return w is not None and tuple(w.shape) == (N, V, D) and same("i", w, blk.get("W"))

    return dict(comp="sampler:EmbeddingBag", line=line, run=run, check=check,
                key=("embbag", mode, N, tuple(lens), V, D, dup), nontrivial=L >= 1,
                sample={"layer": "EmbeddingBag", "mode": mode, "bag_lens": lens, "V": V, "D": D, "repeated_index_in_a_bag": dup})


def _norm_common(rng, g, kind):
    N = rng.choice([0, 1, 2, 3])
    wr = rng.random() < 0.85
    br = rng.choice([True, True, False])
    exact = rng.random() < 0.4
    return N, wr, br, exact


def gen_groupnorm(rng, g, variant):
    N, wr, br, exact = _norm_common(rng, g, "group")
    inst = rng.random() < 0.45
    nd = rng.randint(1, 3)
    sp = [rng.randint(1, 3) for _ in range(nd)]
    if inst:
        C = rng.randint(1, 4)
        if math.prod(sp) < 2:
            sp[0] = 2
        G = C
    else:
        G = rng.choice([1, 2, 3])
        C = G * rng.randint(1, 2)
    if (C // G) * math.prod(sp) < 2:
        sp[0] = 2
    S = math.prod(sp)
    gsize = (C // G) * S
    if exact and gsize % 2:
        exact = False
    eps = 0.0 if exact else rng.choice([1e-5, 1e-3, 0.1])
    if inst:
        layer = {1: nn.InstanceNorm1d, 2: nn.InstanceNorm2d, 3: nn.InstanceNorm3d}[nd](C, affine=True, eps=eps).double()
    else:
        layer = nn.GroupNorm(G, C, eps=eps).double()
    layer.weight.requires_grad_(wr)
    layer.bias.requires_grad_(br)
    if exact:
        # every group: half the entries +2^k, half -2^k in random positions  ⇒ mean 0, var 4^k, x̂ = ±1 exactly
        a = torch.empty(N, G, gsize, dtype=torch.float64)
        for n in range(N):
            for gg in range(G):
                perm = torch.randperm(gsize, generator=g)
                mag = float(2 ** rng.randint(0, 2))
                row = torch.full((gsize,), -mag, dtype=torch.float64)
                row[perm[: gsize // 2]] = mag
                a[n, gg] = row
        a = a.reshape([N, C] + sp)
    else:
        a = torch.randn([N, C] + sp, generator=g, dtype=torch.float64) * 1.5 + 0.3
    b = rint(g, [N, C] + sp) if exact else torch.randn([N, C] + sp, generator=g, dtype=torch.float64)
    xhat = F.instance_norm(a, eps=eps) if inst else F.group_norm(a, G, eps=eps)
    ch = "i" if exact and ints(xhat) is not None else "f"
    line = f"{ch} norm {N} {C} {S} {int(wr)} {int(br)} {enc(ch, xhat)} {enc(ch, b)}"

    def run():
        return sampler_for(layer)(layer, [a], b), layer

    def check(res, blk):
        ret, layer = res
        w, bb = ret.get(layer.weight), ret.get(layer.bias)
        for t in (w, bb):
            if t is not None and tuple(t.shape) != (N, C):
                return False
        return same(ch, w, blk.get("W")) and same(ch, bb, blk.get("B"))

    name = type(layer).__name__
    return dict(comp="sampler:" + name, line=line, run=run, check=check,
                key=("norm", name, N, C, G, tuple(sp), wr, br, ch), nontrivial=N >= 1 and S * C > 1 and (wr or br),
                sample={"layer": name, "N": N, "C": C, "groups": G, "spatial": sp, "channel": ch, "eps": eps})


def gen_layernorm(rng, g, variant):
    N, wr, br, exact = _norm_common(rng, g, "layer")
    mid = [rng.randint(1, 3) for _ in range(rng.choice([0, 0, 1, 2]))]
    ns = [rng.randint(1, 4) for _ in range(rng.choice([1, 1, 2]))]
    K = math.prod(ns)
    has_bias = rng.random() < 0.8
    if exact and K % 2:
        exact = False
    eps = 0.0 if exact else rng.choice([1e-5, 1e-3, 0.1])
    layer = nn.LayerNorm(ns, eps=eps, bias=has_bias).double()
    layer.weight.requires_grad_(wr)
    if has_bias:
        layer.bias.requires_grad_(br)
    M = math.prod(mid)
    if exact:
        a = torch.empty(N * M, K, dtype=torch.float64)
        for r in range(N * M):
            perm = torch.randperm(K, generator=g)
            mag = float(2 ** rng.randint(0, 2))
            row = torch.full((K,), -mag, dtype=torch.float64)
            row[perm[: K // 2]] = mag
            a[r] = row
        a = a.reshape([N] + mid + ns)
    else:
        a = torch.randn([N] + mid + ns, generator=g, dtype=torch.float64) * 1.5 + 0.3
    b = rint(g, [N] + mid + ns) if exact else torch.randn([N] + mid + ns, generator=g, dtype=torch.float64)
    xhat = F.layer_norm(a, ns, eps=eps)
    ch = "i" if exact and ints(xhat) is not None else "f"
    brs = "n" if not has_bias else str(int(br))
    line = f"{ch} layernorm {variant['D18']} {N} {M} {K} {int(wr)} {brs} {enc(ch, xhat)} {enc(ch, b)}"

    def run():
        try:
            return sampler_for(layer)(layer, [a], b), layer
        except AttributeError:
            return "err:AttributeError", layer

    def check(res, blk):
        ret, layer = res
        if isinstance(ret, str) or "err" in blk:
            return isinstance(ret, str) and blk.get("err") == ret
        w, bb = ret.get(layer.weight), (ret.get(layer.bias) if layer.bias is not None else None)
        for t in (w, bb):
            if t is not None and tuple(t.shape) != tuple([N] + ns):
                return False
        return same(ch, w, blk.get("W")) and same(ch, bb, blk.get("B"))

    return dict(comp="sampler:LayerNorm", line=line, run=run, check=check,
                key=("layernorm", N, tuple(mid), tuple(ns), wr, brs, ch), nontrivial=N >= 1 and K > 1 and (wr or (has_bias and br)),
                sample={"layer": "LayerNorm", "N": N, "mid": mid, "normalized_shape": ns, "bias": brs, "channel": ch, "eps": eps})


def gen_seqbias(rng, g, variant):
    from opacus.layers.dp_multihead_attention import SequenceBias

    N, L, E = rng.randint(0, 3), rng.randint(0, 3), rng.randint(1, 4)
    layer = SequenceBias(E, batch_first=True).double()
    b = rint(g, [N, L + 1, E])
    line = f"i seqbias {N} {L} {E} {enc('i', b)}"

    def run():
        return sampler_for(layer)(layer, [torch.zeros(N, L, E)], b), layer

    def check(res, blk):
        ret, layer = res
        bb = ret.get(layer.bias)
        return bb is not None and tuple(bb.shape) == (N, E) and same("i", bb, blk.get("B"))

    return dict(comp="sampler:SequenceBias", line=line, run=run, check=check, key=("seqbias", N, L, E),
                nontrivial=N >= 1 and L >= 1, sample={"layer": "SequenceBias", "N": N, "L": L, "E": E})


GENERATORS = [
    (gen_linear, 4), (gen_embedding, 3), (gen_embbag, 2), (gen_groupnorm, 3), (gen_layernorm, 3), (gen_seqbias, 1),
]


# --------------------------------------------------------------------------- convolutions (driver C01conv)
def _pad_lr(p, k, d):
    if p == "same":
        t = d * (k - 1)
        return t // 2, t - t // 2
    if p == "valid":
        return 0, 0
    return p, p


def _geometry(rng, nd, allow_modes=True):
    """random conv geometry that torch accepts; returns dict or None"""
    sp = [rng.randint(1, 5) for _ in range(nd)]
    k = [rng.randint(1, 3) for _ in range(nd)]
    d = [rng.choice([1, 1, 2, 3]) for _ in range(nd)]
    s = [rng.choice([1, 1, 2, 3]) for _ in range(nd)]
    r = rng.random()
    if r < 0.2:
        pad, s = "same", [1] * nd
    elif r < 0.3:
        pad = "valid"
    else:
        pad = [rng.choice([0, 0, 1, 2]) for _ in range(nd)]
    mode = "zeros"
    if allow_modes and isinstance(pad, list) and rng.random() < 0.25:
        mode = rng.choice(["reflect", "replicate", "circular"])
        if mode == "reflect" and any(p >= n for p, n in zip(pad, sp)):
            mode = "replicate"
        if mode == "circular" and any(p > n for p, n in zip(pad, sp)):
            mode = "replicate"
    out = []
    for i in range(nd):
        pl, pr = _pad_lr(pad if isinstance(pad, str) else pad[i], k[i], d[i])
        lp = sp[i] + pl + pr
        dk = k[i] + (k[i] - 1) * (d[i] - 1)
        if dk > lp:
            return None
        out.append((lp - dk) // s[i] + 1)
    return dict(sp=sp, k=k, d=d, s=s, pad=pad, mode=mode, out=out)


def _layout2d(rng, x, allowed):
    """returns a tensor with the same values as x (4-D) in another memory layout"""
    lay = rng.choice(allowed)
    if lay == "channels_last":
        return x.contiguous(memory_format=torch.channels_last), lay
    if lay == "transposed":
        return x.transpose(-1, -2).contiguous().transpose(-1, -2), lay
    if lay == "sliced":
        big = torch.zeros(*x.shape[:-1], x.shape[-1] * 2, dtype=x.dtype)
        big[..., ::2] = x
        return big[..., ::2], lay
    if lay == "batch-transposed":
        return x.transpose(0, 1).contiguous().transpose(0, 1), lay
    return x, "contiguous"


def _pad_tokens(pad, nd):
    return [pad] * nd if isinstance(pad, str) else [str(p) for p in pad]


def gen_conv(rng, g, variant):
    nd = rng.choice([1, 2, 2, 2, 3])
    geo = None
    while geo is None:
        geo = _geometry(rng, nd)
    N = rng.choice([0, 1, 2, 2, 3])
    G = rng.choice([1, 1, 2, 3])
    Cg, Og = rng.randint(1, 2), rng.randint(1, 2)
    C, O = G * Cg, G * Og
    wr = rng.random() < 0.9
    br = rng.choice([None, True, True, False])
    cls = {1: nn.Conv1d, 2: nn.Conv2d, 3: nn.Conv3d}[nd]
    layer = cls(C, O, tuple(geo["k"]), stride=tuple(geo["s"]), padding=geo["pad"] if isinstance(geo["pad"], str) else tuple(geo["pad"]),
                dilation=tuple(geo["d"]), groups=G, bias=br is not None, padding_mode=geo["mode"]).double()
    layer.weight.requires_grad_(wr)
    if br is not None:
        layer.bias.requires_grad_(br)
    x = rint(g, [N, C] + geo["sp"], -2, 2)
    b = rint(g, [N, O] + geo["out"], -2, 2)
    lay = "contiguous"
    strides = None
    if nd == 2:
        allowed = ["contiguous", "contiguous", "batch-transposed", "channels_last", "transposed"]
        if variant["D19"] == "repaired":
            allowed += ["sliced"]
        x, lay = _layout2d(rng, x, allowed)
        pads = []
        for i in (1, 0):
            pads += list(_pad_lr(geo["pad"] if isinstance(geo["pad"], str) else geo["pad"][i], geo["k"][i], geo["d"][i]))
        if variant["D17"] == "repaired" and geo["mode"] != "zeros":
            strides = F.pad(F.pad(x, pads, mode=geo["mode"]), [0, 0, 0, 0]).stride() if N else (0, 0, 0, 0)
        else:
            strides = F.pad(x, pads).stride()
    b, lb = view_as(rng, b)
    pt = " ".join(_pad_tokens(geo["pad"], nd))
    dims = f"{N} {C} {O} {G} " + " ".join(map(str, geo["sp"] + geo["k"] + geo["s"] + geo["d"]))
    flags = f"{int(wr)} {'n' if br is None else int(br)}"
    if nd == 2:
        line = f"conv2d {variant['D17']} {variant['D19']} {geo['mode']} {dims} {pt} {flags} {' '.join(map(str, strides))} {enc('i', x)} {enc('i', b)}"
    else:
        line = f"conv{nd}d {variant['D17']} {geo['mode']} {dims} {pt} {flags} {enc('i', x)} {enc('i', b)}"
    wshape = (O, Cg) + tuple(geo["k"])

    def run():
        return sampler_for(layer)(layer, [x], b), layer

    def check(res, blk):
        ret, layer = res
        if "K" not in blk:
            return False
        w, bb = ret.get(layer.weight), (ret.get(layer.bias) if layer.bias is not None else None)
        if w is not None and tuple(w.shape) != (blk["K"],) + wshape:
            return False
        if bb is not None and tuple(bb.shape) != (blk["K"], O):
            return False
        return same("i", w, blk.get("W")) and same("i", bb, blk.get("B"))

    arch = {"kind": "c%d" % nd, "shape": [C] + geo["sp"], "in_layout": {"channels_last": "channels_last", "transposed": "transposed"}.get(lay, "contiguous"),
            "layers": [{"t": "Conv", "nd": nd, "in": C, "out": O, "k": geo["k"], "s": geo["s"], "p": geo["pad"], "d": geo["d"], "g": G,
                        "bias": br is not None, "pm": geo["mode"]}]}
    return dict(driver="C01conv", comp=f"sampler:Conv{nd}d", line=line, run=run, check=check,
                key=("conv", nd, N, C, O, G, tuple(geo["sp"]), tuple(geo["k"]), tuple(geo["s"]), tuple(geo["d"]), str(geo["pad"]), geo["mode"], wr, br, lay),
                nontrivial=N >= 1 and wr and math.prod(geo["out"]) >= 1 and (math.prod(geo["k"]) > 1 or C > 1),
                sample={"layer": "Conv", "nd": nd, "N": N, "groups": G, "layout": lay, "padding_mode": geo["mode"], "arch": arch})


def gen_unfold2d(rng, g, variant):
    from opacus.utils.tensor_utils import unfold2d

    geo = None
    while geo is None:
        geo = _geometry(rng, 2, allow_modes=False)
    N, C = rng.randint(1, 3), rng.randint(1, 3)
    x = rint(g, [N, C] + geo["sp"], -4, 4)
    allowed = ["contiguous", "batch-transposed", "channels_last", "transposed"] + (["sliced"] if variant["D19"] == "repaired" else [])
    x, lay = _layout2d(rng, x, allowed)
    pads = []
    for i in (1, 0):
        pads += list(_pad_lr(geo["pad"] if isinstance(geo["pad"], str) else geo["pad"][i], geo["k"][i], geo["d"][i]))
    strides = F.pad(x, pads).stride()
    line = (f"unfold2d {variant['D19']} {N} {C} " + " ".join(map(str, geo["sp"] + geo["k"] + geo["s"] + geo["d"])) + " "
            + " ".join(_pad_tokens(geo["pad"], 2)) + " " + " ".join(map(str, strides)) + " " + enc("i", x))
    K, Q = math.prod(geo["k"]), math.prod(geo["out"])

    def run():
        return unfold2d(x, kernel_size=tuple(geo["k"]), padding=geo["pad"] if isinstance(geo["pad"], str) else tuple(geo["pad"]),
                        stride=tuple(geo["s"]), dilation=tuple(geo["d"])), None

    def check(res, blk):
        u = res[0]
        return tuple(u.shape) == (N, C * K, Q) and same("i", u, blk.get("U"))

    arch = {"kind": "c2", "shape": [C] + geo["sp"], "in_layout": {"channels_last": "channels_last", "transposed": "transposed"}.get(lay, "contiguous"),
            "layers": [{"t": "Conv", "nd": 2, "in": C, "out": 2, "k": geo["k"], "s": geo["s"], "p": geo["pad"], "d": geo["d"], "g": 1, "bias": True, "pm": "zeros"}]}
    return dict(driver="C01conv", comp="unfold2d", line=line, run=run, check=check,
                key=("unfold2d", N, C, tuple(geo["sp"]), tuple(geo["k"]), tuple(geo["s"]), tuple(geo["d"]), str(geo["pad"]), lay),
                nontrivial=K > 1 or Q > 1, sample={"layer": "Conv", "fn": "unfold2d", "N": N, "layout": lay, "arch": arch})


def gen_unfold3d(rng, g, variant):
    from opacus.utils.tensor_utils import unfold3d

    geo = None
    while geo is None:
        geo = _geometry(rng, 3, allow_modes=False)
    N, C = rng.randint(1, 2), rng.randint(1, 3)
    x = rint(g, [N, C] + geo["sp"], -4, 4)
    line = f"unfold3d {N} {C} " + " ".join(map(str, geo["sp"] + geo["k"] + geo["s"] + geo["d"])) + " " + " ".join(_pad_tokens(geo["pad"], 3)) + " " + enc("i", x)
    K, Q = math.prod(geo["k"]), math.prod(geo["out"])

    def run():
        return unfold3d(x, kernel_size=tuple(geo["k"]), padding=geo["pad"] if isinstance(geo["pad"], str) else tuple(geo["pad"]),
                        stride=tuple(geo["s"]), dilation=tuple(geo["d"])), None

    def check(res, blk):
        u = res[0]
        return tuple(u.shape) == (N, C * K, Q) and same("i", u, blk.get("U"))

    arch = {"kind": "c3", "shape": [C] + geo["sp"],
            "layers": [{"t": "Conv", "nd": 3, "in": C, "out": 2, "k": geo["k"], "s": geo["s"], "p": geo["pad"], "d": geo["d"], "g": 1, "bias": True, "pm": "zeros"}]}
    return dict(driver="C01conv", comp="unfold3d", line=line, run=run, check=check,
                key=("unfold3d", N, C, tuple(geo["sp"]), tuple(geo["k"]), tuple(geo["s"]), tuple(geo["d"]), str(geo["pad"])),
                nontrivial=K > 1 or Q > 1, sample={"layer": "Conv", "fn": "unfold3d", "N": N, "arch": arch})


GENERATORS += [(gen_conv, 6), (gen_unfold2d, 2), (gen_unfold3d, 1)]
